CONSTANTS
  M = 4
  MaxN = 3
  Vals = {1, 2, 3}
SPECIFICATION Spec
INVARIANT OneBounds
INVARIANT OneIgnoresInvalidAndOrder
INVARIANT TwoSymmetric
INVARIANT TwoBounds
INVARIANT TwoZeroIffSameLaw
CHECK_DEADLOCK FALSE
