------------------------------- MODULE GenMctFilter -------------------------------
\* spec -> code for X01: every catalog of the bounded model (time-sorted or not) with what the library's loop returns
\* for it (Impl) and, for time-sorted catalogs, what the formula prescribes (the same, by ImplMatchesSpec).
EXTENDS MctFilter, Json
Emit == PrintT(<<"CASE", ToJson([cat |-> cat, sorted |-> Sorted(cat), rej |-> Impl(cat).rej, keep |-> Impl(cat).v,
                                 spec |-> Spec_(cat).v])>>)
===================================================================================
