------------------------------- MODULE CartRegion -------------------------------
\* C01 - Cartesian regions assign each point to the one half-open cell containing it.
\*
\* Build mirrors CartesianGrid2D._build_bitmask_vec: every polygon's midpoint is hashed into the
\* bounding-box grid, idx_map records the polygon index, the mask is cleared where a polygon with
\* a valid flag sits (file flag 1 = valid).  The four observable operations (index lookup,
\* masking, spatial filter, per-cell counts) are all the same lookup.
EXTENDS Grid2D, TLC

CONSTANTS NX, NY,           \* largest lattice
          MaxFlagged,       \* at most this many cells flagged out
          CloseSingle       \* TRUE: one-row / one-column regions are closed above (repaired code)

VARIABLES stage,            \* 0: canonical order, no flags; 1: re-ordered / flagged variant
          nx, ny,           \* lattice extent (number of columns / rows = edges per axis)
          polys,            \* sequence of cells <<i, j>> (0-based) in the order given = polygon index - 1
          flags,            \* sequence of 0/1 flags parallel to polys, or <<>> when no mask was given
          idxMap, mask      \* built: idxMap[j][i] polygon index (0-based) or -1; mask[j][i] TRUE = masked

vars == <<stage, nx, ny, polys, flags, idxMap, mask>>

Cells(a, b) == (0..(a - 1)) \X (0..(b - 1))
Tight(act, a, b) ==
    /\ act # {}
    /\ \E c \in act : c[1] = 0
    /\ \E c \in act : c[2] = 0
    /\ \E c \in act : c[1] = a - 1
    /\ \E c \in act : c[2] = b - 1

\* a few orders per cell set: lexicographic, reverse, rotated by one
LexLess(c, d) == c[2] < d[2] \/ (c[2] = d[2] /\ c[1] < d[1])
MinCell(act) == CHOOSE c \in act : \A d \in act : d = c \/ LexLess(c, d)
RECURSIVE SortedSeq(_)
SortedSeq(act) == IF act = {} THEN <<>> ELSE <<MinCell(act)>> \o SortedSeq(act \ {MinCell(act)})
Reverse(s) == [p \in 1..Len(s) |-> s[Len(s) - p + 1]]
Rotate(s) == [p \in 1..Len(s) |-> s[(p % Len(s)) + 1]]
Orders(act) == {SortedSeq(act), Reverse(SortedSeq(act)), Rotate(SortedSeq(act))}

\* Build: the midpoint of cell <<i,j>> lies at interior class 3 of bin i / j on each axis
Mid(k) == k * S + 3
PolyAt(ps, i, j) == {q \in 1..Len(ps) : ps[q] = <<i, j>>}
BuildIdx(ps, a, b) ==
    [j \in 1..b |-> [i \in 1..a |->
        IF PolyAt(ps, i - 1, j - 1) = {} THEN -1 ELSE (CHOOSE q \in PolyAt(ps, i - 1, j - 1) : TRUE) - 1]]
BuildMask(ps, fl, a, b) ==
    [j \in 1..b |-> [i \in 1..a |->
        IF PolyAt(ps, i - 1, j - 1) = {} THEN TRUE
        ELSE LET q == CHOOSE q \in PolyAt(ps, i - 1, j - 1) : TRUE IN
             IF fl = <<>> THEN FALSE ELSE fl[q] # 1]]

\* Configurations are produced in two stages so that TLC's workers share the (expensive) invariant evaluation:
\* initial states hold the cells in lexicographic order without flags; one step re-orders them and / or adds flags.
Init ==
    /\ nx \in 1..NX /\ ny \in 1..NY
    /\ \E act \in SUBSET Cells(nx, ny) :
         /\ Tight(act, nx, ny)
         /\ polys = SortedSeq(act)
    /\ flags = <<>>
    /\ stage = 0
    /\ idxMap = BuildIdx(polys, nx, ny)
    /\ mask = BuildMask(polys, flags, nx, ny)

Vary ==
    /\ stage = 0 /\ stage' = 1
    /\ polys' \in Orders({polys[q] : q \in 1..Len(polys)})
    /\ \/ flags' = <<>>
       \/ /\ flags' \in [1..Len(polys) -> {0, 1}]
          /\ Cardinality({q \in 1..Len(polys) : flags'[q] = 0}) \in 1..MaxFlagged
    /\ idxMap' = BuildIdx(polys', nx, ny)
    /\ mask' = BuildMask(polys', flags', nx, ny)
    /\ UNCHANGED <<nx, ny>>
Next == Vary          \* the region itself is immutable; all further quantification is over points
Spec == Init /\ [][Next]_vars

\* what the property says the cell map is: polygon index of the valid cell at (i, j) or -1
Valid(q) == flags = <<>> \/ flags[q] = 1
TrueMap == [j \in 1..ny |-> [i \in 1..nx |->
              IF \E q \in 1..Len(polys) : polys[q] = <<i - 1, j - 1>> /\ Valid(q)
              THEN (CHOOSE q \in 1..Len(polys) : polys[q] = <<i - 1, j - 1>> /\ Valid(q)) - 1
              ELSE -1]]
\* what the library's structures say
BuiltMap == [j \in 1..ny |-> [i \in 1..nx |-> IF mask[j][i] THEN -1 ELSE idxMap[j][i]]]

Points == Pos(nx) \X Pos(ny)

\* (a) every point belongs to at most one cell unless it sits in a tolerance band
Partition == \A p \in Points :
    (C(p[1]) # 5 /\ C(p[2]) # 5) => Cardinality(SpecLookup(TrueMap, nx, ny, p[1], p[2])) = 1
\* (b) the library's lookup is containment in the half-open cell
LookupIsContainment == \A p \in Points :
    ImplLookup(BuiltMap, nx, ny, p[1], p[2], CloseSingle) \subseteq SpecLookup(TrueMap, nx, ny, p[1], p[2])
\* (c) a coordinate exactly on a boundary belongs to the cell that boundary opens
BoundaryOpens == \A p \in Points :
    (C(p[1]) = 0 /\ C(p[2]) = 0 /\ K(p[1]) \in 0..(nx - 1) /\ K(p[2]) \in 0..(ny - 1)) =>
        ImplLookup(BuiltMap, nx, ny, p[1], p[2], CloseSingle) = {TrueMap[K(p[2]) + 1][K(p[1]) + 1]}
\* (d) structures agree with the cell set: no polygon lost, none duplicated
MapIsBijective == \A q \in 1..Len(polys) :
    Valid(q) => BuiltMap[polys[q][2] + 1][polys[q][1] + 1] = q - 1
=================================================================================
