------------------------------- MODULE TraceQuadtree -------------------------------
\* code -> spec for C17: one trace = one grid the library built from a real catalog.
\*   events   the catalog's epicentres located exactly on the half-tile lattice of zoom Z (even = on a tile edge)
\*   thr, zoom   the parameters given to from_catalog
\*   qks      the quadkeys of the returned grid (sequences of digits), in the library's cell order
\*   lookups  <<x, y, idx>>: get_index_of for probe points (1-based cell index, 0 = no cell)
\* TLC reruns the refinement and accepts iff the returned cells are exactly its leaves and every lookup is the
\* unique containing cell.
EXTENDS Quadtree, Json, IOUtils
VARIABLES tid, done
Traces == JsonDeserialize(IOEnv.TRACE_FILE)
T == Traces[tid]
Range(s) == {s[i] : i \in 1..Len(s)}
GridOk == LET g == Grid(T.events, T.thr, T.zoom) IN Range(g) = Range(T.qks) /\ Len(g) = Len(T.qks)
LookupsOk ==
    LET boxes == [c \in 1..Len(T.qks) |-> Box(T.qks[c])] IN
    \A i \in 1..Len(T.lookups) :
        LET p == <<T.lookups[i][1], T.lookups[i][2]>>
            m == {c \in 1..Len(T.qks) : InBox(boxes[c], p)} IN
        /\ Cardinality(m) <= 1
        /\ T.lookups[i][3] = (IF m = {} THEN 0 ELSE CHOOSE c \in m : TRUE)
Parts == <<GridOk, LookupsOk>>
Bad == {i \in 1..2 : ~Parts[i]}
TraceInit == tid \in 1..Len(Traces) /\ done = FALSE /\ events = <<>> /\ thr = 0 /\ zoom = 1
TraceNext == ~done /\ Bad = {} /\ done' = TRUE /\ UNCHANGED <<tid, events, thr, zoom>>
TraceSpec == TraceInit /\ [][TraceNext]_<<tid, done, events, thr, zoom>>
AcceptInv == IF done THEN PrintT(<<"ACCEPT", tid>>)
             ELSE (Bad # {} => PrintT(<<"PROG", tid, CHOOSE i \in Bad : \A j \in Bad : i <= j>>))
====================================================================================
