---------------------------- MODULE TraceCatForecast ----------------------------
\* code -> spec for C13: a trace is one history of client operations on a real CatalogForecast.
\* events[l] = [op, passes, ret]: passes = what every complete pass made during the operation
\* yielded (internal passes included, observed by wrapping __next__ in the harness process),
\* ret = the client-visible result projected to the uniform [k, v, n] shape.
EXTENDS CatForecastAbs, Json, IOUtils, TLCExt

VARIABLES tid, l

Traces == JsonDeserialize(IOEnv.TRACE_FILE)
Only == IF "TRACE_ONLY" \in DOMAIN IOEnv THEN atoi(IOEnv.TRACE_ONLY) ELSE 0
T == Traces[tid]

TraceInit ==
    /\ tid \in (IF Only > 0 THEN {Only} ELSE 1..Len(Traces))
    /\ conf = T.conf /\ cats = T.cats
    /\ hist = <<>> /\ passes = 0 /\ res = None
    /\ l = 1

TraceNext ==
    /\ l <= Len(T.events)
    /\ LET ev == T.events[l] IN
        /\ \A p \in 1..Len(ev.passes) : ev.passes[p] = ViewIds(conf, cats)     \* PassStable
        /\ Do(ev.op, Len(ev.passes), ev.ret)
    /\ l' = l + 1
    /\ UNCHANGED tid

TraceSpec == TraceInit /\ [][TraceNext]_<<avars, tid, l>>

AcceptInv == (l = Len(T.events) + 1) => PrintT(<<"ACCEPT", tid>>)
\* progress marker: lets the harness name the first unexplained event of a rejected trace
Prog == PrintT(<<"PROG", tid, l>>)
Diag == PrintT(<<"DIAG", ToJson([tid |-> tid, explained_events |-> l - 1, hist |-> hist])>>)
=================================================================================
