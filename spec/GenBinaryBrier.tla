------------------------------ MODULE GenBinaryBrier ------------------------------
EXTENDS BinaryBrier, Json
Emit == PrintT(<<"CASE", ToJson([kind |-> kind, rid |-> rid, w |-> w, stat |-> Stat(kind, rid, w)])>>)
===================================================================================
