CONSTANTS
  MaxCat = 3
  MaxEv = 2
  Versions = {1, 2, 3}
  Tok = {0, 1}
  HeaderFieldsV3 = 13
SPECIFICATION Spec
INVARIANT RoundTrip
INVARIANT ConsumesAll
INVARIANT NeverPastEnd
INVARIANT IdsAreOrdinal
CHECK_DEADLOCK FALSE
