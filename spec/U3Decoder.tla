--------------------------------- MODULE U3Decoder ---------------------------------
\* X02 - framing of the merged UCERF3-ETAS binary stochastic event set (UCERF3Catalog.load_catalogs), beyond the
\* listed properties.  A file is a stream of big-endian fields:
\*     N | for each catalog:  version | header(version) | size x event(version)
\* header(1) = header(2) = <<size>>;  header(3..) = 13 further fields followed by size;  an event has 12 fields in
\* version 1 and 13 (etas_k appended) from version 2.  Field values are abstract tokens; what matters is that the
\* decoder cuts the stream at the right places: every catalog gets its own events, in order, with the right number
\* of fields, whatever mixture of versions and empty catalogs the file holds.
\*
\* Enc  the writer (the format definition);  the decoder is a state machine reading one field group per step.
EXTENDS Integers, Sequences, FiniteSets, TLC

CONSTANTS MaxCat, MaxEv, Versions, Tok,
          HeaderFieldsV3      \* number of header fields before catalog_size in version >= 3 (13; another value must be refuted)

VARIABLES cats,      \* the catalogs written: sequence of [ver, evs]; an event is a sequence of tokens of the version's length
          pos, left, out, cur, phase      \* decoder: position in the stream, catalogs left, decoded so far, current catalog

vars == <<cats, pos, left, out, cur, phase>>

EvLen(v) == IF v = 1 THEN 12 ELSE 13
HdrLen(v) == IF v <= 2 THEN 1 ELSE 14                       \* the format
HdrLenDec(v) == IF v <= 2 THEN 1 ELSE HeaderFieldsV3 + 1    \* the decoder's idea of it

RECURSIVE Flat(_)
Flat(ss) == IF Len(ss) = 0 THEN <<>> ELSE Head(ss) \o Flat(Tail(ss))
Pad(n) == [i \in 1..n |-> 0]
EncCat(c) == <<c.ver>> \o Pad(HdrLen(c.ver) - 1) \o <<Len(c.evs)>> \o Flat(c.evs)
Enc(cs) == <<Len(cs)>> \o Flat([i \in 1..Len(cs) |-> EncCat(cs[i])])

Stream == Enc(cats)

EventsOf(v) == [1..EvLen(v) -> Tok]
\* a small but telling family of events: all fields equal, or the first / last field different (a shifted cut shows up)
EvFamily(v) == { [i \in 1..EvLen(v) |-> IF i = 1 THEN a ELSE IF i = EvLen(v) THEN b ELSE 0] : a \in Tok, b \in Tok }

Init == /\ cats = <<>>
        /\ pos = 0 /\ left = -1 /\ out = <<>> /\ cur = [ver |-> 0, need |-> 0, evs |-> <<>>] /\ phase = "build"

AddCat == /\ phase = "build" /\ Len(cats) < MaxCat
          /\ \E v \in Versions : \E n \in 0..MaxEv : \E e \in EvFamily(v) :
                cats' = Append(cats, [ver |-> v, evs |-> [i \in 1..n |-> e]])
          /\ UNCHANGED <<pos, left, out, cur, phase>>
StartDecode == /\ phase = "build"
               /\ phase' = "count" /\ pos' = 1 /\ UNCHANGED <<cats, left, out, cur>>
ReadCount == /\ phase = "count"
             /\ left' = Stream[pos] /\ pos' = pos + 1
             /\ phase' = IF Stream[pos] = 0 THEN "done" ELSE "header"
             /\ UNCHANGED <<cats, out, cur>>
ReadHeader == /\ phase = "header"
              /\ LET v == Stream[pos]
                     h == HdrLenDec(v)
                     n == Stream[pos + h] IN
                 /\ cur' = [ver |-> v, need |-> n, evs |-> <<>>]
                 /\ pos' = pos + 1 + h
                 /\ phase' = "events"
              /\ UNCHANGED <<cats, left, out>>
ReadEvents == /\ phase = "events"
              /\ LET L == EvLen(cur.ver)
                     evs == [i \in 1..cur.need |-> SubSeq(Stream, pos + (i - 1) * L, pos + i * L - 1)] IN
                 /\ out' = Append(out, [ver |-> cur.ver, evs |-> evs])
                 /\ pos' = pos + cur.need * L
              /\ left' = left - 1
              /\ phase' = IF left = 1 THEN "done" ELSE "header"
              /\ UNCHANGED <<cats, cur>>
Next == AddCat \/ StartDecode \/ ReadCount \/ ReadHeader \/ ReadEvents
Spec == Init /\ [][Next]_vars

\* ------------------------------------------------------------------ properties
RoundTrip == phase = "done" => out = cats
ConsumesAll == phase = "done" => pos = Len(Stream) + 1
NeverPastEnd == phase \in {"header", "events", "count"} => pos <= Len(Stream) + 1
IdsAreOrdinal == \A i \in 1..Len(out) : out[i] = cats[i]          \* catalog i of the file is decoded i-th (its id is i - 1)
====================================================================================
