----------------------------------- MODULE GenRepo -----------------------------------
\* spec -> code for X07: every history of the bounded model as its operation list
EXTENDS Repo, Json
VARIABLE hist
GInit == Init /\ hist = <<>>
GNext == \/ \E d \in Docs, b \in BOOLEAN : Save(d, b) /\ hist' = Append(hist, [op |-> "save", d |-> d, b |-> b])
         \/ Load /\ hist' = Append(hist, [op |-> "load", d |-> "", b |-> FALSE])
GSpec == GInit /\ [][GNext]_<<vars, hist>>
Emit == (ops = MaxOps) => PrintT(<<"CASE", ToJson([hist |-> hist])>>)
======================================================================================
