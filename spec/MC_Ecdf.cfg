CONSTANTS
  A = 6
  MaxN = 7
SPECIFICATION Spec
INVARIANT ImplMatchesSpec
INVARIANT SumIdentity
INVARIANT Bounds
PROPERTY Monotone
CHECK_DEADLOCK FALSE
