CONSTANTS
  NCells = 2
  NBins = 2
  MaxEv = 3
  MagCountsSkipsBelowMin = TRUE
  SMCChecksLength = TRUE
  Quad = FALSE
SPECIFICATION Spec
INVARIANT Emit
CHECK_DEADLOCK FALSE
