--------------------------------- MODULE GenGridRefine ---------------------------------
\* spec -> code for X13: every finished run with what the specification decides: the outcome, the refined origins in fine
\* units and the final spacing.
EXTENDS GridRefine, Json, SequencesExt
Emit == st # "run" => PrintT(<<"CASE", ToJson([parents |-> SetToSeq(parents), f0 |-> f0, st |-> st, h |-> h, u |-> U, pts |-> SetToSeq(pts)])>>)
=======================================================================================
