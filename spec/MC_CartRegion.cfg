CONSTANTS
  NX = 3
  NY = 3
  MaxFlagged = 1
  CloseSingle = TRUE
SPECIFICATION Spec
INVARIANT Partition
INVARIANT LookupIsContainment
INVARIANT BoundaryOpens
INVARIANT MapIsBijective
CHECK_DEADLOCK FALSE
