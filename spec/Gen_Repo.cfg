CONSTANTS
  Docs = {"a", "b", "c"}
  MaxOps = 4
  BackupKeepsOld = TRUE
SPECIFICATION GSpec
INVARIANT Emit
CHECK_DEADLOCK FALSE
