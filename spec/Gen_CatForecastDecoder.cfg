CONSTANTS
  MaxCat = 4
  MaxEv = 2
SPECIFICATION Spec
INVARIANT Emit
CHECK_DEADLOCK FALSE
