------------------------------- MODULE PermutePoisson -------------------------------
\* C20 (gridded part) - re-ordering the cells of a region together with the forecast's rates leaves every statistic
\* unchanged.  A statistic is an XR sum; two sums are the same number when they hold the same bag of terms.
\* Permute swaps two adjacent cells (rows) of the rate-id matrix and of the observed count matrix consistently.
\* (Re-ordering the observed EVENTS does not change the count matrix at all: Gridding.tla, OrderIrrelevant.)
EXTENDS PoissonLL

Count2(s, x) == Cardinality({i \in 1..Len(s) : s[i] = x})
SameBag(a, b) == Len(a) = Len(b) /\ \A i \in 1..Len(a) : Count2(a, a[i]) = Count2(b, a[i])
\* rate sums are bags of ids as well: compare nodes up to the order inside ids / ids2
Canon(n) == [op |-> n.op, cn |-> n.cn, cd |-> n.cd, n |-> n.n,
             ids |-> {<<x, Count2(n.ids, x)>> : x \in {n.ids[i] : i \in 1..Len(n.ids)}},
             ids2 |-> {<<x, Count2(n.ids2, x)>> : x \in {n.ids2[i] : i \in 1..Len(n.ids2)}},
             kids |-> [i \in 1..Len(n.kids) |->
                          [op |-> n.kids[i].op, cn |-> n.kids[i].cn, cd |-> n.kids[i].cd, n |-> n.kids[i].n,
                           ids |-> {<<x, Count2(n.kids[i].ids, x)>> : x \in {n.kids[i].ids[j] : j \in 1..Len(n.kids[i].ids)}},
                           ids2 |-> {<<x, Count2(n.kids[i].ids2, x)>> : x \in {n.kids[i].ids2[j] : j \in 1..Len(n.kids[i].ids2)}}]]]
SameStat(a, b) == \/ (a.op = "neginf" /\ b.op = "neginf")
                  \/ /\ a.op = b.op /\ a.op # "neginf"
                     /\ SameBag([i \in 1..Len(a.kids) |-> Canon(a.kids[i])], [i \in 1..Len(b.kids) |-> Canon(b.kids[i])])
SwapRows(m, r) == [c \in 1..Len(m) |-> IF c = r THEN m[r + 1] ELSE IF c = r + 1 THEN m[r] ELSE m[c]]

PNext == \E r \in 1..(NC - 1) : rid' = SwapRows(rid, r) /\ w' = SwapRows(w, r) /\ UNCHANGED kind
PSpec == Init /\ [][PNext]_vars
StatInvariant == [][SameStat(Stat(kind, rid', w'), Stat(kind, rid, w))]_vars
=====================================================================================
