SPECIFICATION TraceSpec
INVARIANT AcceptInv
CHECK_DEADLOCK FALSE
