------------------------------- MODULE TracePyCSEP -------------------------------
\* code -> spec for X04.  A trace is one session executed on the real objects:
\*   init   the starting catalog (event identities), steps = sequence of [op, cat, region, last]
\*   cat    the identities the real catalog holds after the call, in order (0 = an event that is none of the six)
\*   region whether a region is bound afterwards;  last = [k, v] the projected outcome of the call
\* One initial state per trace; each step must be the specification's step for that operation with exactly the
\* recorded projection.  PROG reports the first step the specification cannot explain.
EXTENDS PyCSEP, Json, IOUtils
VARIABLES tid, l
Traces == JsonDeserialize(IOEnv.TRACE_FILE)
T == Traces[tid]
TraceInit == /\ tid \in 1..Len(Traces)
             /\ cat = T.init /\ init0 = T.init
             /\ region = FALSE /\ doc = NoDoc /\ file = NoFile /\ last = None
             /\ preds = {} /\ docPreds = {} /\ filePreds = {} /\ hist = <<>> /\ fscale = 2
             /\ l = 1
Step == /\ l <= Len(T.steps)
        /\ LET r == T.steps[l] IN
             /\ Do(r.op)
             /\ cat' = r.cat /\ region' = r.region /\ fscale' = r.fscale
             /\ last'.k = r.last.k /\ last'.v = r.last.v
        /\ l' = l + 1 /\ UNCHANGED tid
TraceSpec == TraceInit /\ [][Step]_<<vars, tid, l>>
AcceptInv == (l = Len(T.steps) + 1) => PrintT(<<"ACCEPT", tid>>)
Prog == PrintT(<<"PROG", tid, l>>)
===================================================================================
