CONSTANTS
  K = 3
  MaxEv = 2
  SortedOnly = FALSE
  EmptyReturnsEarly = TRUE
SPECIFICATION Spec
INVARIANT Emit
CHECK_DEADLOCK FALSE
