CONSTANTS
  NCell = 3
  NBin = 2
  MaxCat = 2
  MaxEv = 2
SPECIFICATION Spec
INVARIANT NeverSilentInfinity
INVARIANT UnsampledFlagged
INVARIANT EmptyObservationSignalled
INVARIANT EmptyCatalogsSkipped
INVARIANT RatesAreMeanCounts
CHECK_DEADLOCK FALSE
