CONSTANTS
  A = 6
  MaxN = 7
SPECIFICATION Spec
INVARIANT Emit
CHECK_DEADLOCK FALSE
