----------------------------------- MODULE XR -----------------------------------
\* D3 - formal exact-real expressions.  TLC cannot evaluate ln / lgamma / exp; a specification
\* instead computes WHICH expression a statistic is, as data of one uniform record shape
\*     [op, cn, cd, n, ids, ids2, kids]
\* The value of a node is  (cn/cd) * base  where base depends on op:
\*   "one"        1
\*   "ratesum"    (sum of rate(i) for i in ids) / (sum of rate(i) for i in ids2, or 1 if ids2 = <<>>)
\*                rates are opaque identifiers i >= 1 (id 0 = a zero rate and is never listed)
\*   "ln" "log10" "expneg" "ln1mexpneg" "sq" "sqrt"   function of the single kid   (expneg x = exp(-x),
\*                ln1mexpneg x = ln(1 - exp(-x)))
\*   "lnfact"     ln(n!)                 "lngamma" ln Gamma(kid)
\*   "sum"        sum of kids            "prod" product of kids          "div" kids[1] / kids[2]
\*   "neginf"     minus infinity         "nan" undefined                  "none" absent
\* The harness (vh/xr.py) interprets nodes with exact rationals for rates and 50-digit arithmetic.
EXTENDS Integers, Sequences

Node(op, cn, cd, n, ids, ids2, kids) ==
    [op |-> op, cn |-> cn, cd |-> cd, n |-> n, ids |-> ids, ids2 |-> ids2, kids |-> kids]

One == Node("one", 1, 1, 0, <<>>, <<>>, <<>>)
Q(a, b) == Node("one", a, b, 0, <<>>, <<>>, <<>>)
RateSum(ids, ids2) == Node("ratesum", 1, 1, 0, ids, ids2, <<>>)
Fn(op, x) == Node(op, 1, 1, 0, <<>>, <<>>, <<x>>)
Ln(x) == Fn("ln", x)
ExpNeg(x) == Fn("expneg", x)
Ln1mExpNeg(x) == Fn("ln1mexpneg", x)
Sq(x) == Fn("sq", x)
Sqrt(x) == Fn("sqrt", x)
Abs(x) == Fn("abs", x)
Div(x, y) == Node("div", 1, 1, 0, <<>>, <<>>, <<x, y>>)
Prod(kids) == Node("prod", 1, 1, 0, <<>>, <<>>, kids)
\* quantile of Student's t with m degrees of freedom at probability a/b
TPpf(a, b, m) == Node("t_ppf", a, b, m, <<>>, <<>>, <<>>)
\* 2 * (upper tail of the standard normal at |x|)
TwoSidedNormal(x) == Fn("two_sided_normal", x)
LnFact(m) == Node("lnfact", 1, 1, m, <<>>, <<>>, <<>>)
Sum(kids) == Node("sum", 1, 1, 0, <<>>, <<>>, kids)
NegInf == Node("neginf", 1, 1, 0, <<>>, <<>>, <<>>)
NaN == Node("nan", 1, 1, 0, <<>>, <<>>, <<>>)
Absent == Node("none", 1, 1, 0, <<>>, <<>>, <<>>)

\* multiply a node by the rational a/b (no normalisation of the fraction: the harness reduces)
Scale(x, a, b) == [x EXCEPT !.cn = @ * a, !.cd = @ * b]
Neg(x) == Scale(x, -1, 1)
=================================================================================
