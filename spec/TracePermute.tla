-------------------------------- MODULE TracePermute --------------------------------
\* code -> spec for C20: a record compares the result of one public test on an input X and on a re-ordered pi(X).
\*   perm     "events" (observed catalog), "catalogs" (synthetic catalogs), "cells" (region cells with the forecast rates)
\*   stat, quant, dist   1 iff observed statistic / analytic quantiles / simulation-free test distribution (as a sorted
\*            multiset) agree to rounding (established by the harness; 1 when not applicable)
\*   bits     1 iff bit-for-bit identity is required (fixed seed, observed events re-ordered)
\*   a, b     the two results as sequences of IEEE-754 hexadecimal strings (statistic, quantile(s), distribution)
EXTENDS Integers, Sequences, TLC, Json, IOUtils
VARIABLES tid
Traces == JsonDeserialize(IOEnv.TRACE_FILE)
T == Traces[tid]
TraceInit == tid \in 1..Len(Traces)
TraceSpec == TraceInit /\ [][UNCHANGED tid]_tid
Invariant == /\ T.stat = 1 /\ T.quant = 1 /\ T.dist = 1
             /\ (T.bits = 1 => T.a = T.b)
AcceptInv == Invariant => PrintT(<<"ACCEPT", tid>>)
=====================================================================================
