CONSTANTS
  Docs = {"a", "b", "c"}
  MaxOps = 5
  BackupKeepsOld = FALSE
SPECIFICATION Spec
INVARIANT LoadReturnsLastSaved
INVARIANT LoadFailsOnlyWhenEmpty
INVARIANT BackupsAreOverwrittenDocs
PROPERTY BackupsOnlyGrow
CHECK_DEADLOCK FALSE
