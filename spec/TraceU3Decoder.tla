------------------------------ MODULE TraceU3Decoder ------------------------------
\* code -> spec for X02.  A trace is [cats, decoded]: the catalogs a file was written from and what the library's loader
\* returned for it, projected to the same shape (per catalog: version-independent list of events, an event = its tokens in
\* field order).  TLC runs the specification's decoder over Enc(cats) and accepts iff it ends with exactly `decoded`.
EXTENDS U3Decoder, Json, IOUtils
VARIABLES tid
Traces == JsonDeserialize(IOEnv.TRACE_FILE)
T == Traces[tid]
TraceInit == /\ tid \in 1..Len(Traces)
             /\ cats = T.cats
             /\ pos = 1 /\ left = -1 /\ out = <<>> /\ cur = [ver |-> 0, need |-> 0, evs |-> <<>>] /\ phase = "count"
TraceNext == (ReadCount \/ ReadHeader \/ ReadEvents) /\ UNCHANGED tid
TraceSpec == TraceInit /\ [][TraceNext]_<<vars, tid>>
Evs(cs) == [i \in 1..Len(cs) |-> cs[i].evs]
AcceptInv == (phase = "done" /\ Evs(out) = T.decoded) => PrintT(<<"ACCEPT", tid>>)
Prog == PrintT(<<"PROG", tid, Len(out) + 1>>)
===================================================================================
