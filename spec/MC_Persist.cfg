CONSTANTS
  MaxHist = 3
  Cats <- CatsQ
SPECIFICATION Spec
INVARIANT EventsFromSource
PROPERTY RoundTripIdentity
PROPERTY AppendConcatenates
PROPERTY IdSurvives
CHECK_DEADLOCK FALSE
