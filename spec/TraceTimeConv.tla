------------------------------- MODULE TraceTimeConv -------------------------------
\* code -> spec for C15.  A trace is a chunk of records sorted by time; each record is the tuple
\*   <<day, ms,  Y, M, D, h, mi, s, msec,  bDay, bMs,  sDay, sMs,  yDay, yMs,  us, uDay, uMs,  rank>>
\*   (day, ms)        the instant fed in (integer epoch milliseconds, split by the harness with integer arithmetic)
\*   Y..msec          civil fields of epoch_time_to_utc_datetime (msec = -1 if the microsecond field was not a whole ms)
\*   (bDay, bMs)      datetime_to_utc_epoch of that datetime
\*   (sDay, sMs)      strptime_to_utc_epoch of the formatted time string
\*   (yDay, yMs)      decimal_year_to_utc_epoch(decimal_year(datetime))
\*   us, (uDay, uMs)  datetime_to_utc_epoch of the datetime advanced by us microseconds (0 <= us < 1000)
\*   rank             rank of decimal_year(datetime) among the chunk's values (exact float order)
EXTENDS TimeConv, Json, IOUtils

VARIABLES tid, done
Traces == JsonDeserialize(IOEnv.TRACE_FILE)
T == Traces[tid]

RecOk(r) ==
    LET x == <<r[1], r[2]>> IN
    /\ <<r[3], r[4], r[5], r[6], r[7], r[8], r[9]>> = ToCivil(x)           \* epoch -> datetime
    /\ <<r[10], r[11]>> = x                                                 \* ... and back: the same integer
    /\ <<r[12], r[13]>> = x                                                 \* parsing the formatted string agrees
    /\ WithinOneMs(<<r[14], r[15]>>, x)                                     \* decimal-year inverse within a millisecond
    /\ (r[16] = 0 => <<r[17], r[18]>> = x)
    /\ (r[16] > 0 => (<<r[17], r[18]>> = x \/ <<r[17], r[18]>> = Plus(x, 1)))  \* finer datetimes land within one ms
PairOk(a, b) ==
    LET x == <<a[1], a[2]>>
        y == <<b[1], b[2]>> IN
    \* strictly later instant => strictly larger decimal year; equal instants => equal
    /\ Before(x, y) => a[19] < b[19]
    /\ x = y => a[19] = b[19]
    /\ ~Before(y, x)                                                         \* the chunk is sorted
Bad == {i \in 1..Len(T) : ~RecOk(T[i]) \/ (i > 1 /\ ~PairOk(T[i - 1], T[i]))}
TraceInit == tid \in 1..Len(Traces) /\ done = FALSE /\ t = <<0, 0>>
TraceNext == ~done /\ Bad = {} /\ done' = TRUE /\ UNCHANGED <<tid, t>>
TraceSpec == TraceInit /\ [][TraceNext]_<<tid, done, t>>
AcceptInv == IF done THEN PrintT(<<"ACCEPT", tid>>)
             ELSE (Bad # {} => PrintT(<<"PROG", tid, CHOOSE i \in Bad : \A j \in Bad : i <= j>>))
====================================================================================
