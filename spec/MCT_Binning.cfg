CONSTANTS
  MaxN = 4
  H = 1000
  KMax = 400
SPECIFICATION Spec
INVARIANT HalfOpen
INVARIANT BelowIsOut
INVARIANT OpenTopAbsorbs
INVARIANT EdgeOpensItsBin
INVARIANT ClosedTopIsOut
INVARIANT NeverBelow
INVARIANT LiftOnlyInBand
PROPERTY Monotone
CHECK_DEADLOCK FALSE
