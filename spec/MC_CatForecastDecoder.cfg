CONSTANTS
  MaxCat = 4
  MaxEv = 2
SPECIFICATION Spec
INVARIANT DecodeCorrect
INVARIANT IdsContiguous
INVARIANT PrefixOfTruth
INVARIANT NeverRejectsWellFormed
INVARIANT RejectsDecreasing
PROPERTY YieldedIsFinal
CHECK_DEADLOCK FALSE
