CONSTANTS
  Names = {"n1", "n2", "n3"}
  Versions = {1, 2}
  MaxHist = 3
  Starts <- StartsQ
  DictCopyAliases = TRUE
SPECIFICATION Spec
INVARIANT Emit
CHECK_DEADLOCK FALSE
