------------------------------- MODULE TraceLoaders -------------------------------
\* code -> spec for X09: a trace is a list of [call, out] records, each the projection of one real call and of what it
\* returned or raised.  A record is accepted when the outcome is the one the tables give for that call.
EXTENDS Loaders, Json, IOUtils
VARIABLES tid
Traces == JsonDeserialize(IOEnv.TRACE_FILE)
T == Traces[tid]
TraceInit == tid \in 1..Len(Traces) /\ call = T.call /\ out = Pending
Step == Perform /\ out' = T.out /\ UNCHANGED tid
TraceSpec == TraceInit /\ [][Step]_<<vars, tid>>
AcceptInv == Done => PrintT(<<"ACCEPT", tid>>)
Prog == PrintT(<<"PROG", tid, IF Done THEN 2 ELSE 1>>)
===================================================================================
