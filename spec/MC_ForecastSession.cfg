CONSTANTS
  MaxHist = 3
  Windows <- WindowsQ
  Dates <- DatesQ
  ScaleAbsolute = TRUE
  AddOneDay = TRUE
SPECIFICATION Spec
INVARIANT TypeOK
INVARIANT FractionInUnit
INVARIANT FractionMonotone
INVARIANT LastDayIsWhole
INVARIANT ReportsCurrentScale
PROPERTY ObserversArePure
PROPERTY Isolation
PROPERTY ScaleSets
CHECK_DEADLOCK FALSE
