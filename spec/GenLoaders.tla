-------------------------------- MODULE GenLoaders --------------------------------
\* spec -> code for X09: every call of the explored domain with the outcome the tables give.
EXTENDS Loaders, Json
Emit == Done => PrintT(<<"CASE", ToJson([call |-> call, out |-> out])>>)
===================================================================================
