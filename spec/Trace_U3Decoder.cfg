CONSTANTS
  MaxCat = 100
  MaxEv = 100
  Versions = {1, 2, 3}
  Tok = {0, 1}
  HeaderFieldsV3 = 13
SPECIFICATION TraceSpec
INVARIANT AcceptInv
INVARIANT Prog
CHECK_DEADLOCK FALSE
