--------------------------------- MODULE GenNonNanScan ---------------------------------
\* spec -> code for X14: every finished scan with the two indices the specification decides.
EXTENDS NonNanScan, Json
Emit == phase = "done" => PrintT(<<"CASE", ToJson([row |-> row, first |-> first, last |-> last])>>)
=======================================================================================
