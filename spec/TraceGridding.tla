------------------------------ MODULE TraceGridding ------------------------------
\* code -> spec for C03: one trace = one catalog gridded on one real region.
\*   events[i] = <<c, k>>  exact cell (0 = outside) and magnitude bin (0 = below minimum) of event i
\*   smc = [rej, e]  e = sparse non-zero entries <<c, k, n>> of spatial_magnitude_counts (rej = 1: ValueError)
\*   sc  = [rej, e]  sparse <<c, n>> of spatial_counts        occ = [rej, e] sparse <<c, 1>> of the occupancy map
\*   mc  = dense magnitude histogram                           filt = events kept by each bin's magnitude-range filter
EXTENDS Integers, Sequences, FiniteSets, TLC, Json, IOUtils

VARIABLES tid, done
Traces == JsonDeserialize(IOEnv.TRACE_FILE)
T == Traces[tid]
E == T.events

CountCK(c, k) == Cardinality({i \in 1..Len(E) : E[i][1] = c /\ E[i][2] = k})
CountC(c) == Cardinality({i \in 1..Len(E) : E[i][1] = c})
CountK(k) == Cardinality({i \in 1..Len(E) : E[i][2] = k})
AnyOutside == \E i \in 1..Len(E) : E[i][1] = 0
AnyBelow == \E i \in 1..Len(E) : E[i][2] = 0
Inside == Cardinality({i \in 1..Len(E) : E[i][1] # 0})
RECURSIVE Total(_, _, _)
Total(s, j, i) == IF i = 0 THEN 0 ELSE s[i][j] + Total(s, j, i - 1)
NoDup(s, w) == \A a, b \in 1..Len(s) : (a # b) => (\E j \in 1..w : s[a][j] # s[b][j])

SMCOk == IF AnyOutside \/ AnyBelow THEN T.smc.rej = 1
         ELSE /\ T.smc.rej = 0
              /\ \A i \in 1..Len(T.smc.e) : T.smc.e[i][3] = CountCK(T.smc.e[i][1], T.smc.e[i][2]) /\ T.smc.e[i][3] > 0
              /\ NoDup(T.smc.e, 2)
              /\ Total(T.smc.e, 3, Len(T.smc.e)) = Len(E)
SCOk == \/ (AnyOutside /\ T.sc.rej = 1)
        \/ /\ T.sc.rej = 0
           /\ \A i \in 1..Len(T.sc.e) : T.sc.e[i][2] = CountC(T.sc.e[i][1]) /\ T.sc.e[i][1] # 0
           /\ NoDup(T.sc.e, 1)
           /\ Total(T.sc.e, 2, Len(T.sc.e)) = Inside
OccOk == \/ (AnyOutside /\ T.occ.rej = 1)
         \/ /\ T.occ.rej = 0
            /\ {T.occ.e[i][1] : i \in 1..Len(T.occ.e)} = {E[i][1] : i \in 1..Len(E)} \ {0}
            /\ \A i \in 1..Len(T.occ.e) : T.occ.e[i][2] = 1
MCOk == /\ T.mc.rej = 0
        /\ \A k \in 1..Len(T.mc.e) : T.mc.e[k] = CountK(k)
FiltOk == \A k \in 1..Len(T.filt) : T.filt[k] = CountK(k)

Parts == <<SMCOk, SCOk, OccOk, MCOk, FiltOk>>
Bad == {i \in 1..5 : ~Parts[i]}
TraceInit == tid \in 1..Len(Traces) /\ done = FALSE
TraceNext == ~done /\ Bad = {} /\ done' = TRUE /\ UNCHANGED tid
TraceSpec == TraceInit /\ [][TraceNext]_<<tid, done>>
AcceptInv == IF done THEN PrintT(<<"ACCEPT", tid>>)
             ELSE (Bad # {} => PrintT(<<"PROG", tid, CHOOSE i \in Bad : \A j \in Bad : i <= j>>))
==================================================================================
