CONSTANTS
  NCell = 3
  NBin = 2
  MaxCat = 2
  MaxEv = 2
SPECIFICATION Spec
INVARIANT Emit
CHECK_DEADLOCK FALSE
