CONSTANTS
  MaxHist = 100
  Cats <- CatsQ
SPECIFICATION TraceSpec
INVARIANT AcceptInv
INVARIANT Prog
CHECK_DEADLOCK FALSE
