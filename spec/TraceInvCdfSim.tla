------------------------------ MODULE TraceInvCdfSim ------------------------------
\* code -> spec for C06.  A trace is one simulated catalog produced by the real code:
\*   kind   "poisson" (N draws accumulated) | "binary" (rejection loop until target active bins)
\*   n      number of bins;  zero[k] = 1 iff bin k has zero rate
\*   draws  sequence of [k, near, lo, hi, u]: the exact (rational-arithmetic) bin of the uniform number,
\*          whether it lies within rounding of a cumulative boundary and the lowest / highest positive-rate
\*          bin the rounding could select (every positive-rate bin in lo..hi is admissible); u = abstract position when the rates are integer weights
\*          (wt given), else -1
\*   result the count array the code returned, target the prescribed number
\* TLC replays the draws one by one, choosing a bin in the admissible set, and accepts the trace when
\* some choice reproduces the returned array (and, for the rejection loop, stops exactly when the code did).
EXTENDS InvCdfSim, Json, IOUtils

VARIABLES tid, l
Traces == JsonDeserialize(IOEnv.TRACE_FILE)
T == Traces[tid]

AllowedT(d) == IF d.near = 1 THEN {b \in d.lo..d.hi : T.zero[b] = 0} ELSE {d.k}

\* two further record kinds ride on the same batch:
\*   kind "quantile": sims = ranks of the simulated statistics, obs = rank of the observed one,
\*                    num = numerator of the reported quantile score (over Len(sims))
\*   kind "det":      runs = digests of repeated runs with the same seed (must all be equal)
QuantileOk == T.num = Cardinality({i \in 1..Len(T.sims) : T.sims[i] <= T.obs}) /\ T.num \in 0..Len(T.sims)
DetOk == \A i \in 1..Len(T.runs) : T.runs[i] = T.runs[1]

TraceInit ==
    /\ tid \in 1..Len(Traces)
    /\ wt = T.wt /\ kindv = T.kind /\ target = T.target
    /\ drawn = 0 /\ counts = [k \in 1..T.n |-> 0] /\ active = {} /\ lastu = 0
    /\ l = 1

\* projection and specification agree whenever the rates are integer weights
Bound(d) == d.u >= 0 => (AllowedT(d) = Allowed(d.u))

Step ==
    /\ l <= Len(T.draws)
    /\ LET d == T.draws[l] IN
       /\ Bound(d)
       /\ \E loc \in AllowedT(d) :
            /\ T.zero[loc] = 0
            /\ IF kindv = "poisson"
               THEN /\ counts' = [counts EXCEPT ![loc] = @ + 1]
                    /\ active' = active
               ELSE /\ Cardinality(active) < target          \* the loop would already have stopped otherwise
                    /\ active' = active \cup {loc}
                    /\ counts' = [counts EXCEPT ![loc] = 1]
            /\ \A k \in 1..T.n : counts'[k] <= T.result[k]    \* never overshoot what the code returned
    /\ l' = l + 1 /\ drawn' = drawn + 1
    /\ UNCHANGED <<wt, kindv, target, lastu, tid>>

TraceSpec == TraceInit /\ [][Step]_<<vars, tid, l>>

RECURSIVE SumR(_)
SumR(k) == IF k = 0 THEN 0 ELSE T.result[k] + SumR(k - 1)
Accepted ==
  IF T.kind = "quantile" THEN QuantileOk
  ELSE IF T.kind = "det" THEN DetOk
  ELSE
    /\ l = Len(T.draws) + 1
    /\ counts = [k \in 1..T.n |-> T.result[k]]
    /\ SumR(T.n) = target                                                    \* counts conserved
    /\ (kindv = "binary") => (Cardinality(active) = target /\ \A k \in 1..T.n : T.result[k] \in {0, 1})
AcceptInv == Accepted => PrintT(<<"ACCEPT", tid>>)
Prog == PrintT(<<"PROG", tid, l>>)
===================================================================================
