----------------------------------- MODULE KaganI1 -----------------------------------
\* X11 - the information score I_1 of Kagan (2009) for gridded forecasts (csep.utils.stats.get_Kagan_I1_score):
\*
\*     I_1 = (1/N) * sum over cells i with positive rate of  n_i * log2( (r_i / a_i) / (R / A) )
\*
\* n_i events and rate r_i in cell i of area a_i, R and A the totals, N the number of ALL observed events.  Named behaviour of the
\* code kept as it is: events in zero-rate cells add nothing to the sum but count in N (the score stays finite); with no
\* observed event the score is 0/0 (not a number).
\*
\* A case is a row of cells [d, a, n]: rate DENSITY d (so r = d * a), area class a, event count n.  What the specification
\* decides is the case analysis (which cells contribute, N, defined or not); the logarithms are evaluated by the harness from
\* the exact ratios.  TLC checks the algebra the docstring advertises on exact rationals: insensitive to the overall rate,
\* insensitive to the grid (splitting a cell into two halves with the events shared out changes nothing), zero for a forecast
\* of uniform density, and - for a single contributing cell - positive exactly when that cell is denser than average.
EXTENDS Integers, Sequences, FiniteSets, TLC, SequencesExt, FiniteSetsExt

CONSTANTS MaxCells, Dens, Areas, MaxN,
          ZeroRateCounts      \* TRUE: events in zero-rate cells count in N (the code); FALSE re-creates a slip of the model: must be refuted

VARIABLES cells, done
vars == <<cells, done>>

Cell == [d : Dens, a : Areas, n : 0..MaxN]
Rate(c) == c.d * c.a
R(s) == FoldSeq(LAMBDA c, acc : acc + Rate(c), 0, s)
A(s) == FoldSeq(LAMBDA c, acc : acc + c.a, 0, s)
NAll(s) == FoldSeq(LAMBDA c, acc : acc + c.n, 0, s)
NPos(s) == FoldSeq(LAMBDA c, acc : acc + (IF c.d > 0 THEN c.n ELSE 0), 0, s)
N(s) == IF ZeroRateCounts THEN NAll(s) ELSE NPos(s)
Contrib(s) == {i \in 1..Len(s) : s[i].d > 0 /\ s[i].n > 0}
\* the ratio of cell i as a pair <<num, den>>: (d_i) / (R / A) = d_i * A / R
Ratio(s, i) == <<s[i].d * A(s), R(s)>>
Defined(s) == N(s) > 0 /\ R(s) > 0
\* the score is a bag of (ratio, weight) terms over N: equal bags and equal N give equal scores whatever the logarithm.
\* SumN(s, r) = number of events of s in contributing cells whose ratio equals r (compared by cross multiplication)
SumN(s, r) == FoldSet(LAMBDA j, acc : acc + s[j].n, 0, {j \in Contrib(s) : Ratio(s, j)[1] * r[2] = r[1] * Ratio(s, j)[2]})

Init == cells = <<>> /\ done = FALSE
AddCell == ~done /\ Len(cells) < MaxCells /\ \E c \in Cell : cells' = Append(cells, c) /\ done' = FALSE
Finish == ~done /\ Len(cells) >= 1 /\ done' = TRUE /\ cells' = cells
Next == AddCell \/ Finish
Spec == Init /\ [][Next]_vars

\* ------------------------------------------------------------------ transformations
Scaled(s, k) == [i \in 1..Len(s) |-> [s[i] EXCEPT !.d = k * s[i].d]]
\* cell 1 (area 2) split into two halves of area 1 with the same density; its events shared out as n = n1 + n2
SplitFirst(s, n1) == <<[d |-> s[1].d, a |-> 1, n |-> n1], [d |-> s[1].d, a |-> 1, n |-> s[1].n - n1]>> \o Tail(s)
\* normalised terms: ratios as reduced cross-products are compared by cross multiplication
SameTerms(s, t) == /\ N(s) = N(t)
                   /\ \A i \in Contrib(s) : SumN(s, Ratio(s, i)) = SumN(t, Ratio(s, i))
                   /\ \A j \in Contrib(t) : SumN(t, Ratio(t, j)) = SumN(s, Ratio(t, j))

\* ------------------------------------------------------------------ properties (checked when a case is complete)
RateScaleInvariant == (done /\ Defined(cells)) => SameTerms(cells, Scaled(cells, 3))
GridInsensitive == (done /\ Defined(cells) /\ cells[1].a = 2) => \A n1 \in 0..cells[1].n : SameTerms(cells, SplitFirst(cells, n1))
UniformIsZero == (done /\ Defined(cells) /\ \A i, j \in 1..Len(cells) : cells[i].d = cells[j].d) =>
                     \A i \in Contrib(cells) : Ratio(cells, i)[1] = Ratio(cells, i)[2]
SingleCellSign == (done /\ Defined(cells) /\ Cardinality(Contrib(cells)) = 1 /\ NAll(cells) = NPos(cells)) =>
                     LET i == CHOOSE x \in Contrib(cells) : TRUE IN
                         (Ratio(cells, i)[1] > Ratio(cells, i)[2]) <=> (cells[i].d * A(cells) > R(cells))
\* events in zero-rate cells lower the magnitude of the score but never make it undefined
ZeroRateEventsKeepItFinite == (done /\ R(cells) > 0 /\ NAll(cells) > 0) => Defined(cells)
======================================================================================
