CONSTANTS
  PosMin <- NegBig
  PosMax = 100000
  MaxBatch = 100000
  MaxAdds = 100000
  CopiesOldCounts = TRUE
SPECIFICATION TraceSpec
INVARIANT AcceptInv
INVARIANT Prog
CHECK_DEADLOCK FALSE
