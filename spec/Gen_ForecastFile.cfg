CONSTANTS
  NX = 3
  NY = 2
  MaxM = 3
SPECIFICATION Spec
INVARIANT Emit
CHECK_DEADLOCK FALSE
