----------------------- MODULE GenCatForecastDecoder -----------------------
(* spec -> code: every terminal state of the bounded decoder model is printed as one JSON case *)
EXTENDS CatForecastDecoder, Json

Emit == Terminal =>
    PrintT(<<"CASE", ToJson([file |-> file, truth |-> truth, mode |-> mode, status |-> status,
                              nout |-> Len(out)])>>)
=============================================================================
