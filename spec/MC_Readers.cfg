SPECIFICATION Spec
INVARIANT RolloverCorrect
INVARIANT OffsetCorrect
INVARIANT ResolutionCorrect
INVARIANT DateValid
CHECK_DEADLOCK FALSE
