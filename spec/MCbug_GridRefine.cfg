CONSTANTS
  U = 8
  Lattice <- LatticeDef
  Factors <- FactorsDef
  HalfStep = FALSE
SPECIFICATION Spec
INVARIANT Tiling
CHECK_DEADLOCK FALSE
