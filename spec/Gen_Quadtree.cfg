CONSTANTS
  Z = 2
  MaxEv = 2
  MaxThr = 2
  EvPoints <- EvPointsQ
SPECIFICATION Spec
INVARIANT Emit
CHECK_DEADLOCK FALSE
