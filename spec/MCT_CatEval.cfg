CONSTANTS
  NCell = 2
  NBin = 2
  MaxCat = 3
  MaxEv = 2
SPECIFICATION Spec
INVARIANT NeverSilentInfinity
INVARIANT UnsampledFlagged
INVARIANT EmptyObservationSignalled
INVARIANT EmptyCatalogsSkipped
INVARIANT RatesAreMeanCounts
CHECK_DEADLOCK FALSE
