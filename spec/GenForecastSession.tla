---------------------------- MODULE GenForecastSession ----------------------------
\* spec -> code for X08: one case per complete session (window + operation sequence) with, for every call, what the
\* specification says the objects show afterwards (outs).  Exhaustive for short sessions, -simulate for long ones; the
\* harness executes each on real GriddedForecast objects and compares after every call.
EXTENDS ForecastSession, Json
Emit == (Len(hist) = MaxHist) => PrintT(<<"CASE", ToJson([win |-> win, hist |-> hist, outs |-> outs])>>)
===================================================================================
