-------------------------------- MODULE GenEcdf --------------------------------
EXTENDS Ecdf, Json
\* one case per multiset: the expected numerators for every query
Emit == (v = 1) =>
    PrintT(<<"CASE", ToJson([cnt |-> cnt, n |-> N(cnt),
                              ge |-> [q \in 1..(2 * A + 1) |-> CountGE(cnt, q)],
                              le |-> [q \in 1..(2 * A + 1) |-> CountLE(cnt, q)]])>>)
=================================================================================
