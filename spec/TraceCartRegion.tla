----------------------------- MODULE TraceCartRegion -----------------------------
\* code -> spec for C01: one trace = one real region, summarised by its cell map (computed by the
\* harness from the constructor inputs, never from the region object), plus the distinct
\* observations obs[i] = <<px, py, idx, masked, kept, cnt>> made on it:
\*   idx    get_index_of result (-1 = ValueError)      masked  get_masked (1 = outside)
\*   kept   filter_spatial kept the event (1/0)        cnt     cell whose spatial count it raised (-1 = rejected)
EXTENDS Grid2D, TLC, Json, IOUtils

VARIABLES tid, done
Traces == JsonDeserialize(IOEnv.TRACE_FILE)
T == Traces[tid]

Explained(o) ==
    LET A == SpecLookup(T.cmap, T.nx, T.ny, o[1], o[2]) IN
    /\ o[3] \in A
    /\ o[6] \in A
    /\ (o[4] = 1) => (Outside \in A)
    /\ (o[4] = 0) => (A # {Outside})
    /\ o[5] = 1 - o[4]
    \* outside a tolerance band the four observations are one and the same partition
    /\ (C(o[1]) # 5 /\ C(o[2]) # 5) => (o[3] = o[6] /\ ((o[4] = 1) <=> (o[3] = Outside)))

Bad == {i \in 1..Len(T.obs) : ~Explained(T.obs[i])}
TraceInit == tid \in 1..Len(Traces) /\ done = FALSE
TraceNext == ~done /\ Bad = {} /\ done' = TRUE /\ UNCHANGED tid
TraceSpec == TraceInit /\ [][TraceNext]_<<tid, done>>
AcceptInv == IF done THEN PrintT(<<"ACCEPT", tid>>)
             ELSE (Bad # {} => PrintT(<<"PROG", tid, CHOOSE i \in Bad : \A j \in Bad : i <= j>>))
==================================================================================
