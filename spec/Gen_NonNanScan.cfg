CONSTANTS
  MaxLen = 5
  Vals = {"nan", "zero", "one", "inf"}
  ZeroIsValue = TRUE
SPECIFICATION Spec
INVARIANT Emit
CHECK_DEADLOCK FALSE
