------------------------------- MODULE GenU3Decoder -------------------------------
\* spec -> code for X02: every file of the bounded model (as the list of catalogs it encodes)
EXTENDS U3Decoder, Json
Emit == (phase = "build" /\ Len(cats) > 0) => PrintT(<<"CASE", ToJson([cats |-> cats])>>)
Constr == phase = "build"
===================================================================================
