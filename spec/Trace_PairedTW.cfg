CONSTANTS
  NBins = 24
  MaxEv = 0
  AlphaN = 1
  AlphaD = 20
SPECIFICATION TraceSpec
INVARIANT Expect
CHECK_DEADLOCK FALSE
