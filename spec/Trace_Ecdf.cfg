CONSTANTS
  A = 40
  MaxN = 0
SPECIFICATION TraceSpec
INVARIANT AcceptInv
CHECK_DEADLOCK FALSE
