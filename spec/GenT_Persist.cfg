CONSTANTS
  MaxHist = 4
  Cats <- CatsQ
SPECIFICATION GSpec
INVARIANT Emit
CHECK_DEADLOCK FALSE
