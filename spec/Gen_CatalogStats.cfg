CONSTANTS
  MaxHist = 2
  Inits <- InitsQ
  StrRefreshes = TRUE
SPECIFICATION Spec
INVARIANT Emit
CHECK_DEADLOCK FALSE
