-------------------------------- MODULE TraceCatEval --------------------------------
\* code -> spec for C10: a trace is one (catalog forecast, observed catalog) pair evaluated by the real tests;
\* rm / mll are the resampled magnitude histograms the two resampling tests drew (recorded by a harness-side wrapper on
\* numpy.random.choice).  TLC answers with what every test must return: status, presence, the XR of the observed
\* statistic and of every test-distribution entry.
EXTENDS CatEval, Json, IOUtils
VARIABLES tid
Traces == JsonDeserialize(IOEnv.TRACE_FILE)
T == Traces[tid]
TraceInit == tid \in 1..Len(Traces) /\ cats = T.cats /\ obs = T.obs
TraceSpec == TraceInit /\ [][UNCHANGED <<vars, tid>>]_<<vars, tid>>
Events(h) == SumF(h, NBin)
RMDist == LET hs == SelectSeq(T.rm, LAMBDA h : Events(h) > 0) IN [i \in 1..Len(hs) |-> MStat(hs[i], Events(hs[i]), Len(obs))]
MLLDist == [i \in 1..Len(T.mll) |-> MLLStat(T.mll[i], Events(T.mll[i]))]
Expect == PrintT(<<"EXPECT", ToJson([tid |-> tid, n |-> NTest, s |-> STest, pl |-> PLTest, m |-> MTest,
                                     rm |-> [RMObs EXCEPT !.dist = IF Len(obs) = 0 THEN <<>> ELSE RMDist],
                                     mll |-> [MLLObs EXCEPT !.dist = IF Len(obs) = 0 THEN <<>> ELSE MLLDist]])>>)
=====================================================================================
