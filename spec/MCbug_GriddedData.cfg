CONSTANTS
  Factors <- FactorSet
  DateFactors <- DateSet
  MaxHist = 4
  Cumulative = TRUE
SPECIFICATION Spec
INVARIANT ScaleAbsolute
INVARIANT MarginalsSumToTotal
INVARIANT ScaleLinear
CHECK_DEADLOCK FALSE
