CONSTANTS
  NCell = 3
  NBin = 2
  MaxCat = 1
  MaxEv = 0
SPECIFICATION TraceSpec
INVARIANT Expect
CHECK_DEADLOCK FALSE
