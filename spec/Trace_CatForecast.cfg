CONSTANTS
  NBins = 4
  MaxHist = 0
SPECIFICATION TraceSpec
INVARIANT AcceptInv
INVARIANT Prog
CHECK_DEADLOCK FALSE
