-------------------------------- MODULE RegionViews --------------------------------
\* X06 - the derived views of a Cartesian region (beyond the listed properties): the 2-D "cartesian" array of per-cell
\* data over the bounding box, the bounding box itself, cell midpoints and origins.  All of them are re-statements of the
\* cell map of CartRegion.tla; this module states how and TLC checks that they are mutually consistent for every region
\* configuration of the bounded model.
\*
\*   CartView(d)[j][i] = d[q] when the valid cell q sits at column i, row j of the bounding box, else "nan" (-1 here)
\*   (rows are latitudes from south to north, columns longitudes from west to east; data values are >= 0)
EXTENDS CartRegion

Data == [q \in 1..Len(polys) |-> q]                 \* a datum that identifies its cell
CartView(d) == [j \in 1..ny |-> [i \in 1..nx |-> IF BuiltMap[j][i] = -1 THEN -1 ELSE d[BuiltMap[j][i] + 1]]]
SpecView(d) == [j \in 1..ny |-> [i \in 1..nx |-> IF TrueMap[j][i] = -1 THEN -1 ELSE d[TrueMap[j][i] + 1]]]

\* the view built from the library's structures is the view the cell set prescribes
ViewIsCellMap == CartView(Data) = SpecView(Data)
\* every valid cell's datum appears exactly once, where the cell is; data of flagged-out cells appear nowhere
EachValidCellOnce == \A q \in 1..Len(polys) :
    LET places == {<<i, j>> \in (1..nx) \X (1..ny) : CartView(Data)[j][i] = q} IN
    IF Valid(q) THEN places = {<<polys[q][1] + 1, polys[q][2] + 1>>} ELSE places = {}
\* the box is tight: its first and last column and row each hold a cell (valid or flagged out)
BoxTight == /\ \E q \in 1..Len(polys) : polys[q][1] = 0
            /\ \E q \in 1..Len(polys) : polys[q][1] = nx - 1
            /\ \E q \in 1..Len(polys) : polys[q][2] = 0
            /\ \E q \in 1..Len(polys) : polys[q][2] = ny - 1
\* a cell's midpoint and its origin are looked up to that cell (when it is valid), to no cell otherwise
MidpointsAndOrigins == \A q \in 1..Len(polys) :
    LET i == polys[q][1]
        j == polys[q][2] IN
    /\ ImplLookup(BuiltMap, nx, ny, Mid(i), Mid(j), CloseSingle) = (IF Valid(q) THEN {q - 1} ELSE {-1})
    /\ ImplLookup(BuiltMap, nx, ny, i * S, j * S, CloseSingle) = (IF Valid(q) THEN {q - 1} ELSE {-1})
====================================================================================
