----------------------------- MODULE CatForecastAbs -----------------------------
\* C13 - property-level machine of a catalog forecast.
\*
\* A forecast is a configuration plus a sequence of synthetic catalogs; a catalog is a sequence
\* of events; an event is [u, b, m, s]: u its identity, b its space-magnitude bin, m whether it
\* passes the configured attribute filters, s whether it lies inside the spatial region.
\* The property speaks about what a client observes from complete operations:
\*   "iter"   a full iteration          -> the sequence of (filtered) catalogs
\*   "counts" get_event_counts()        -> event counts of a single pass
\*   "ncat"   the n_cat attribute       -> number of catalogs of a single pass
\*   "rates"  get_expected_rates()      -> per-bin mean of the catalogs' counts, same on every request
\*   "scounts"/"mcounts" spatial/magnitude marginals of those rates
\*   "eval"   a catalog-based test      -> (result not C13's business) internal passes must be stable
\* Each operation may make any number of complete internal passes; every pass must yield View.
EXTENDS Integers, Sequences, FiniteSets, TLC

CONSTANTS NBins,        \* number of space-magnitude bins (flattened)
          MaxHist       \* bound on the number of client operations (model checking only)

VARIABLES conf,         \* [src, filt, spat]  src in {"list","store","nostore"}
          cats,         \* the source catalogs
          hist,         \* client operations so far
          passes,       \* number of complete passes made so far (internal ones included)
          res           \* result of the last operation, uniform shape [k, v, n]

avars == <<conf, cats, hist, passes, res>>

Ops == {"iter", "counts", "ncat", "rates", "scounts", "mcounts", "eval"}
Srcs == {"list", "store", "nostore"}

Keep(c, e) == (c.filt => e.m) /\ (c.spat => e.s)
FilterCat(c, cat) == SelectSeq(cat, LAMBDA e : Keep(c, e))
View(c, cs) == [i \in 1..Len(cs) |-> FilterCat(c, cs[i])]
Ids(cat) == [j \in 1..Len(cat) |-> cat[j].u]
\* what a pass yields, projected: per catalog <<catalog id, event identities...>>
ViewIds(c, cs) == [i \in 1..Len(cs) |-> <<i - 1>> \o Ids(View(c, cs)[i])]
Counts(c, cs) == [i \in 1..Len(cs) |-> Len(View(c, cs)[i])]

InBin(cat, b) == Len(SelectSeq(cat, LAMBDA e : e.b = b))
RECURSIVE SumBin(_, _, _)
SumBin(v, b, i) == IF i = 0 THEN 0 ELSE InBin(v[i], b) + SumBin(v, b, i - 1)
BinSums(c, cs) == [b \in 1..NBins |-> SumBin(View(c, cs), b, Len(cs))]

None == [k |-> "none", v |-> <<>>, n |-> 0]

\* the value the property prescribes for operation op in the current state
Expected(op, np) ==
    CASE op = "iter"   -> [k |-> "cats", v |-> ViewIds(conf, cats), n |-> Len(cats)]
      [] op = "counts" -> [k |-> "ints", v |-> Counts(conf, cats), n |-> Len(cats)]
      [] op = "ncat"   -> [k |-> "int", v |-> <<>>, n |-> Len(cats)]
      [] op \in {"rates", "scounts", "mcounts"} -> [k |-> "rates", v |-> BinSums(conf, cats), n |-> Len(cats)]
      [] op = "eval"   -> [k |-> "ok", v |-> <<>>, n |-> 0]

\* n_cat of a file-backed forecast is unknown until one pass has completed
NcatUnknownOk(op) == op = "ncat" /\ conf.src # "list" /\ passes = 0

Do(op, np, r) ==
    /\ hist' = Append(hist, op)
    /\ passes' = passes + np
    /\ res' = r
    /\ \/ r = Expected(op, np)
       \/ NcatUnknownOk(op) /\ r = None
    /\ UNCHANGED <<conf, cats>>

Event == [u : 1..6, b : 1..NBins, m : BOOLEAN, s : BOOLEAN]

\* filters must remove what the gridding cannot place (otherwise expected rates are undefined)
Clean(c, cs) == \A i \in 1..Len(cs) : \A j \in 1..Len(cs[i]) : (~cs[i][j].m => c.filt) /\ (~cs[i][j].s => c.spat)
==================================================================================
