CONSTANTS
  MaxN = 4
  H = 50
  KMax = 40
SPECIFICATION Spec
INVARIANT HalfOpen
INVARIANT BelowIsOut
INVARIANT OpenTopAbsorbs
INVARIANT EdgeOpensItsBin
INVARIANT ClosedTopIsOut
INVARIANT NeverBelow
INVARIANT LiftOnlyInBand
PROPERTY Monotone
CHECK_DEADLOCK FALSE
