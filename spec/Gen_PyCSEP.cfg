CONSTANTS
  MaxHist = 2
  Inits <- InitsQ
  LoadRestoresStatements = TRUE
SPECIFICATION Spec
INVARIANT Emit
CHECK_DEADLOCK FALSE
