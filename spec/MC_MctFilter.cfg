CONSTANTS
  K = 3
  MaxEv = 3
  SortedOnly = TRUE
  EmptyReturnsEarly = TRUE
SPECIFICATION Spec
INVARIANT ImplMatchesSpec
INVARIANT OnlyRemoves
INVARIANT KeepsOrder
INVARIANT Idempotent
INVARIANT OutsideWindowUntouched
CHECK_DEADLOCK FALSE
