---------------------------------- MODULE Loaders ----------------------------------
\* X09 - the dispatch logic of the top-level loading functions (csep/__init__.py): which class, which reader, which
\* conversions and filters a call ends up with, and which calls are refused with which exception.  Each function is a
\* decision procedure over a handful of independent arguments; the specification transcribes the procedure (in the order
\* the code takes its decisions - the first failing check decides the exception) and TLC enumerates every argument
\* combination.  The harness performs each call on tiny real files and TLC judges the recorded outcomes (TraceLoaders).
\*
\* A call is a record with the same fields for every function ("na" where a field does not apply):
\*    fn      "catalog" | "sets" | "gridded" | "catfc" | "result"
\*    type    catalog type / result type string          format   "native" | "csep" | "bogus"
\*    loader  "none" | "ok" (callable returning the right thing) | "other" (callable returning something else) | "notcallable"
\*    ext     file extension                              exists   the file exists
\*    apply   apply_filters                               filters / region   the keyword is given
\*    ncat    number of catalogs in the file (sets)       fname    "parse" | "plain" (catalog-forecast file name carries name_start)
\*    namekw  a name keyword is given
\* An outcome:
\*    [k |-> "raised", err |-> exception class]    or
\*    [k |-> "ok", cls, route ("default" | "custom" | "json"), attr (attribute filter applied), spat (spatial filter applied),
\*     n (catalogs yielded; -1 = not a collection), name ("given" | "parsed" | "none"), st (start time parsed from the file name)]
\*
\* Deviations of the code from its own documentation are kept and named (see DESIGN.md 8b):
\*    D1  load_catalog with an unknown type AND a custom loader passes the type check but fails with KeyError
\*    D2  load_gridded_forecast refuses .xml / .h5 / .bin with NotImplementedError even when a custom loader is given
\*    D3  load_stochastic_event_sets is a generator: nothing is checked before the first catalog is requested, and a bad
\*        `format` goes unnoticed for a file without catalogs
\*    D4  load_evaluation_result with an unknown (not missing) type string fails with KeyError
\*    D5  a catalog loaded from a JSON document takes its filter statements from the document (none, for a document written by
\*        write_json of an unfiltered catalog): a `filters` keyword given to load_catalog is overwritten, so apply_filters fails
EXTENDS Integers, Sequences, FiniteSets, TLC

CONSTANT SpatialNeedsRegion      \* FALSE re-creates a slip of the table (spatial filter reported without a region): must be refuted

VARIABLES call, out
vars == <<call, out>>

CatTypes == {"csep-csv", "zmap", "jma-csv", "ndk", "ingv_horus", "ingv_emrcmt", "ucerf3"}
NA == "na"
Raised(e) == [k |-> "raised", err |-> e, cls |-> "none", route |-> "none", attr |-> FALSE, spat |-> FALSE, n |-> -1, name |-> "none", st |-> FALSE]
Ok(cls, route, attr, spat, n, name, st) ==
    [k |-> "ok", err |-> "none", cls |-> cls, route |-> route, attr |-> attr, spat |-> spat, n |-> n, name |-> name, st |-> st]
Pending == [k |-> "pending", err |-> "none", cls |-> "none", route |-> "none", attr |-> FALSE, spat |-> FALSE, n |-> -1, name |-> "none", st |-> FALSE]

Base == [fn |-> NA, type |-> NA, format |-> NA, loader |-> NA, ext |-> NA, exists |-> TRUE, apply |-> FALSE,
         filters |-> FALSE, region |-> FALSE, ncat |-> -1, fname |-> NA, namekw |-> FALSE]

\* ------------------------------------------------------------------ csep.load_catalog
NativeClass(t) == IF t = "ucerf3" THEN "UCERF3Catalog" ELSE "CSEPCatalog"
LoadCatalog(c) ==
    IF c.type \notin CatTypes /\ c.loader = "none" THEN Raised("ValueError")
    ELSE IF c.type \notin CatTypes THEN Raised("KeyError")                                   \* D1
    ELSE LET route == IF c.ext = "json" THEN "json" ELSE IF c.loader = "none" THEN "default" ELSE "custom"
             cls == IF c.format = "csep" THEN "CSEPCatalog" ELSE NativeClass(c.type)
         IN IF c.format \notin {"native", "csep"} THEN Raised("ValueError")
            ELSE IF ~c.apply THEN Ok(cls, route, FALSE, FALSE, -1, "none", FALSE)
            \* filter() needs statements (the filters keyword); without a region the spatial filter is given up silently
            ELSE IF ~(c.filters /\ c.ext # "json") THEN Raised("CSEPCatalogException")      \* (D5 for JSON documents)
            ELSE Ok(cls, route, TRUE, IF SpatialNeedsRegion THEN c.region ELSE TRUE, -1, "none", FALSE)

\* ------------------------------------------------------------------ csep.load_stochastic_event_sets (consumed with list())
LoadSets(c) ==
    IF c.type \notin {"csv", "ucerf3"} THEN Raised("ValueError")
    ELSE IF c.format \notin {"native", "csep"} THEN (IF c.ncat = 0 THEN Ok("none", "default", FALSE, FALSE, 0, "none", FALSE)      \* D3
                                                    ELSE Raised("ValueError"))
    ELSE Ok(IF c.ncat = 0 THEN "none" ELSE IF c.type = "ucerf3" /\ c.format = "native" THEN "UCERF3Catalog" ELSE "CSEPCatalog",
            "default", FALSE, FALSE, c.ncat, "none", FALSE)

\* ------------------------------------------------------------------ csep.load_gridded_forecast
KnownExt == {"dat", "xml", "h5", "bin"}
LoadGridded(c) ==
    IF ~c.exists THEN Raised("FileNotFoundError")
    ELSE IF c.loader = "notcallable" THEN Raised("AttributeError")
    ELSE IF c.ext \notin KnownExt /\ c.loader = "none" THEN Raised("AttributeError")
    ELSE IF c.ext \in {"xml", "h5", "bin"} THEN Raised("NotImplementedError")               \* D2
    ELSE IF c.loader = "other" THEN Raised("ValueError")
    ELSE Ok("GriddedForecast", IF c.loader = "none" THEN "default" ELSE "custom", FALSE, FALSE, -1, "none", FALSE)

\* ------------------------------------------------------------------ csep.load_catalog_forecast (construction only: catalogs are read lazily)
LoadCatFc(c) ==
    IF ~c.exists THEN Raised("FileNotFoundError")
    ELSE IF c.loader = "notcallable" THEN Raised("AttributeError")
    ELSE IF c.loader = "none" /\ c.type \notin {"ascii", "ucerf3"} THEN Raised("KeyError")
    ELSE LET parsed == c.format = "native" /\ c.type = "ascii" /\ c.fname = "parse"
         IN Ok("CatalogForecast", IF c.loader = "none" THEN "default" ELSE "custom", FALSE, FALSE, -1,
               IF c.namekw THEN "given" ELSE IF parsed THEN "parsed" ELSE "none", parsed)

\* ------------------------------------------------------------------ csep.load_evaluation_result
ResultTypes == {"EvaluationResult", "CatalogNumberTestResult", "CatalogSpatialTestResult", "CatalogMagnitudeTestResult",
                "CatalogPseudolikelihoodTestResult", "CalibrationTestResult"}
LoadResult(c) ==
    IF c.type = "missing" THEN Ok("EvaluationResult", "default", FALSE, FALSE, -1, "none", FALSE)
    ELSE IF c.type \notin ResultTypes THEN Raised("KeyError")                               \* D4
    ELSE Ok(c.type, "default", FALSE, FALSE, -1, "none", FALSE)

Eval(c) == CASE c.fn = "catalog" -> LoadCatalog(c)
             [] c.fn = "sets" -> LoadSets(c)
             [] c.fn = "gridded" -> LoadGridded(c)
             [] c.fn = "catfc" -> LoadCatFc(c)
             [] c.fn = "result" -> LoadResult(c)

\* ------------------------------------------------------------------ the calls explored
CatalogCalls == {[Base EXCEPT !.fn = "catalog", !.type = t, !.format = f, !.loader = l, !.ext = e, !.apply = a, !.filters = fi, !.region = r] :
                    t \in CatTypes \cup {"bogus"}, f \in {"native", "csep", "bogus"}, l \in {"none", "ok"}, e \in {"txt", "json"},
                    a \in BOOLEAN, fi \in BOOLEAN, r \in BOOLEAN}
\* (the single-catalog UCERF3 binary reader reads the version, the header and the events all from offset 0 of the file: there is
\*  no file it reads back; type "ucerf3" is therefore explored for the event-set functions only)
CatalogCallsQ == {c \in CatalogCalls : c.type # "ucerf3"}
SetsCalls == {[Base EXCEPT !.fn = "sets", !.type = t, !.format = f, !.ncat = n] :
                    t \in {"csv", "ucerf3", "bogus"}, f \in {"native", "csep", "bogus"}, n \in 0..2}
\* (a CSV file always decodes to at least one catalog - C12; only the binary format can hold none)
SetsCallsQ == {c \in SetsCalls : c.type = "ucerf3" \/ c.ncat >= 1}
GriddedCalls == {[Base EXCEPT !.fn = "gridded", !.loader = l, !.ext = e, !.exists = x] :
                    l \in {"none", "ok", "other", "notcallable"}, e \in {"dat", "xml", "h5", "bin", "txt"}, x \in BOOLEAN}
CatFcCalls == {[Base EXCEPT !.fn = "catfc", !.type = t, !.format = f, !.loader = l, !.exists = x, !.fname = n, !.namekw = k] :
                    t \in {"ascii", "ucerf3", "bogus"}, f \in {"native", "csep"}, l \in {"none", "ok", "notcallable"}, x \in BOOLEAN,
                    n \in {"parse", "plain"}, k \in BOOLEAN}
ResultCalls == {[Base EXCEPT !.fn = "result", !.type = t] : t \in ResultTypes \cup {"missing", "SomethingElse"}}
Calls == CatalogCallsQ \cup SetsCallsQ \cup GriddedCalls \cup CatFcCalls \cup ResultCalls

Init == call \in Calls /\ out = Pending
Perform == out = Pending /\ out' = Eval(call) /\ UNCHANGED call
Spec == Init /\ [][Perform]_vars

\* ------------------------------------------------------------------ properties of the tables
Done == out # Pending
\* a refused call yields nothing; an accepted one names a class
Total == Done => (out.k = "raised" /\ out.err # "none" /\ out.cls = "none") \/ (out.k = "ok" /\ out.err = "none")
\* filters are applied only on request, the spatial one only with a region, and never without the attribute filter
FiltersOnlyOnRequest == (Done /\ out.k = "ok") => /\ (out.attr => call.apply /\ call.filters)
                                                  /\ (out.spat => out.attr /\ call.region)
\* a request to filter that can be honoured is honoured
FiltersHonoured == (Done /\ out.k = "ok" /\ call.fn = "catalog" /\ call.apply) => out.attr /\ (call.region => out.spat)
\* format = "csep" always yields CSEP catalogs; "native" yields the class of the type
CsepMeansCsep == (Done /\ out.k = "ok" /\ call.fn \in {"catalog", "sets"} /\ call.format = "csep" /\ out.cls # "none") => out.cls = "CSEPCatalog"
\* a missing file is reported as such whatever else is wrong with the call
MissingFileFirst == (Done /\ call.fn \in {"gridded", "catfc"} /\ ~call.exists) => out = Raised("FileNotFoundError")
\* a custom loader is used exactly when given and the call is accepted - except for JSON documents
CustomLoaderUsed == (Done /\ out.k = "ok" /\ call.fn \in {"catalog", "gridded", "catfc"}) =>
                        (out.route = "custom" <=> (call.loader = "ok" /\ call.ext # "json"))
\* a name given by the caller is never replaced by one parsed from the file name
GivenNameWins == (Done /\ out.k = "ok" /\ call.namekw) => out.name = "given"
====================================================================================
