CONSTANTS
  FactoryKeys <- KeysNow
SPECIFICATION Spec
INVARIANT EveryClassLoadable
INVARIANT LoadsAsSameClass
INVARIANT FieldsSurvive
PROPERTY EventuallyLoaded
CHECK_DEADLOCK FALSE
