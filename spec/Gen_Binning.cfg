CONSTANTS
  MaxN = 4
  H = 50
  KMax = 0
SPECIFICATION Spec
INVARIANT Emit
CHECK_DEADLOCK FALSE
