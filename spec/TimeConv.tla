--------------------------------- MODULE TimeConv ---------------------------------
\* C15 - time conversions are exact to the millisecond and order preserving.
\* State: an instant <<day, ms>> walking through a window; ToCivil / FromCivil are the two
\* conversions the property speaks about (at the model level they are Civil.tla's algorithms).
\* DecimalYearKey is the order that  year + secondsIntoYear / secondsInYear  induces.
EXTENDS Civil, Integers, Sequences, TLC

CONSTANTS Anchors,     \* set of <<y, m, d>> whose midnight the windows are centred on
          HalfWidth    \* window half width in milliseconds

VARIABLES t            \* <<day, ms>>

\* year / day / epoch-sign / leap-day boundaries 1900..2200 (model values for the cfg)
AnchorsQuick == {<<1900,1,1>>, <<1900,3,1>>, <<1970,1,1>>, <<1972,7,1>>, <<2000,1,1>>, <<2000,3,1>>, <<2001,1,1>>,
                 <<2100,3,1>>, <<2100,1,1>>, <<2199,12,31>>, <<2024,2,29>>, <<1969,12,31>>}
AnchorsAll == {<<y, 1, 1>> : y \in 1900..2200} \cup {<<y, 3, 1>> : y \in 1900..2200} \cup {<<y, 2, 29>> : y \in {1904, 2000, 2024, 2096}}
vars == <<t>>

ToCivil(x) == LET c == CivilFromDays(x[1]) IN
              <<c[1], c[2], c[3], Hour(x[2]), Minute(x[2]), Second(x[2]), Milli(x[2])>>
FromCivil(c) == Normalise(c[1], c[2], c[3], c[4], c[5], c[6], c[7], 0)

Plus(x, k) == LET tot == x[2] + k
                  dd == FloorDiv(tot, MsPerDay) IN <<x[1] + dd, tot - dd * MsPerDay>>

\* decimal year as an exact pair: <<year, numerator of the year fraction in ms>> over DaysInYear*MsPerDay
DecimalYearKey(x) == LET c == CivilFromDays(x[1]) IN <<c[1], DayOfYear(c[1], c[2], c[3]), x[2]>>
KeyLess(a, b) == a[1] < b[1] \/ (a[1] = b[1] /\ (a[2] < b[2] \/ (a[2] = b[2] /\ a[3] < b[3])))

Init == \E a \in Anchors : t = Plus(<<DaysFromCivil(a[1], a[2], a[3]), 0>>, -HalfWidth)
Next == /\ \E a \in Anchors : Before(t, Plus(<<DaysFromCivil(a[1], a[2], a[3]), 0>>, HalfWidth))
                              /\ ~Before(t, Plus(<<DaysFromCivil(a[1], a[2], a[3]), 0>>, -HalfWidth))
        /\ t' = Plus(t, 1)
Spec == Init /\ [][Next]_vars

CivilRoundTrip == FromCivil(ToCivil(t)) = t
FieldsInRange == LET c == ToCivil(t) IN
    /\ c[2] \in 1..12 /\ c[3] \in 1..DaysInMonth(c[1], c[2])
    /\ c[4] \in 0..23 /\ c[5] \in 0..59 /\ c[6] \in 0..59 /\ c[7] \in 0..999
StrictlyMonotone == [][Before(t, t') /\ KeyLess(DecimalYearKey(t), DecimalYearKey(t'))]_vars
LeapYears == IsLeap(2000) /\ ~IsLeap(1900) /\ ~IsLeap(2100) /\ IsLeap(1904) /\ IsLeap(2096) /\ ~IsLeap(2200)
===================================================================================
