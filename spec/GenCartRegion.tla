------------------------------ MODULE GenCartRegion ------------------------------
EXTENDS CartRegion, Json
Emit == PrintT(<<"CASE", ToJson([nx |-> nx, ny |-> ny, polys |-> polys, flags |-> flags, cmap |-> TrueMap])>>)
==================================================================================
