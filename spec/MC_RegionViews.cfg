CONSTANTS
  NX = 3
  NY = 3
  MaxFlagged = 1
  CloseSingle = TRUE
SPECIFICATION Spec
INVARIANT ViewIsCellMap
INVARIANT EachValidCellOnce
INVARIANT BoxTight
INVARIANT MidpointsAndOrigins
CHECK_DEADLOCK FALSE
