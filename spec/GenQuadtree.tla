-------------------------------- MODULE GenQuadtree --------------------------------
EXTENDS Quadtree, Json
Emit == LET g == Grid(events, thr, zoom) IN
    PrintT(<<"CASE", ToJson([events |-> events, thr |-> thr, zoom |-> zoom, grid |-> g,
                             lookup |-> [x \in 1..(Side + 1) |-> [y \in 1..(Side + 1) |-> Lookup(g, <<x - 1, y - 1>>)]]])>>)
====================================================================================
