CONSTANTS
  Anchors <- AnchorsAll
  HalfWidth = 1200
SPECIFICATION Spec
INVARIANT CivilRoundTrip
INVARIANT FieldsInRange
INVARIANT LeapYears
PROPERTY StrictlyMonotone
CHECK_DEADLOCK FALSE
