---------------------------------- MODULE PyCSEP ----------------------------------
\* X04 - one session of the public catalog API as a single state machine: the composition of the per-property modules
\* (Filter, Gridding, Persist, the evaluation entry points) that no listed property names on its own.
\*
\* The object under test is one CSEPCatalog that a user loads, filters, binds to a region, grids, evaluates against
\* a gridded forecast, saves and re-loads, in any order.  Events are identities 1..6 with fixed abstract attributes
\* (spatial cell, magnitude bin, time class; the harness attaches concrete coordinates, magnitudes and milliseconds);
\* the region has 2 cells and 2 magnitude bins (top bin open).
\*
\*    Cell[e]  0 = outside the region          Bin[e]  0 = below the lowest magnitude edge          Time[e] in 1..3
\*
\* Every operation is always callable; "the call raised" is an outcome (last = Raised, state unchanged).  The gridding
\* outcomes are those of Gridding.tla (instantiated on the current catalog), persistence follows Persist.tla (the ASCII
\* form carries no region), filtering follows Filter.tla (conjunction of the statements applied so far).
EXTENDS Integers, Sequences, FiniteSets, TLC

CONSTANTS MaxHist, Inits,
          LoadRestoresStatements      \* FALSE re-creates a modelling slip (a load keeps the statements of the replaced object): must be refuted

VARIABLES cat,        \* the catalog: sequence of event identities
          region,     \* a region (with magnitude bins) is bound to it
          doc,        \* what to_dict / write_json stored: [cat, region] or NoDoc
          file,       \* what write_ascii stored (events only) or NoFile
          last,       \* outcome of the last operation
          preds,      \* ghost: filter statements in force on cat since init0
          docPreds, filePreds,     \* ghost: the same for the stored snapshots
          init0,      \* ghost: the catalog the session started from
          fscale,     \* the gridded forecast the catalog is evaluated against: its scale factor in halves (1 = 1/2, 2 = 1, 4 = 2)
          hist

vars == <<cat, region, doc, file, last, preds, docPreds, filePreds, init0, fscale, hist>>

NE == 6
Cell == <<1, 2, 0, 1, 2, 2>>
Bin  == <<1, 2, 1, 0, 1, 2>>
Time == <<1, 2, 2, 3, 3, 1>>
InitsQ == { <<>>, <<1, 2>>, <<2, 6, 5>>, <<1, 3, 2>>, <<4, 1>>, <<6, 3, 4, 5, 1>>, <<1, 2, 3, 4, 5, 6>>, <<5, 5>> }

G(s) == INSTANCE Gridding WITH NCells <- 2, NBins <- 2, MaxEv <- NE, MagCountsSkipsBelowMin <- TRUE,
                               SMCChecksLength <- TRUE, Quad <- FALSE, cat <- s
KSeq(c) == [i \in 1..Len(c) |-> <<Cell[c[i]], Bin[c[i]]>>]

\* ------------------------------------------------------------------ filter statements
Stmts == {"m1", "m2", "t2", "tlt3"}       \* magnitude >= edge1, magnitude >= edge2, origin_time >= t2, origin_time < t3
Holds(p, e) == CASE p = "m1" -> Bin[e] >= 1
                 [] p = "m2" -> Bin[e] >= 2
                 [] p = "t2" -> Time[e] >= 2
                 [] p = "tlt3" -> Time[e] < 3
                 [] p = "sp" -> Cell[e] # 0
Keep(c, P) == SelectSeq(c, LAMBDA e : \A p \in P : Holds(p, e))

\* ------------------------------------------------------------------ outcomes
None == [k |-> "none", v |-> <<>>]
Raised == [k |-> "raised", v |-> <<>>]
Out(kind, seq) == [k |-> kind, v |-> seq]
Flat2(m) == <<m[1][1], m[1][2], m[2][1], m[2][2]>>
Grid(kind, r) == IF r.rej THEN Raised ELSE Out(kind, IF kind = "smc" THEN Flat2(r.v) ELSE r.v)

NoDoc == [cat |-> <<-1>>, region |-> FALSE]
NoFile == <<-1>>

Ops == {"f_m1", "f_m2", "f_t2", "f_tlt3", "f_list", "filter_spatial", "bind_region", "sc", "mc", "smc",
        "ntest", "ltest", "stest", "mtest", "to_dict", "from_dict", "write_ascii", "load_ascii",
        "scale_half", "scale_one", "scale_two", "deepcopy", "pickle"}

Init == /\ cat \in Inits /\ init0 = cat
        /\ region = FALSE /\ doc = NoDoc /\ file = NoFile /\ last = None
        /\ preds = {} /\ docPreds = {} /\ filePreds = {} /\ hist = <<>>
        /\ fscale = 2

Filter(P) == /\ cat' = Keep(cat, P) /\ preds' = preds \cup P /\ last' = None
             /\ UNCHANGED <<region, doc, file, docPreds, filePreds>>

Observe(o) == last' = o /\ UNCHANGED <<cat, region, doc, file, preds, docPreds, filePreds>>

Do(op) ==
    /\ Len(hist) < MaxHist
    /\ hist' = Append(hist, op)
    /\ init0' = init0
    /\ fscale' = (CASE op = "scale_half" -> 1 [] op = "scale_one" -> 2 [] op = "scale_two" -> 4 [] OTHER -> fscale)   \* absolute, not cumulative
    /\ CASE op \in {"scale_half", "scale_one", "scale_two"} -> Observe(None)
         \* the object is replaced by a deep copy / by what pickling and unpickling it gives: nothing observable changes
         [] op \in {"deepcopy", "pickle"} -> Observe(None)
         [] op = "f_m1" -> Filter({"m1"})
         [] op = "f_m2" -> Filter({"m2"})
         [] op = "f_t2" -> Filter({"t2"})
         [] op = "f_tlt3" -> Filter({"tlt3"})
         [] op = "f_list" -> Filter({"m1", "tlt3"})
         [] op = "filter_spatial" -> IF region THEN Filter({"sp"}) ELSE Observe(Raised)
         [] op = "bind_region" -> region' = TRUE /\ last' = None /\ UNCHANGED <<cat, doc, file, preds, docPreds, filePreds>>
         \* counting: all three need the bound region (its cells / its magnitude bins)
         [] op = "sc" -> Observe(IF region THEN Grid("sc", G(KSeq(cat))!ImplSC(KSeq(cat))) ELSE Raised)
         [] op = "mc" -> Observe(IF region THEN Grid("mc", G(KSeq(cat))!ImplMC(KSeq(cat))) ELSE Raised)
         [] op = "smc" -> Observe(IF region THEN Grid("smc", G(KSeq(cat))!ImplSMC(KSeq(cat))) ELSE Raised)
         \* evaluations against a gridded forecast on the same region
         \* the observed number is the event count; the forecast number is the scaled total (recorded in halves)
         [] op = "ntest" -> Observe(Out("n", <<Len(cat), fscale'>>))
         [] op = "ltest" -> Observe(IF region THEN Grid("smc", G(KSeq(cat))!ImplSMC(KSeq(cat))) ELSE Raised)
         [] op = "stest" -> Observe(IF region THEN Grid("sc", G(KSeq(cat))!ImplSC(KSeq(cat))) ELSE Raised)
         \* (the M-test passes the forecast's magnitude bins to the counting call: no bound region needed)
         [] op = "mtest" -> Observe(Grid("mc", G(KSeq(cat))!ImplMC(KSeq(cat))))
         \* persistence
         [] op = "to_dict" -> doc' = [cat |-> cat, region |-> region] /\ docPreds' = preds /\ last' = None
                              /\ UNCHANGED <<cat, region, file, preds, filePreds>>
         [] op = "from_dict" -> IF doc = NoDoc THEN Observe(Raised)
                                ELSE cat' = doc.cat /\ region' = doc.region /\ preds' = docPreds /\ last' = None
                                     /\ UNCHANGED <<doc, file, docPreds, filePreds>>
         [] op = "write_ascii" -> file' = cat /\ filePreds' = preds /\ last' = None
                                  /\ UNCHANGED <<cat, region, doc, preds, docPreds>>
         [] op = "load_ascii" -> IF file = NoFile THEN Observe(Raised)
                                 ELSE cat' = file /\ region' = FALSE /\ preds' = (IF LoadRestoresStatements THEN filePreds ELSE preds) /\ last' = None
                                      /\ UNCHANGED <<doc, file, docPreds, filePreds>>
Next == \E op \in Ops : Do(op)
Spec == Init /\ [][Next]_vars

\* ------------------------------------------------------------------ properties of the composition
RECURSIVE SumSeq(_, _)
SumSeq(f, n) == IF n = 0 THEN 0 ELSE f[n] + SumSeq(f, n - 1)

\* whatever the order of filters, saves and loads: the catalog is the starting catalog restricted by the statements in force
FilterConjunction == cat = Keep(init0, preds)
SnapshotsToo == /\ (doc # NoDoc => doc.cat = Keep(init0, docPreds))
                /\ (file # NoFile => file = Keep(init0, filePreds))
\* once the spatial filter and the lowest magnitude cut are in force, gridding cannot be refused and conserves the count
GriddableAfterFilters ==
    (region /\ {"sp", "m1"} \subseteq preds) =>
        LET r == G(KSeq(cat))!ImplSMC(KSeq(cat)) IN ~r.rej /\ SumSeq(Flat2(r.v), 4) = Len(cat)
\* an array outcome never counts more events than the catalog holds, and exactly all of them when it is the full grid
CountsBounded == last.k \in {"sc", "mc", "smc"} => SumSeq(last.v, Len(last.v)) <= Len(cat)
FullGridConserves == last.k = "smc" => SumSeq(last.v, 4) = Len(cat)
NTestSeesEverything == last.k = "n" => last.v[1] = Len(cat)
\* observations do not change the object; filters only remove; nothing but a load can add events
EvaluationsLeaveTheForecast == [][\A op \in Ops \ {"scale_half", "scale_one", "scale_two"} : hist' = Append(hist, op) => fscale' = fscale]_vars
ObservationsArePure == [][\A op \in {"sc", "mc", "smc", "ntest", "ltest", "stest", "mtest", "to_dict", "write_ascii",
                                     "scale_half", "scale_one", "scale_two", "deepcopy", "pickle"} :
                             hist' = Append(hist, op) => cat' = cat /\ region' = region]_vars
FiltersOnlyRemove == [][\A op \in {"f_m1", "f_m2", "f_t2", "f_tlt3", "f_list", "filter_spatial"} :
                             hist' = Append(hist, op) => Len(cat') <= Len(cat) /\ Keep(cat', preds') = cat']_vars
FilterIdempotent == [][\A op \in {"f_m1", "f_m2", "f_t2", "f_tlt3", "f_list"} :
                             (hist' = Append(hist, op) /\ Len(hist) > 0 /\ hist[Len(hist)] = op) => cat' = cat]_vars
RoundTrip == [][(hist' = Append(hist, "from_dict") /\ doc # NoDoc) => cat' = doc.cat /\ region' = doc.region]_vars
====================================================================================
