--------------------------------- MODULE CatalogStats ---------------------------------
\* X10 - the summary statistics of a catalog object (csep.core.catalogs): the attributes min/max magnitude, latitude,
\* longitude, start / end time that update_catalog_stats() fills in, next to the observers that are always computed from the
\* current events (event_count, get_bbox, length_in_seconds, get_bvalue, get_cumulative_number_of_events).
\*
\* The attributes are a CACHE.  An object built with compute_stats=True (the default) refreshes it whenever its event table is
\* assigned - so after every in-place filter; an object built with compute_stats=False refreshes it only on request:
\* update_catalog_stats(), str() and filter_spatial(update_stats=True).  A filtered COPY (in_place=False) is a new object with
\* the default.  The specification carries the flag (`auto`) and the events the attributes were last computed from (`seen`) and
\* says what each call returns; TLC checks what a user can rely on in between (stale attributes still bound the events: filters
\* only remove).  (The first version of this module had no `auto`: the recorded sessions of the real object refuted it.)
\*
\* Events are identities 1..NE with fixed abstract attributes (ranks; the harness attaches concrete values):
\*    MagK[e]   index of the event's magnitude on the 0.5-unit discretisation used by the b-value (magnitude = 4.0 + MagK/2 + a bit)
\*    TimeR[e], LonR[e], LatR[e]   ranks of origin time, longitude, latitude;   Cell[e] = 0: outside the spatial region
\* Named behaviour of the code kept as it is: length_in_seconds() is last-minus-first event in STORAGE order ("assuming that the
\* catalog is sorted by time"), so it is negative after the events were reversed; get_bbox() and length_in_seconds() raise on
\* an empty catalog while the attributes become None.
EXTENDS Integers, Sequences, FiniteSets, TLC

CONSTANTS MaxHist, Inits,
          StrRefreshes        \* FALSE re-creates a slip of the model (str() shows the attributes without refreshing them): must be refuted

VARIABLES cat,      \* the events, in storage order
          seen,     \* the events the attributes were last computed from; <<-1>> = never computed
          auto,     \* the object refreshes its attributes whenever its event table is assigned (compute_stats)
          last,     \* outcome of the last call
          hist,
          outs,     \* history: after every call [last, cat, fresh] (read by the harness)
          start     \* the session's starting point [cat, stats]

vars == <<cat, seen, auto, last, hist, outs, start>>

NE == 5
MagK  == <<0, 2, 2, 5, 1>>
TimeR == <<1, 2, 3, 4, 5>>
LonR  == <<3, 1, 5, 2, 4>>
LatR  == <<2, 2, 4, 1, 3>>
Cell  == <<1, 0, 1, 1, 0>>
InitsQ == { <<>>, <<1>>, <<2, 3>>, <<1, 2, 3, 4, 5>>, <<5, 3, 1>>, <<3, 3>>, <<2, 4, 5>> }

Never == <<-1>>
RECURSIVE SumK(_)
SumK(s) == IF s = <<>> THEN 0 ELSE MagK[Head(s)] + SumK(Tail(s))
Range(s) == {s[i] : i \in 1..Len(s)}
MinOf(f, s) == IF s = <<>> THEN -1 ELSE CHOOSE m \in {f[e] : e \in Range(s)} : \A e \in Range(s) : m <= f[e]
MaxOf(f, s) == IF s = <<>> THEN -1 ELSE CHOOSE m \in {f[e] : e \in Range(s)} : \A e \in Range(s) : m >= f[e]
\* what the attributes show for the events s (-1 = None)
StatsOf(s) == <<MinOf(MagK, s), MaxOf(MagK, s), MinOf(LatR, s), MaxOf(LatR, s), MinOf(LonR, s), MaxOf(LonR, s), MinOf(TimeR, s), MaxOf(TimeR, s)>>
Reverse(s) == [i \in 1..Len(s) |-> s[Len(s) + 1 - i]]
Keep(s, P(_)) == SelectSeq(s, P)

None == [k |-> "none", v |-> <<>>]
Raised == [k |-> "raised", v |-> <<>>]
Out(kind, v) == [k |-> kind, v |-> v]

Ops == {"f_m", "f_t", "f_sp", "f_sp0", "copy_f", "update", "str", "set_rev", "stats", "count", "bbox", "length", "bvalue", "cum"}
Observers == {"stats", "count", "bbox", "length", "bvalue", "cum"}

Init == /\ cat \in Inits /\ auto \in BOOLEAN /\ seen = (IF auto THEN cat ELSE Never)
        /\ last = None /\ hist = <<>> /\ outs = <<>> /\ start = [cat |-> cat, stats |-> auto]

Mutate(c, refresh) == /\ cat' = c /\ seen' = (IF refresh \/ auto THEN c ELSE seen) /\ last' = None /\ auto' = auto
Observe(o) == last' = o /\ UNCHANGED <<cat, seen, auto>>

\* b-value (Marzocchi & Sandri 2003) on magnitudes discretised to the 0.5 grid: p = 1 + dmw / (mean - min) = 1 + n / (sum k - n kmin);
\* undefined (None) for an empty catalog and when every event falls on the same grid value
BValue(s) == LET n == Len(s) d == SumK(s) - n * MinOf(MagK, s)
             IN IF n = 0 \/ d = 0 THEN Out("bvalue", <<0, 0>>) ELSE Out("bvalue", <<n, d>>)

Do(op) ==
    /\ Len(hist) < MaxHist
    /\ hist' = Append(hist, op) /\ start' = start
    /\ CASE op = "f_m" -> Mutate(Keep(cat, LAMBDA e : MagK[e] >= 2), FALSE)          \* magnitude >= 5.0
         [] op = "f_t" -> Mutate(Keep(cat, LAMBDA e : TimeR[e] >= 3), FALSE)
         [] op = "f_sp" -> Mutate(Keep(cat, LAMBDA e : Cell[e] # 0), TRUE)           \* filter_spatial(update_stats=True)
         [] op = "f_sp0" -> Mutate(Keep(cat, LAMBDA e : Cell[e] # 0), FALSE)
         \* filter(..., in_place=False): the session continues on the new object, whose constructor computes the attributes
         [] op = "copy_f" -> /\ cat' = Keep(cat, LAMBDA e : MagK[e] >= 1) /\ seen' = cat' /\ auto' = TRUE /\ last' = None
         [] op = "update" -> Mutate(cat, TRUE)
         [] op = "str" -> /\ seen' = (IF StrRefreshes \/ seen = Never THEN cat ELSE seen) /\ cat' = cat /\ auto' = auto
                          /\ last' = Out("str", StatsOf(seen') \o <<Len(cat)>>)
         [] op = "set_rev" -> Mutate(Reverse(cat), FALSE)                             \* the event table is assigned (reversed)
         [] op = "stats" -> Observe(IF seen = Never THEN Raised ELSE Out("stats", StatsOf(seen)))
         [] op = "count" -> Observe(Out("count", <<Len(cat)>>))
         [] op = "bbox" -> Observe(IF cat = <<>> THEN Raised ELSE Out("bbox", <<MinOf(LonR, cat), MaxOf(LonR, cat), MinOf(LatR, cat), MaxOf(LatR, cat)>>))
         \* last minus first in storage order (time ranks; the harness converts)
         [] op = "length" -> Observe(IF cat = <<>> THEN Raised ELSE Out("length", <<TimeR[cat[Len(cat)]], TimeR[cat[1]]>>))
         [] op = "bvalue" -> Observe(BValue(cat))
         [] op = "cum" -> Observe(Out("cum", [i \in 1..Len(cat) |-> i]))
    /\ outs' = Append(outs, [last |-> last', cat |-> cat', fresh |-> seen' = cat'])

Next == \E op \in Ops : Do(op)
Spec == Init /\ [][Next]_vars

\* ------------------------------------------------------------------ properties
\* the attributes, fresh or stale, were computed from a catalog that held every event the catalog holds now
StaleStatsStillBound == seen # Never => Range(cat) \subseteq Range(seen)
\* ... hence they bound every event still present
BoundsHold == (seen # Never /\ cat # <<>>) =>
                 LET s == StatsOf(seen) IN \A e \in Range(cat) : /\ s[1] <= MagK[e] /\ MagK[e] <= s[2]
                                                               /\ s[3] <= LatR[e] /\ LatR[e] <= s[4]
                                                               /\ s[5] <= LonR[e] /\ LonR[e] <= s[6]
                                                               /\ s[7] <= TimeR[e] /\ TimeR[e] <= s[8]
\* what str() shows is what a fresh computation gives
StrIsFresh == last.k = "str" => last.v = StatsOf(cat) \o <<Len(cat)>>
\* the b-value is defined exactly when two events differ on the magnitude grid, and then p > 1
BValueDefined == last.k = "bvalue" => (last.v[1] > 0 <=> \E a, b \in Range(cat) : MagK[a] # MagK[b])
LastOp == hist'[Len(hist')]
ObserversArePure == [][(hist' # hist /\ LastOp \in Observers) => (cat' = cat /\ seen' = seen /\ auto' = auto)]_vars
\* an object that refreshes on assignment never shows stale attributes
AutoIsFresh == auto => seen = cat
OnlyRemoves == [][Range(cat') \subseteq Range(cat)]_vars
=======================================================================================
