-------------------------------- MODULE GenEvalConfig --------------------------------
\* spec -> code for X12: one case per complete session with the predicted lists of both objects and the outcome of every call.
EXTENDS EvalConfig, Json
Emit == (Len(hist) = MaxHist) => PrintT(<<"CASE", ToJson([start |-> start, hist |-> hist, outs |-> outs])>>)
======================================================================================
