CONSTANTS
  Z = 2
  MaxEv = 3
  MaxThr = 2
  EvPoints <- EvPointsQ
SPECIFICATION Spec
INVARIANT DisjointCover
INVARIANT SingleResolutionCovers
INVARIANT PrefixFree
INVARIANT RefinementCriterion
INVARIANT LookupUnique
INVARIANT EventsConserved
CHECK_DEADLOCK FALSE
