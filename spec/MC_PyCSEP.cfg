CONSTANTS
  MaxHist = 4
  Inits <- InitsQ
  LoadRestoresStatements = TRUE
SPECIFICATION Spec
INVARIANT FilterConjunction
INVARIANT SnapshotsToo
INVARIANT GriddableAfterFilters
INVARIANT CountsBounded
INVARIANT FullGridConserves
INVARIANT NTestSeesEverything
PROPERTY ObservationsArePure
PROPERTY EvaluationsLeaveTheForecast
PROPERTY FiltersOnlyRemove
PROPERTY FilterIdempotent
PROPERTY RoundTrip
CHECK_DEADLOCK FALSE
