CONSTANTS
  SpatialNeedsRegion = TRUE
SPECIFICATION Spec
INVARIANT Total
INVARIANT FiltersOnlyOnRequest
INVARIANT FiltersHonoured
INVARIANT CsepMeansCsep
INVARIANT MissingFileFirst
INVARIANT CustomLoaderUsed
INVARIANT GivenNameWins
CHECK_DEADLOCK FALSE
