CONSTANTS
  NCells = 2
  NBins = 2
  MaxEv = 3
  MagCountsSkipsBelowMin = TRUE
  SMCChecksLength = TRUE
  Quad = FALSE
SPECIFICATION Spec
INVARIANT ImplMatchesSpec
INVARIANT Conservation
INVARIANT Marginals
INVARIANT OccupancyIffPositive
INVARIANT BinEqualsFilter
INVARIANT NoSilentMisplacement
PROPERTY OrderIrrelevant
CHECK_DEADLOCK FALSE
