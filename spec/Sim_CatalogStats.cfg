CONSTANTS
  MaxHist = 9
  Inits <- InitsQ
  StrRefreshes = TRUE
SPECIFICATION Spec
INVARIANT Emit
CHECK_DEADLOCK FALSE
