CONSTANTS
  MaxHist = 8
  Cats <- CatsQ
SPECIFICATION GSpec
INVARIANT Emit
CHECK_DEADLOCK FALSE
