----------------------------------- MODULE GridRefine -----------------------------------
\* X13 - refinement of a Cartesian region (csep.core.regions.increase_grid_resolution), the routine every built-in region
\* (california_relm_region, italy_csep_region, ... with dh_scale) runs its cell origins through before the region is built.
\*
\* The code is a recursion with ONE halving per level; the specification has one action per level and per exit:
\*     Return   factor = 1                       -> the points are handed back as they are
\*     Reject   factor odd (and not 1), or < 1   -> AssertionError (so 6 is rejected one level down, 12 two levels down, 0 at once)
\*     Halve    otherwise                        -> every origin is replaced by the four origins of its quarters, spacing halved,
\*                                                  factor halved
\* Coordinates are integers in units of the finest cell (a parent cell is U units wide), so the quarters are exact.
EXTENDS Integers, FiniteSets, TLC

CONSTANTS U,            \* width of a parent cell in fine units (a power of two >= the largest accepted factor)
          Lattice,      \* the parent cells that may be present, as <<i, j>> lattice indices
          Factors,      \* the factors asked for
          HalfStep      \* TRUE: quarters start at h/2 (the code); FALSE re-creates a slip (quarters at h): must be refuted

\* model values for the configurations (a .cfg cannot write tuples or negative numbers)
LatticeDef == {<<0, 0>>, <<1, 0>>, <<0, 1>>, <<1, 1>>, <<2, 1>>}
FactorsDef == {-2, 0, 1, 2, 3, 4, 6, 8, 12}

VARIABLES parents, f0, pts, h, f, st
vars == <<parents, f0, pts, h, f, st>>

Origin(c) == <<c[1] * U, c[2] * U>>
Quarters(p, s) == {p, <<p[1], p[2] + s>>, <<p[1] + s, p[2] + s>>, <<p[1] + s, p[2]>>}

Init == /\ parents \in (SUBSET Lattice) \ {{}}
        /\ f0 \in Factors
        /\ pts = {Origin(c) : c \in parents}
        /\ h = U /\ f = f0 /\ st = "run"

Return == st = "run" /\ f = 1 /\ st' = "done" /\ UNCHANGED <<parents, f0, pts, h, f>>
Reject == st = "run" /\ f # 1 /\ (f % 2 # 0 \/ f < 1) /\ st' = "error" /\ UNCHANGED <<parents, f0, pts, h, f>>
Halve == /\ st = "run" /\ f # 1 /\ f % 2 = 0 /\ f >= 1
         /\ LET s == IF HalfStep THEN h \div 2 ELSE h IN pts' = UNION {Quarters(p, s) : p \in pts}
         /\ h' = h \div 2 /\ f' = f \div 2
         /\ UNCHANGED <<parents, f0, st>>
Next == Return \/ Reject \/ Halve
Spec == Init /\ [][Next]_vars

\* ------------------------------------------------------------------ properties
IsPow2(n) == n \in {1, 2, 4, 8, 16, 32}
Units == {<<x, y>> \in (0..(U * (1 + 2)) - 1) \X (0..(U * (1 + 2)) - 1) : TRUE}     \* lattices of up to 3 x 3 parents
InParent(u) == \E c \in parents : Origin(c)[1] <= u[1] /\ u[1] < Origin(c)[1] + U /\ Origin(c)[2] <= u[2] /\ u[2] < Origin(c)[2] + U
Holders(u) == {p \in pts : p[1] <= u[1] /\ u[1] < p[1] + h /\ p[2] <= u[2] /\ u[2] < p[2] + h}

\* at every level the cells still tile exactly the parent cells: each fine unit of a parent in one cell, nothing outside
Tiling == \A u \in Units : Cardinality(Holders(u)) = IF InParent(u) THEN 1 ELSE 0
CountLaw == Cardinality(pts) * h * h = Cardinality(parents) * U * U
OnLattice == \A p \in pts : p[1] % h = 0 /\ p[2] % h = 0
SpacingLaw == h * f0 = U * f \/ st = "error" \/ ~IsPow2(f0)
AcceptsExactlyPowersOfTwo == /\ st = "done" => IsPow2(f0) /\ h * f0 = U
                             /\ st = "error" => ~IsPow2(f0)
\* a refinement never moves or loses the south-west origin of a parent
KeepsParentOrigins == \A c \in parents : Origin(c) \in pts
\* every run ends: no state is stuck in "run" (one of the three actions is enabled)
NeverStuck == st = "run" => ENABLED Next
========================================================================================
