CONSTANTS
  MNC = 1
  MNB = 1
  MaxId = 1
  MaxCnt = 1
SPECIFICATION TraceSpec
INVARIANT Expect
CHECK_DEADLOCK FALSE
