----------------------------- MODULE TraceResultSerde -----------------------------
\* code -> spec for C18: a record is one real result written with csep.write_json and read with
\* csep.load_evaluation_result: res / loaded are the field-class projections of the original and of the loaded
\* object (loaded.cls = "-" if loading raised), equal = 1 iff name, status, observed statistic, quantile, numeric test
\* distribution, forecast / catalog names and minimum magnitude compare equal (NaN = NaN, tuples = lists).
EXTENDS ResultSerde, Json, IOUtils
VARIABLES tid
Traces == JsonDeserialize(IOEnv.TRACE_FILE)
T == Traces[tid]
TraceInit == tid \in 1..Len(Traces) /\ res = T.res /\ doc = NoDoc /\ loaded = NoRes
TraceNext == Next /\ UNCHANGED tid
TraceSpec == TraceInit /\ [][TraceNext]_<<vars, tid>>
Accepted == /\ loaded # NoRes
            /\ loaded.cls = T.loaded.cls /\ loaded.stat = T.loaded.stat /\ loaded.quant = T.loaded.quant
            /\ loaded.names = T.loaded.names
            /\ (Numeric(res.dist) => loaded.dist = T.loaded.dist)
            /\ T.equal = 1
AcceptInv == Accepted => PrintT(<<"ACCEPT", tid>>)
===================================================================================
