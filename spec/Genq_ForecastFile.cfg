CONSTANTS
  NX = 2
  NY = 2
  MaxM = 2
SPECIFICATION Spec
INVARIANT Emit
CHECK_DEADLOCK FALSE
