CONSTANTS
  NBins = 2
  MaxHist = 3
  ResetCounts = FALSE
  ReturnCachedRates = TRUE
SPECIFICATION Spec
INVARIANT ResOk
INVARIANT PassStable
INVARIANT CacheFiltered
PROPERTY RatesStable
CHECK_DEADLOCK FALSE
