-------------------------------- MODULE GriddedData --------------------------------
\* C11 (scaling) - scaling a forecast is absolute and linear: data = original x last factor, never cumulative.
\* base is the loaded rate array (integers here), factors are rationals <<num, den>>; the object keeps one
\* multiplicative view factor.  scale(v) sets it; scale_to_test_date(d) sets it to the elapsed fraction of the
\* forecast period when d lies strictly inside the period and otherwise leaves the object as it is.
\* Cumulative = TRUE re-creates the classic mistake (factor multiplied into the previous one) and must be refuted.
EXTENDS Integers, Sequences, FiniteSets, TLC

CONSTANTS Factors,        \* set of rationals <<n, d>> that scale() may be called with
          DateFactors,    \* factors scale_to_test_date can produce for dates inside the period
          MaxHist,
          Cumulative

FactorSet == {<<1, 1>>, <<2, 1>>, <<1, 4>>, <<3, 1>>}
DateSet == {<<1, 3>>, <<1, 2>>}

VARIABLES base, scale, hist
vars == <<base, scale, hist>>

One == <<1, 1>>
Mul(a, b) == <<a[1] * b[1], a[2] * b[2]>>
REq(a, b) == a[1] * b[2] = b[1] * a[2]

Init == base \in {<< <<1, 2>>, <<3, 0>> >>, << <<5>> >>} /\ scale = One /\ hist = <<>>
ScaleTo(v) == scale' = IF Cumulative THEN Mul(scale, v) ELSE v
Scale(v) == Len(hist) < MaxHist /\ ScaleTo(v) /\ hist' = Append(hist, [op |-> "scale", f |-> v]) /\ UNCHANGED base
DateInside(v) == Len(hist) < MaxHist /\ ScaleTo(v) /\ hist' = Append(hist, [op |-> "date", f |-> v]) /\ UNCHANGED base
DateOutside == Len(hist) < MaxHist /\ hist' = Append(hist, [op |-> "date-outside", f |-> One]) /\ UNCHANGED <<base, scale>>
Next == (\E v \in Factors : Scale(v)) \/ (\E v \in DateFactors : DateInside(v)) \/ DateOutside
Spec == Init /\ [][Next]_vars

\* the factor the property prescribes after a history: that of the last call that set one
RECURSIVE LastFactor(_)
LastFactor(h) == IF h = <<>> THEN One
                 ELSE IF h[Len(h)].op = "date-outside" THEN LastFactor(SubSeq(h, 1, Len(h) - 1))
                 ELSE h[Len(h)].f
ScaleAbsolute == REq(scale, LastFactor(hist))
\* data, total and both marginals, as rationals over the common denominator scale[2]
Num(c, k) == base[c][k] * scale[1]
RECURSIVE SumRow(_, _)
SumRow(c, k) == IF k = 0 THEN 0 ELSE Num(c, k) + SumRow(c, k - 1)
RECURSIVE SumAll(_)
SumAll(c) == IF c = 0 THEN 0 ELSE SumRow(c, Len(base[c])) + SumAll(c - 1)
RECURSIVE SumCol(_, _)
SumCol(k, c) == IF c = 0 THEN 0 ELSE Num(c, k) + SumCol(k, c - 1)
RECURSIVE SumCols(_)
SumCols(k) == IF k = 0 THEN 0 ELSE SumCol(k, Len(base)) + SumCols(k - 1)
MarginalsSumToTotal == SumAll(Len(base)) = SumCols(Len(base[1]))
ScaleLinear == \A c \in 1..Len(base) : \A k \in 1..Len(base[c]) : Num(c, k) * LastFactor(hist)[2] = base[c][k] * LastFactor(hist)[1] * scale[2]
====================================================================================
