------------------------------- MODULE GenBinning -------------------------------
EXTENDS Binning, Json, FiniteSets
SetToSeq(s) == CHOOSE f \in [1..Cardinality(s) -> s] : \A i, j \in 1..Cardinality(s) : i < j => f[i] < f[j]
\* one case per (n, open, position): the set of admissible answers
Emit == (x = 0 /\ err = 0 /\ idx = CHOOSE i \in Allowed(n, Eff(n, open), p) : \A j \in Allowed(n, Eff(n, open), p) : i <= j) =>
    PrintT(<<"CASE", ToJson([n |-> n, open |-> open, pos |-> p, allowed |-> SetToSeq(Allowed(n, Eff(n, open), p))])>>)
=================================================================================
