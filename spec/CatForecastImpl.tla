----------------------------- MODULE CatForecastImpl -----------------------------
\* C13 - mechanism-level model of csep.core.forecasts.CatalogForecast: one variable per
\* attribute of the object and one action per branch of __next__, get_event_counts and
\* get_expected_rates.  TLC checks that every client-visible result is the one the
\* property-level module CatForecastAbs prescribes (ResOk) and that every completed pass
\* yields the filtered source catalogs in order (PassStable), for every history of client
\* operations up to MaxHist on every configuration.
\*
\* The two constants mirror two repairs made to the code (fix: commits); setting either to
\* FALSE models the code as it was and TLC then produces the failing history (used as a
\* non-vacuity control of the invariants).
EXTENDS CatForecastAbs

CONSTANTS ResetCounts,        \* TRUE: event counts restart when a pass starts (repaired code)
          ReturnCachedRates   \* TRUE: get_expected_rates returns the cached rates on later requests

VARIABLES isList,     \* self.catalogs is a list (TRUE) or a generator (FALSE)
          lst,        \* the list self.catalogs when isList
          gpos,       \* how many catalogs the current generator has produced
          cache,      \* self._catalogs
          idx,        \* self._idx
          applyF,     \* self.apply_filters
          nCat,       \* self.n_cat  (-1 = None)
          evc,        \* self._event_counts
          exp,        \* self.expected_rates (None or rates record)
          cur,        \* client operation in progress ("idle" when none)
          todo,       \* passes the current operation still has to make: "ip" | "cp" | "rp"
          acc,        \* ids yielded in the pass in progress
          data,       \* per-bin accumulation of the rates pass in progress
          lastPass,   \* ids yielded by the last completed pass (meaningful once passes > 0)
          hadRates    \* exp was already set when the current rates request started

mvars == <<isList, lst, gpos, cache, idx, applyF, nCat, evc, exp, cur, todo, acc, data, lastPass, hadRates>>
vars == <<avars, mvars>>

Mk(u, b, m, s) == [u |-> u, b |-> b, m |-> m, s |-> s]
Forecasts == {
    << <<Mk(1, 1, TRUE, TRUE), Mk(2, 2, TRUE, TRUE)>>, <<Mk(3, 1, TRUE, TRUE)>> >>,
    << <<Mk(1, 1, FALSE, TRUE)>>, <<>>, <<Mk(2, 2, TRUE, TRUE), Mk(3, 2, TRUE, FALSE)>> >>,
    << <<>> >>,
    << <<>>, <<Mk(1, 1, TRUE, TRUE), Mk(2, 1, FALSE, TRUE), Mk(3, 2, TRUE, FALSE)>> >>,
    << <<Mk(1, 2, TRUE, TRUE)>> >> }

Zero == [b \in 1..NBins |-> 0]

Init ==
    /\ conf \in [src : Srcs, filt : BOOLEAN, spat : BOOLEAN]
    /\ cats \in Forecasts
    /\ Clean(conf, cats)
    /\ hist = <<>> /\ passes = 0 /\ res = None
    /\ isList = (conf.src = "list")
    /\ lst = IF conf.src = "list" THEN cats ELSE <<>>
    /\ gpos = 0 /\ cache = <<>> /\ idx = 0
    /\ applyF = (conf.filt \/ conf.spat)
    /\ nCat = IF conf.src = "list" THEN Len(cats) ELSE -1
    /\ evc = <<>> /\ exp = None
    /\ cur = "idle" /\ todo = <<>> /\ acc = <<>> /\ data = Zero
    /\ lastPass = <<>> /\ hadRates = FALSE

Plan(op) ==
    CASE op = "iter"   -> <<"ip">>
      [] op = "counts" -> IF Len(evc) = 0 THEN <<"cp">> ELSE <<>>
      [] op = "ncat"   -> <<>>
      [] op \in {"rates", "scounts", "mcounts"} -> IF exp = None THEN <<"rp">> ELSE <<>>
      [] op = "eval"   -> (IF exp = None THEN <<"rp">> ELSE <<>>) \o <<"ip">>

Call(op) ==
    /\ cur = "idle" /\ Len(hist) < MaxHist
    /\ cur' = op
    /\ todo' = Plan(op)
    /\ hadRates' = (exp # None)
    /\ acc' = <<>> /\ data' = Zero
    /\ UNCHANGED <<avars, isList, lst, gpos, cache, idx, applyF, nCat, evc, exp, lastPass>>

AddBins(d, cat) == [b \in 1..NBins |-> d[b] + InBin(cat, b)]

\* common tail of __next__ once `catalog` has been fetched
Yield(raw, y) ==
    /\ evc' = (IF ResetCounts /\ idx = 0 THEN <<>> ELSE evc) \o <<Len(y)>>
    /\ acc' = Append(acc, <<idx>> \o Ids(y))
    /\ data' = AddBins(data, y)

InPass == cur # "idle" /\ todo # <<>>

\* list branch: an item of the list; filters act in place on the stored object
NextListItem ==
    /\ InPass /\ isList /\ idx < nCat
    /\ LET raw == lst[idx + 1]
           y == IF applyF THEN FilterCat(conf, raw) ELSE raw IN
       /\ Yield(raw, y)
       /\ lst' = [lst EXCEPT ![idx + 1] = y]
    /\ idx' = idx + 1
    /\ UNCHANGED <<avars, isList, gpos, cache, applyF, nCat, exp, cur, todo, lastPass, hadRates>>

\* generator branch: next catalog read from file
NextGenItem ==
    /\ InPass /\ ~isList /\ gpos < Len(cats)
    /\ LET raw == cats[gpos + 1]
           y == IF applyF THEN FilterCat(conf, raw) ELSE raw IN
       /\ Yield(raw, y)
       /\ cache' = IF conf.src = "store" THEN Append(cache, y) ELSE cache
    /\ gpos' = gpos + 1
    /\ idx' = idx + 1
    /\ UNCHANGED <<avars, isList, lst, applyF, nCat, exp, cur, todo, lastPass, hadRates>>

\* what the end of a pass means for the operation in progress
PassDone(n) ==
    /\ lastPass' = acc
    /\ passes' = passes + 1
    /\ exp' = IF Head(todo) = "rp" THEN [k |-> "rates", v |-> data, n |-> n] ELSE exp
    /\ todo' = Tail(todo)
    /\ acc' = IF Tail(todo) = <<>> THEN acc ELSE <<>>
    /\ data' = Zero

\* list branch: index past the end -> reset and StopIteration
ListEnd ==
    /\ InPass /\ isList /\ idx >= nCat
    /\ idx' = 0
    /\ PassDone(nCat)
    /\ UNCHANGED <<conf, cats, hist, res, isList, lst, gpos, cache, applyF, nCat, evc, cur, hadRates>>

\* generator exhausted: either a new generator (store off) or switch to the cached list
GenEnd ==
    /\ InPass /\ ~isList /\ gpos = Len(cats)
    /\ IF conf.src = "nostore"
       THEN /\ gpos' = 0
            /\ UNCHANGED <<isList, lst, cache, applyF>>
       ELSE /\ isList' = TRUE
            /\ lst' = cache
            /\ cache' = <<>>
            /\ applyF' = FALSE
            /\ UNCHANGED gpos
    /\ nCat' = idx
    /\ idx' = 0
    /\ PassDone(idx)
    /\ UNCHANGED <<conf, cats, hist, res, evc, cur, hadRates>>

Result(op) ==
    CASE op \in {"iter"} -> [k |-> "cats", v |-> acc, n |-> Len(acc)]
      [] op = "counts" -> [k |-> "ints", v |-> evc, n |-> Len(evc)]
      [] op = "ncat"   -> IF nCat = -1 THEN None ELSE [k |-> "int", v |-> <<>>, n |-> nCat]
      [] op = "rates"  -> IF hadRates /\ ~ReturnCachedRates THEN None ELSE exp
      [] op \in {"scounts", "mcounts"} -> exp
      [] op = "eval"   -> [k |-> "ok", v |-> <<>>, n |-> 0]

Return ==
    /\ cur # "idle" /\ todo = <<>>
    /\ hist' = Append(hist, cur)
    /\ res' = Result(cur)
    /\ cur' = "idle"
    /\ UNCHANGED <<conf, cats, passes, isList, lst, gpos, cache, idx, applyF, nCat, evc, exp, todo, acc, data,
                   lastPass, hadRates>>

Next == (\E op \in Ops : Call(op)) \/ NextListItem \/ NextGenItem \/ ListEnd \/ GenEnd \/ Return

Spec == Init /\ [][Next]_vars

-----------------------------------------------------------------------------------
LastOp == hist[Len(hist)]

\* every client-visible result is the one the property prescribes
ResOk ==
    (cur = "idle" /\ hist # <<>>) =>
        \/ res = Expected(LastOp, 0)
        \/ LastOp = "ncat" /\ conf.src # "list" /\ passes = 0 /\ res = None

\* every completed pass yields the filtered source catalogs, in order
PassStable == passes = 0 \/ lastPass = ViewIds(conf, cats)

\* the cached collection is never the unfiltered one
CacheFiltered == (isList /\ conf.src = "store") => lst = View(conf, cats)

\* expected rates never change once computed
RatesStable == [][exp # None => exp' = exp]_vars
===================================================================================
