CONSTANTS
  SpatialNeedsRegion = TRUE
SPECIFICATION TraceSpec
INVARIANT AcceptInv
INVARIANT Prog
CHECK_DEADLOCK FALSE
