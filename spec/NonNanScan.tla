----------------------------------- MODULE NonNanScan -----------------------------------
\* X14 - first_nonnan / last_nonnan (csep.utils.calc), the scans CartesianGrid2D uses on every row of its index map to find the
\* first and the last cell present (the rest of the row is not-a-number).  A row is a sequence over Vals, "nan" standing for
\* not-a-number; zero and the infinities are ordinary values (the code tests x == x, not truthiness).
\*
\* The scan as a machine: Extend builds the row, Scan moves a cursor from each end one entry at a time (StepL / StepR), each
\* cursor stopping on the first ordinary value it meets; a cursor that leaves the row reports -1 (zero-based indices as in the code).
EXTENDS Integers, Sequences, TLC, SequencesExt

CONSTANTS MaxLen, Vals,
          ZeroIsValue      \* TRUE: 0 is an ordinary value (the code); FALSE re-creates a truthiness slip: must be refuted

VARIABLES row, phase, lo, hi, first, last
vars == <<row, phase, lo, hi, first, last>>

Ordinary(v) == v # "nan" /\ (ZeroIsValue \/ v # "zero")

Init == row = <<>> /\ phase = "build" /\ lo = 1 /\ hi = 0 /\ first = -2 /\ last = -2
Extend == phase = "build" /\ Len(row) < MaxLen /\ \E v \in Vals : row' = Append(row, v) /\ UNCHANGED <<phase, lo, hi, first, last>>
Start == phase = "build" /\ phase' = "scan" /\ lo' = 1 /\ hi' = Len(row) /\ UNCHANGED <<row, first, last>>
StepL == /\ phase = "scan" /\ first = -2
         /\ IF lo > Len(row) THEN first' = -1 /\ lo' = lo
            ELSE IF Ordinary(row[lo]) THEN first' = lo - 1 /\ lo' = lo ELSE first' = first /\ lo' = lo + 1
         /\ UNCHANGED <<row, phase, hi, last>>
StepR == /\ phase = "scan" /\ last = -2
         /\ IF hi < 1 THEN last' = -1 /\ hi' = hi
            ELSE IF Ordinary(row[hi]) THEN last' = hi - 1 /\ hi' = hi ELSE last' = last /\ hi' = hi - 1
         /\ UNCHANGED <<row, phase, lo, first>>
Finish == phase = "scan" /\ first # -2 /\ last # -2 /\ phase' = "done" /\ UNCHANGED <<row, lo, hi, first, last>>
Next == Extend \/ Start \/ StepL \/ StepR \/ Finish
Spec == Init /\ [][Next]_vars

\* ------------------------------------------------------------------ properties
Present == {i \in 1..Len(row) : row[i] # "nan"}
Done == phase = "done"
NoneIffAllNan == Done => ((first = -1) <=> (Present = {})) /\ ((last = -1) <=> (Present = {}))
Extremes == (Done /\ Present # {}) => /\ first + 1 \in Present /\ last + 1 \in Present
                                      /\ \A i \in Present : first + 1 <= i /\ i <= last + 1
Ordered == (Done /\ Present # {}) => first <= last
\* the two scans are mirror images: last(row) = n - 1 - first(reversed row)
FirstOf(s) == IF \E i \in 1..Len(s) : s[i] # "nan" THEN (CHOOSE i \in 1..Len(s) : s[i] # "nan" /\ \A j \in 1..(i - 1) : s[j] = "nan") - 1 ELSE -1
Mirror == Done => (IF last = -1 THEN FirstOf(Reverse(row)) = -1 ELSE last = Len(row) - 1 - FirstOf(Reverse(row)))
\* the cursors never skip an ordinary value
NothingSkipped == phase = "scan" => /\ \A i \in 1..(lo - 1) : i <= Len(row) => row[i] = "nan" \/ first # -2
                                    /\ \A i \in (hi + 1)..Len(row) : row[i] = "nan" \/ last # -2
========================================================================================
