CONSTANTS
  PosMin <- NegFour
  PosMax = 5
  MaxBatch = 2
  MaxAdds = 3
  CopiesOldCounts = TRUE
SPECIFICATION Spec
INVARIANT Conservation
INVARIANT EachInOwnBin
INVARIANT Covers
INVARIANT TopEdgeIsABin
PROPERTY OnlyGrows
PROPERTY OldCountsKept
CHECK_DEADLOCK FALSE
