CONSTANTS
  Docs = {"a", "b", "c"}
  MaxOps = 100000
  BackupKeepsOld = TRUE
SPECIFICATION TraceSpec
INVARIANT AcceptInv
INVARIANT Prog
CHECK_DEADLOCK FALSE
