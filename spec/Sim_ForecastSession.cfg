CONSTANTS
  MaxHist = 10
  Windows <- WindowsQ
  Dates <- DatesQ
  ScaleAbsolute = TRUE
  AddOneDay = TRUE
SPECIFICATION Spec
INVARIANT Emit
CHECK_DEADLOCK FALSE
