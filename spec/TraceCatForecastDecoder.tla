---------------------- MODULE TraceCatForecastDecoder ----------------------
\* code -> spec: recorded executions of the real loader are explained by the decoder actions.
\* A trace is [file, truth, yields, status]; yields[i] = [consumed, cid, evs] is the i-th catalog
\* the real generator produced, with the number of file lines it had read at that moment.
\* One initial state per trace id, so traces are independent of one another.
EXTENDS CatForecastDecoder, Json, IOUtils, TLCExt

VARIABLE tid

Traces == JsonDeserialize(IOEnv.TRACE_FILE)
Only == IF "TRACE_ONLY" \in DOMAIN IOEnv THEN atoi(IOEnv.TRACE_ONLY) ELSE 0
T == Traces[tid]
Y == T.yields

TraceInit ==
    /\ tid \in (IF Only > 0 THEN {Only} ELSE 1..Len(Traces))
    /\ file = T.file
    /\ truth = T.truth
    /\ mode = T.mode
    /\ pos = 1 /\ prev = -1 /\ pending = <<>> /\ out = <<>> /\ status = "run"

\* every catalog the model has yielded is the recorded yield of the same rank
Matches ==
    /\ Len(out) <= Len(Y)
    /\ \A i \in 1..Len(out) : out[i].id = Y[i].cid /\ out[i].evs = Y[i].evs

\* the yields added by this step happened after exactly as many lines as the code had read
ConsumedOk ==
    \A i \in (Len(out) + 1)..Len(out') :
        i <= Len(Y) /\ Y[i].consumed = (IF status' = "done" THEN Len(file) ELSE pos' - 1)

TraceNext == Next /\ UNCHANGED tid /\ Matches' /\ ConsumedOk /\ PrefixOfTruth'

TraceSpec == TraceInit /\ [][TraceNext]_<<vars, tid>>

Accepted ==
    /\ status # "run" /\ status = T.status /\ Len(out) = Len(Y)
    /\ DecodeCorrect /\ IdsContiguous /\ NeverRejectsWellFormed /\ RejectsDecreasing

AcceptInv == Accepted => PrintT(<<"ACCEPT", tid>>)
Diag == PrintT(<<"DIAG", ToJson([tid |-> tid, pos |-> pos, nout |-> Len(out), status |-> status, prev |-> prev])>>)
=============================================================================
