------------------------------------ MODULE Repo ------------------------------------
\* X07 - csep.core.repositories.FileSystem (the layer under write_json / load_json), beyond the listed properties.
\* A repository is a file location.  save(d) replaces the file's content by d; with backup the previous content (if the
\* file exists) is first copied to a new time-stamped file next to it; load() returns the current content and fails when
\* there is none.  Documents are abstract tokens.
EXTENDS Integers, Sequences, FiniteSets, TLC

CONSTANTS Docs, MaxOps,
          BackupKeepsOld        \* FALSE re-creates a slip (the backup is taken after the overwrite): must be refuted

VARIABLES file,        \* current content or NoFile
          backups,     \* sequence of contents preserved by save(.., backup=TRUE), oldest first
          last,        \* outcome of the last operation: [k, v]
          saved,       \* ghost: every document ever saved, in order
          ops

vars == <<file, backups, last, saved, ops>>
NoFile == "none"
Out(k, v) == [k |-> k, v |-> v]

Init == file = NoFile /\ backups = <<>> /\ last = Out("none", NoFile) /\ saved = <<>> /\ ops = 0

Save(d, b) ==
    /\ ops < MaxOps /\ ops' = ops + 1
    /\ file' = d
    /\ backups' = IF b /\ file # NoFile THEN Append(backups, IF BackupKeepsOld THEN file ELSE d) ELSE backups
    /\ saved' = Append(saved, d)
    /\ last' = Out("saved", d)
Load ==
    /\ ops < MaxOps /\ ops' = ops + 1
    /\ last' = IF file = NoFile THEN Out("raised", NoFile) ELSE Out("loaded", file)
    /\ UNCHANGED <<file, backups, saved>>
Next == (\E d \in Docs, b \in BOOLEAN : Save(d, b)) \/ Load
Spec == Init /\ [][Next]_vars

\* ------------------------------------------------------------------ properties
LoadReturnsLastSaved == last.k = "loaded" => (Len(saved) > 0 /\ last.v = saved[Len(saved)])
LoadFailsOnlyWhenEmpty == last.k = "raised" => Len(saved) = 0
\* every backup is a document that was saved earlier and later overwritten, in the order of overwriting
BackupsAreOverwrittenDocs ==
    \E f \in [1..Len(backups) -> 1..Len(saved)] :
        /\ \A i \in 1..Len(backups) : backups[i] = saved[f[i]] /\ f[i] < Len(saved)
        /\ \A i, j \in 1..Len(backups) : i < j => f[i] < f[j]
BackupsOnlyGrow == [][Len(backups') >= Len(backups) /\ SubSeq(backups', 1, Len(backups)) = backups]_vars
=====================================================================================
