--------------------------------- MODULE Gridding ---------------------------------
\* C03 - gridding a catalog counts every event exactly once, in its own cell and bin.
\*
\* An event is <<c, k>>: c its spatial cell (1..NCells, 0 = outside the region), k its magnitude
\* bin (1..NBins, 0 = below the lowest edge; the top bin is open-ended).  Which cell / bin a concrete
\* event falls in is C01 / C02's business (vh/alpha.py); this module is about accumulation.
\*
\* Spec*  : what the property prescribes.        Impl* : what the library's algorithm does
\* (index arrays + numpy.add.at, python negative-index wrap-around, the explicit -1 check, the
\* quadtree lookup that returns matches only).  Three constants re-create behaviours that were
\* defects in the code; TRUE = repaired behaviour.
EXTENDS Integers, Sequences, FiniteSets, TLC

CONSTANTS NCells, NBins, MaxEv,
          MagCountsSkipsBelowMin,     \* magnitude_counts leaves below-minimum events uncounted
          SMCChecksLength,            \* space-magnitude gridding rejects when the lookup returned fewer indices than events
          Quad                        \* the region is a quadtree grid (lookup semantics differ)

VARIABLES cat

Kinds == (0..NCells) \X (0..NBins)
Rejected == [rej |-> TRUE, v |-> <<>>]
Arr(f) == [rej |-> FALSE, v |-> f]

CountCK(s, c, k) == Cardinality({i \in 1..Len(s) : s[i] = <<c, k>>})
CountC(s, c) == Cardinality({i \in 1..Len(s) : s[i][1] = c})
CountK(s, k) == Cardinality({i \in 1..Len(s) : s[i][2] = k})
AnyOutside(s) == \E i \in 1..Len(s) : s[i][1] = 0
AnyBelow(s) == \E i \in 1..Len(s) : s[i][2] = 0

\* ------------------------------------------------------------------ the property
SpecSMC(s) == IF AnyOutside(s) \/ AnyBelow(s) THEN Rejected
              ELSE Arr([c \in 1..NCells |-> [k \in 1..NBins |-> CountCK(s, c, k)]])
\* spatial counts / occupancy: an outside event may be rejected or left uncounted, never counted elsewhere
SCArr(s) == Arr([c \in 1..NCells |-> CountC(s, c)])
OccArr(s) == Arr([c \in 1..NCells |-> IF CountC(s, c) > 0 THEN 1 ELSE 0])
SpecSC(s) == IF AnyOutside(s) THEN {Rejected, SCArr(s)} ELSE {SCArr(s)}
SpecOcc(s) == IF AnyOutside(s) THEN {Rejected, OccArr(s)} ELSE {OccArr(s)}
SpecMC(s) == Arr([k \in 1..NBins |-> CountK(s, k)])
SpecFilter(s, k) == CountK(s, k)        \* events kept by  magnitude >= edge_k (and < edge_(k+1) unless k is the top bin)

\* ------------------------------------------------------------------ the library's algorithm
\* python index semantics: -1 addresses the last element
Wrap(i, n) == IF i = -1 THEN n ELSE i                  \* (1-based target of 0-based index i-1)
\* spatial lookup: Cartesian raises on any outside point; quadtree returns the matches only
LookupSeq(s) ==
    IF ~Quad
    THEN (IF AnyOutside(s) THEN <<-9>> ELSE [i \in 1..Len(s) |-> s[i][1]])        \* <<-9>> = raised
    ELSE LET keep == SelectSeq(s, LAMBDA e : e[1] # 0) IN [i \in 1..Len(keep) |-> keep[i][1]]
Raised(l) == l = <<-9>>
MagIdx(s) == [i \in 1..Len(s) |-> IF s[i][2] = 0 THEN -1 ELSE s[i][2]]        \* bin1d_vec, open top

RECURSIVE AddAt(_, _, _)
AddAt(f, idx, i) == IF i > Len(idx) THEN f ELSE AddAt([f EXCEPT ![idx[i]] = @ + 1], idx, i + 1)

ImplSC(s) ==
    IF Len(s) = 0 THEN Arr([c \in 1..NCells |-> 0])
    ELSE LET l == LookupSeq(s) IN
         IF Raised(l) THEN Rejected ELSE Arr(AddAt([c \in 1..NCells |-> 0], l, 1))
ImplOcc(s) ==
    IF Len(s) = 0 THEN Arr([c \in 1..NCells |-> 0])
    ELSE LET l == LookupSeq(s) IN
         IF Raised(l) THEN Rejected
         ELSE Arr([c \in 1..NCells |-> IF \E i \in 1..Len(l) : l[i] = c THEN 1 ELSE 0])
ImplMC(s) ==
    IF Len(s) = 0 THEN Arr([k \in 1..NBins |-> 0])
    ELSE LET m == MagIdx(s)
             used == IF MagCountsSkipsBelowMin THEN SelectSeq(m, LAMBDA x : x # -1) ELSE m
             tgt == [i \in 1..Len(used) |-> Wrap(used[i], NBins)] IN
         Arr(AddAt([k \in 1..NBins |-> 0], tgt, 1))
\* spatial_magnitude_counts: loop over range(len(spatial_idx)), pairing spatial_idx[i] with mag_idx[i]
RECURSIVE PairLoop(_, _, _, _)
PairLoop(f, l, m, i) ==
    IF i > Len(l) THEN Arr(f)
    ELSE IF m[i] = -1 THEN Rejected
    ELSE PairLoop([f EXCEPT ![l[i]][m[i]] = @ + 1], l, m, i + 1)
ImplSMC(s) ==
    IF Len(s) = 0 THEN Arr([c \in 1..NCells |-> [k \in 1..NBins |-> 0]])
    ELSE LET l == LookupSeq(s) IN
         IF Raised(l) \/ (SMCChecksLength /\ Len(l) # Len(s)) THEN Rejected
         ELSE PairLoop([c \in 1..NCells |-> [k \in 1..NBins |-> 0]], l, MagIdx(s), 1)

\* ------------------------------------------------------------------ behaviour: build and permute catalogs
Init == cat = <<>>
Add == Len(cat) < MaxEv /\ \E e \in Kinds : cat' = Append(cat, e)
SwapAdj == \E i \in 1..(Len(cat) - 1) :
            cat' = [cat EXCEPT ![i] = cat[i + 1], ![i + 1] = cat[i]]
Next == Add \/ SwapAdj
Spec == Init /\ [][Next]_cat

\* ------------------------------------------------------------------ properties
ImplMatchesSpec ==
    /\ ImplSMC(cat) = SpecSMC(cat)
    /\ ImplSC(cat) \in SpecSC(cat)
    /\ ImplOcc(cat) \in SpecOcc(cat)
    /\ ImplMC(cat) = SpecMC(cat)

RECURSIVE SumSeq(_, _)
SumSeq(f, n) == IF n = 0 THEN 0 ELSE f[n] + SumSeq(f, n - 1)
Conservation ==
    ~SpecSMC(cat).rej => SumSeq([c \in 1..NCells |-> SumSeq(SpecSMC(cat).v[c], NBins)], NCells) = Len(cat)
Marginals ==
    ~SpecSMC(cat).rej =>
        /\ \A c \in 1..NCells : SumSeq(SpecSMC(cat).v[c], NBins) = SCArr(cat).v[c]
        /\ \A k \in 1..NBins : SumSeq([c \in 1..NCells |-> SpecSMC(cat).v[c][k]], NCells) = SpecMC(cat).v[k]
OccupancyIffPositive ==
    \A c \in 1..NCells : (OccArr(cat).v[c] = 1) <=> (SCArr(cat).v[c] > 0)
BinEqualsFilter == \A k \in 1..NBins : SpecMC(cat).v[k] = SpecFilter(cat, k)
\* an outside / below-minimum event is never added to any cell or bin
NoSilentMisplacement ==
    /\ (AnyOutside(cat) \/ AnyBelow(cat)) => ImplSMC(cat).rej
    /\ SumSeq(ImplMC(cat).v, NBins) = Len(cat) - CountK(cat, 0)
    /\ ~ImplSC(cat).rej => SumSeq(ImplSC(cat).v, NCells) = Len(cat) - CountC(cat, 0)
OrderIrrelevant == [][Len(cat') = Len(cat) =>
                        /\ SpecSMC(cat') = SpecSMC(cat) /\ ImplSMC(cat') = ImplSMC(cat)
                        /\ ImplSC(cat') = ImplSC(cat) /\ ImplMC(cat') = ImplMC(cat)]_cat
===================================================================================
