---------------------------------- MODULE Quadtree ----------------------------------
\* C17 - quadtree grids tile the globe and locate points in their containing tile.
\*
\* Geometry on a dyadic square: the Web-Mercator square is 2^Z x 2^Z zoom-Z tiles; positions are measured in HALF
\* tiles of the finest zoom, x eastward 0 .. 2^(Z+1), y NORTHWARD 0 .. 2^(Z+1); even = on a finest-zoom tile boundary,
\* odd = strictly inside.  A tile is a quadkey: a sequence of digits 0..3 (0 = NW, 1 = NE, 2 = SW, 3 = SE quadrant).
\* Its bounds are west/south-inclusive and east/north-exclusive.
\* Refinement (from_catalog) is the recursion  Leaves(qk) = IF count(qk) > Thr /\ Len(qk) < Zoom THEN the leaves of
\* its four children ELSE <<qk>>,  started from the four top-level tiles.
EXTENDS Integers, Sequences, FiniteSets, TLC

CONSTANTS Z,            \* finest zoom of the model
          MaxEv,        \* catalog size
          MaxThr,       \* thresholds 0..MaxThr
          EvPoints      \* the points events may sit on (pairs <<x, y>>)

VARIABLES events, thr, zoom
vars == <<events, thr, zoom>>

\* model values for the cfg: corners, edges and interiors of zoom-2 tiles, incl. the antimeridian / northern rim
EvPointsQ == {<<0, 0>>, <<4, 4>>, <<3, 5>>, <<4, 5>>, <<7, 7>>, <<8, 3>>, <<1, 1>>, <<2, 6>>, <<5, 4>>, <<6, 2>>}

RECURSIVE Pow2(_)
Pow2(n) == IF n = 0 THEN 1 ELSE 2 * Pow2(n - 1)
Side == Pow2(Z + 1)                           \* extent in half tiles

\* bounds [w, e) x [s, n) of a quadkey, in half tiles, y northward
RECURSIVE XOf(_, _) 
XOf(qk, i) == IF i > Len(qk) THEN 0 ELSE (qk[i] % 2) * Pow2(Z + 1 - i) + XOf(qk, i + 1)
RECURSIVE YDownOf(_, _)
YDownOf(qk, i) == IF i > Len(qk) THEN 0 ELSE (qk[i] \div 2) * Pow2(Z + 1 - i) + YDownOf(qk, i + 1)
Width(qk) == Pow2(Z + 1 - Len(qk))
West(qk) == XOf(qk, 1)
East(qk) == West(qk) + Width(qk)
North(qk) == Side - YDownOf(qk, 1)
South(qk) == North(qk) - Width(qk)
Contains(qk, p) == p[1] >= West(qk) /\ p[1] < East(qk) /\ p[2] >= South(qk) /\ p[2] < North(qk)

Box(qk) == <<West(qk), East(qk), South(qk), North(qk)>>
InBox(b, p) == p[1] >= b[1] /\ p[1] < b[2] /\ p[2] >= b[3] /\ p[2] < b[4]
\* (bounds computed once per tile: LET-bound values are cached by TLC)
CountIn(qk, evs) == LET b == Box(qk) IN Cardinality({i \in 1..Len(evs) : InBox(b, evs[i])})

RECURSIVE Leaves(_, _, _, _)
Leaves(qk, evs, t, zm) ==
    IF CountIn(qk, evs) > t /\ Len(qk) < zm
    THEN Leaves(Append(qk, 0), evs, t, zm) \o Leaves(Append(qk, 1), evs, t, zm)
         \o Leaves(Append(qk, 2), evs, t, zm) \o Leaves(Append(qk, 3), evs, t, zm)
    ELSE <<qk>>
Grid(evs, t, zm) == Leaves(<<0>>, evs, t, zm) \o Leaves(<<1>>, evs, t, zm) \o Leaves(<<2>>, evs, t, zm) \o Leaves(<<3>>, evs, t, zm)

RECURSIVE Fixed(_, _)
Fixed(qk, zm) == IF Len(qk) < zm THEN Fixed(Append(qk, 0), zm) \o Fixed(Append(qk, 1), zm) \o Fixed(Append(qk, 2), zm) \o Fixed(Append(qk, 3), zm)
                 ELSE <<qk>>
SingleResolution(zm) == Fixed(<<0>>, zm) \o Fixed(<<1>>, zm) \o Fixed(<<2>>, zm) \o Fixed(<<3>>, zm)

\* lookup as the library does it: the first cell whose bounds contain the point, 0 if none
Matching(g, p) == {i \in 1..Len(g) : Contains(g[i], p)}
Lookup(g, p) == IF Matching(g, p) = {} THEN 0 ELSE CHOOSE i \in Matching(g, p) : \A j \in Matching(g, p) : i <= j

AllPoints == (0..Side) \X (0..Side)
Inside(p) == p[1] < Side /\ p[2] < Side

\* catalogs are built event by event (so that TLC's workers share the states)
Init == events = <<>> /\ thr \in 0..MaxThr /\ zoom \in 1..Z
Next == Len(events) < MaxEv /\ \E p \in EvPoints : events' = Append(events, p) /\ UNCHANGED <<thr, zoom>>
Spec == Init /\ [][Next]_vars

IsPrefix(a, b) == Len(a) <= Len(b) /\ SubSeq(b, 1, Len(a)) = a
\* (the grid is bound once per invariant with LET: TLC caches LET-bound values)
\* every point of the square is in exactly one cell; the east / north rim belongs to no cell
DisjointCover == LET g == Grid(events, thr, zoom) IN
    \A p \in AllPoints : Cardinality(Matching(g, p)) = IF Inside(p) THEN 1 ELSE 0
SingleResolutionCovers == LET g == SingleResolution(zoom) IN
    /\ \A p \in AllPoints : Cardinality(Matching(g, p)) = IF Inside(p) THEN 1 ELSE 0
    /\ Len(g) = Pow2(2 * zoom)
PrefixFree == LET g == Grid(events, thr, zoom) IN \A i, j \in 1..Len(g) : i # j => ~IsPrefix(g[i], g[j])
\* no cell holds more events than the threshold unless it is at the maximum zoom; no cell at or below it was split
RefinementCriterion == LET g == Grid(events, thr, zoom) IN
    /\ \A i \in 1..Len(g) : CountIn(g[i], events) <= thr \/ Len(g[i]) = zoom
    /\ \A i \in 1..Len(g) : Len(g[i]) > 1 => CountIn(SubSeq(g[i], 1, Len(g[i]) - 1), events) > thr
LookupUnique == LET g == Grid(events, thr, zoom) IN
    \A p \in AllPoints : Lookup(g, p) # 0 => Matching(g, p) = {Lookup(g, p)}
EventsConserved == LET g == Grid(events, thr, zoom) IN
    \A i \in 1..Len(events) : Inside(events[i]) => Lookup(g, events[i]) # 0
=====================================================================================
