------------------------------ MODULE GenCatalogStats ------------------------------
\* spec -> code for X10: one case per complete session with the predicted outcome of every call.
EXTENDS CatalogStats, Json
Emit == (Len(hist) = MaxHist) => PrintT(<<"CASE", ToJson([start |-> start, hist |-> hist, outs |-> outs])>>)
====================================================================================
