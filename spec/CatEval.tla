---------------------------------- MODULE CatEval ----------------------------------
\* C10 - catalog-based consistency tests compute the documented statistics.
\*
\* A catalog forecast is a sequence of synthetic catalogs; a catalog is a sequence of events <<c, k>> (spatial cell,
\* magnitude bin).  The forecast's expected rates are the per-bin MEAN counts, so every rate is an exact rational and
\* each statistic is an XR over rationals:
\*   N   test distribution = catalog sizes, statistic = observed size
\*   S   sum_c g_c ln(rate_c / sum rate) / n                       (undefined for catalogs without events: skipped)
\*   PL  sum_c g_c ln(rate_c) - Nbar                              (an empty catalog scores -Nbar)
\*   M   sum_k ( log10(hist_k * n_obs/n + 1) - log10(union_k * n_obs/N_u + 1) )^2        (empty catalogs skipped)
\*   MLL 2 ln[ L(union' + cat') / ( L(union') L(cat') ) ],  union' = union + N_u/N_j, cat' = cat + 1, L multinomial
\* Result(test) = [status, present, stat, dist]: the control flow of the library - not-valid / no result for an empty
\* observation, recomputation without never-sampled cells and status "undersampled" when the first statistic is -inf.
EXTENDS XR, Integers, Sequences, FiniteSets, TLC

CONSTANTS NCell, NBin, MaxCat, MaxEv

VARIABLES cats, obs
vars == <<cats, obs>>

J == Len(cats)
RECURSIVE SumF(_, _)
SumF(f, n) == IF n = 0 THEN 0 ELSE f[n] + SumF(f, n - 1)
CellCount(cat, c) == Cardinality({i \in 1..Len(cat) : cat[i][1] = c})
BinCount(cat, k) == Cardinality({i \in 1..Len(cat) : cat[i][2] = k})
TotC(c) == SumF([j \in 1..J |-> CellCount(cats[j], c)], J)          \* J x mean spatial rate of cell c
TotK(k) == SumF([j \in 1..J |-> BinCount(cats[j], k)], J)
Tot == SumF([j \in 1..J |-> Len(cats[j])], J)                        \* J x expected number of events

Sampled(c) == TotC(c) > 0
Restrict(cat) == SelectSeq(cat, LAMBDA e : Sampled(e[1]))            \* events in cells some synthetic catalog sampled

\* ---- spatial statistic of a gridded catalog g (needs every occupied cell sampled)
OccCells(cat) == {c \in 1..NCell : CellCount(cat, c) > 0}
HitsUnsampled(cat) == \E c \in OccCells(cat) : ~Sampled(c)
RECURSIVE SeqOfSet(_)
SeqOfSet(s) == IF s = {} THEN <<>> ELSE LET m == CHOOSE x \in s : \A y \in s : x <= y IN <<m>> \o SeqOfSet(s \ {m})
STerm(cat, c) == Scale(Ln(Q(TotC(c), Tot)), CellCount(cat, c), Len(cat))
SStat(cat) == LET cs == SeqOfSet(OccCells(cat)) IN Sum([i \in 1..Len(cs) |-> STerm(cat, cs[i])])
PLTerm(cat, c) == Scale(Ln(Q(TotC(c), J)), CellCount(cat, c), 1)
PLStat(cat) == LET cs == SeqOfSet(OccCells(cat)) IN Sum([i \in 1..Len(cs) |-> PLTerm(cat, cs[i])] \o <<Q(-Tot, J)>>)

\* ---- magnitude statistic of a histogram h (function bin -> count) with n events, observed size nobs
MTerm(hk, n, nobs, k) == Sq(Sum(<< Fn("log10", Q(hk * nobs + n, n)), Neg(Fn("log10", Q(TotK(k) * nobs + Tot, Tot))) >>))
MStat(h, n, nobs) == Sum([k \in 1..NBin |-> MTerm(h[k], n, nobs, k)])
Hist(cat) == [k \in 1..NBin |-> BinCount(cat, k)]

\* ---- MLL score of a histogram h with n events against the union histogram
\* log multinomial density of x (rationals xn[k]/xd, common denominator) with prob = x / sum x
LDM(xn, xd) ==
    LET tot == SumF(xn, NBin) IN
    Sum(<< Fn("lngamma", Q(tot + xd, xd)) >>
        \o [k \in 1..NBin |-> Scale(Ln(Q(xn[k], tot)), xn[k], xd)]
        \o [k \in 1..NBin |-> Neg(Fn("lngamma", Q(xn[k] + xd, xd)))])
MLLStat(h, n) ==
    LET un == [k \in 1..NBin |-> TotK(k) * n + Tot]                  \* union' numerators over n
        cn == [k \in 1..NBin |-> (h[k] + 1) * n]                     \* cat' numerators over n
        mn == [k \in 1..NBin |-> un[k] + cn[k]] IN
    Scale(Sum(<<LDM(mn, n), Neg(LDM(un, n)), Neg(LDM(cn, n))>>), 2, 1)

\* ---- results
Res(st, pr, s, d) == [status |-> st, present |-> pr, stat |-> s, dist |-> d]
NonEmptyCats == SelectSeq(cats, LAMBDA c : Len(c) > 0)

NTest == Res("normal", TRUE, Q(Len(obs), 1), [j \in 1..J |-> Q(Len(cats[j]), 1)])

STest ==
    LET ne == NonEmptyCats
        dist == [j \in 1..Len(ne) |-> SStat(ne[j])]
        ro == Restrict(obs) IN
    \* (the test distribution of a not-valid result is not constrained by the property)
    IF Len(obs) = 0 THEN Res("not-valid", TRUE, NaN, <<>>)
    ELSE IF ~HitsUnsampled(obs) THEN Res("normal", TRUE, SStat(obs), dist)
    ELSE IF Len(ro) = 0 THEN Res("not-valid", TRUE, NaN, <<>>)
    ELSE Res("undersampled", TRUE, SStat(ro), dist)

PLTest ==
    LET dist == [j \in 1..J |-> PLStat(cats[j])]
        ro == Restrict(obs) IN
    IF Len(obs) = 0 THEN Res("none", FALSE, Absent, <<>>)
    ELSE IF ~HitsUnsampled(obs) THEN Res("normal", TRUE, PLStat(obs), dist)
    ELSE IF Len(ro) = 0 THEN Res("none", FALSE, Absent, <<>>)
    ELSE Res("undersampled", TRUE, PLStat(ro), dist)

MTest ==
    LET ne == NonEmptyCats IN
    IF Len(obs) = 0 THEN Res("not-valid", TRUE, Absent, <<>>)
    ELSE Res("normal", TRUE, MStat(Hist(obs), Len(obs), Len(obs)),
             [j \in 1..Len(ne) |-> MStat(Hist(ne[j]), Len(ne[j]), Len(obs))])

\* resampling tests: the observed statistic is deterministic; every distribution entry is the statistic of a resampled
\* histogram holding exactly Len(obs) events (checked on traces, where the harness records the resampled histograms)
RMObs == IF Len(obs) = 0 THEN Res("not-valid", TRUE, Absent, <<>>) ELSE Res("normal", TRUE, MStat(Hist(obs), Len(obs), Len(obs)), <<>>)
MLLObs == IF Len(obs) = 0 THEN Res("not-valid", TRUE, Absent, <<>>) ELSE Res("normal", TRUE, MLLStat(Hist(obs), Len(obs)), <<>>)

\* ------------------------------------------------------------------ bounded model
Kinds == (1..NCell) \X (1..NBin)
Sorted(s) == \A i \in 1..(Len(s) - 1) : s[i][1] < s[i + 1][1] \/ (s[i][1] = s[i + 1][1] /\ s[i][2] <= s[i + 1][2])
CatSet == {s \in UNION {[1..m -> Kinds] : m \in 0..MaxEv} : Sorted(s)}
Init == /\ cats \in UNION {[1..m -> CatSet] : m \in 1..MaxCat}
        /\ Tot > 0
        /\ obs \in CatSet
Next == UNCHANGED vars
Spec == Init /\ [][Next]_vars

\* ------------------------------------------------------------------ properties
NeverSilentInfinity ==
    /\ (STest.status = "normal") => ~HitsUnsampled(obs)
    /\ (PLTest.status = "normal") => ~HitsUnsampled(obs)
    /\ (STest.status = "undersampled") => ~HitsUnsampled(Restrict(obs))
UnsampledFlagged == (HitsUnsampled(obs) /\ Len(Restrict(obs)) > 0) => (STest.status = "undersampled" /\ PLTest.status = "undersampled")
EmptyObservationSignalled == (Len(obs) = 0) =>
    /\ STest.status = "not-valid" /\ MTest.status = "not-valid" /\ ~PLTest.present
    /\ RMObs.status = "not-valid" /\ MLLObs.status = "not-valid"
EmptyCatalogsSkipped == (STest.status # "not-valid" => Len(STest.dist) = Len(NonEmptyCats)) /\ (Len(obs) > 0 => Len(MTest.dist) = Len(NonEmptyCats))
RatesAreMeanCounts == SumF([c \in 1..NCell |-> TotC(c)], NCell) = Tot /\ SumF([k \in 1..NBin |-> TotK(k)], NBin) = Tot
====================================================================================
