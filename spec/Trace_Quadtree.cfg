CONSTANTS
  Z = 8
  MaxEv = 0
  MaxThr = 0
  EvPoints <- EvPointsQ
SPECIFICATION TraceSpec
INVARIANT AcceptInv
CHECK_DEADLOCK FALSE
