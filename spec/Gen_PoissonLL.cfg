CONSTANTS
  MNC = 2
  MNB = 2
  MaxId = 2
  MaxEv = 3
SPECIFICATION Spec
INVARIANT Emit
CHECK_DEADLOCK FALSE
