--------------------------------- MODULE GenKaganI1 ---------------------------------
\* spec -> code for X11: every complete case with what the specification decides: the contributing cells, N, and whether the
\* score is a number (N > 0; with no contributing cell it is 0).
EXTENDS KaganI1, Json
Emit == done => PrintT(<<"CASE", ToJson([cells |-> cells, contrib |-> SetToSeq(Contrib(cells)), n |-> N(cells), number |-> N(cells) > 0])>>)
=====================================================================================
