-------------------------- MODULE GenCatForecastImpl --------------------------
\* spec -> code: every complete history of the bounded mechanism model, with its configuration
EXTENDS CatForecastImpl, Json

Emit == (cur = "idle" /\ Len(hist) = MaxHist) =>
    PrintT(<<"CASE", ToJson([conf |-> conf, cats |-> cats, hist |-> hist])>>)
================================================================================
