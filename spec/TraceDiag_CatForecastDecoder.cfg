CONSTANTS
  MaxCat = 1
  MaxEv = 1
SPECIFICATION TraceSpec
INVARIANT Diag
CHECK_DEADLOCK FALSE
