-------------------------------- MODULE GenPyCSEP --------------------------------
\* spec -> code for X04: one case per complete session (starting catalog + operation sequence).  Run exhaustively for
\* short sessions and with -simulate for long ones; the harness executes each against the real objects and
\* TracePyCSEP.tla judges every step.
EXTENDS PyCSEP, Json
Emit == (Len(hist) = MaxHist) => PrintT(<<"CASE", ToJson([init |-> init0, hist |-> hist])>>)
===================================================================================
