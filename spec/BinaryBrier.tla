-------------------------------- MODULE BinaryBrier --------------------------------
\* C16 - binary (Bernoulli) joint log-likelihood and Brier score equal their definitions.
\*
\*   BLL   = sum over active bins  ln(1 - exp(-lambda_b))  +  sum over inactive bins  -lambda_b
\*   Brier = -2/N * sum over all N bins ( 1 - exp(-lambda_b) - [bin b active] )^2
\* Both depend on the observation only through WHICH bins are active.  The binary spatial test takes the
\* bins to be the spatial cells with the spatial marginal rates; the conditional test and the Brier test
\* take the full space-magnitude array.
EXTENDS XR, Integers, Sequences, FiniteSets, TLC

CONSTANTS MNC, MNB, MaxId, MaxCnt

VARIABLES rid, w, kind
vars == <<rid, w, kind>>

NC == Len(rid)
NB == Len(rid[1])
Kinds == {"BLL", "BLLS", "BRIER"}

RECURSIVE SumF(_, _)
SumF(f, n) == IF n = 0 THEN 0 ELSE f[n] + SumF(f, n - 1)
RowIds(m, c) == SelectSeq([b \in 1..NB |-> m[c][b]], LAMBDA i : i # 0)
RowCount(ww, c) == SumF(ww[c], NB)

\* the bins of the statistic: sequence of [act, ids]
FullBins(m, ww) ==
    [i \in 1..(NC * NB) |->
        LET c == ((i - 1) \div NB) + 1
            b == ((i - 1) % NB) + 1 IN
        [act |-> ww[c][b] > 0, ids |-> IF m[c][b] # 0 THEN <<m[c][b]>> ELSE <<>>]]
SpatialBins(m, ww) == [c \in 1..NC |-> [act |-> RowCount(ww, c) > 0, ids |-> RowIds(m, c)]]
Bins(k, m, ww) == IF k = "BLLS" THEN SpatialBins(m, ww) ELSE FullBins(m, ww)

Rate(bin) == RateSum(bin.ids, <<>>)

BLLTerm(bin) == IF bin.act THEN Ln1mExpNeg(Rate(bin)) ELSE Neg(Rate(bin))
BLL(bs) ==
    IF \E i \in 1..Len(bs) : bs[i].act /\ bs[i].ids = <<>> THEN NegInf       \* an event in a zero-rate bin
    ELSE Sum([i \in 1..Len(bs) |-> BLLTerm(bs[i])])

\* (1 - exp(-l) - 1)^2 = exp(-l)^2 for an active bin, (1 - exp(-l))^2 for an inactive one
BrierTerm(bin) == IF bin.act THEN Sq(ExpNeg(Rate(bin))) ELSE Sq(Sum(<<One, Neg(ExpNeg(Rate(bin)))>>))
Brier(bs) == Scale(Sum([i \in 1..Len(bs) |-> BrierTerm(bs[i])]), -2, Len(bs))

Stat(k, m, ww) == IF k = "BRIER" THEN Brier(Bins(k, m, ww)) ELSE BLL(Bins(k, m, ww))

Mats(S) == [1..MNC -> [1..MNB -> S]]
Init == /\ rid \in Mats(0..MaxId)
        /\ \E c \in 1..MNC, b \in 1..MNB : rid[c][b] # 0
        /\ w \in Mats(0..1)
        /\ kind \in Kinds
\* more events in a bin that is already active: the support does not change
Bump == \E c \in 1..NC, b \in 1..NB :
          /\ w[c][b] > 0 /\ w[c][b] < MaxCnt
          /\ w' = [w EXCEPT ![c][b] = @ + 1]
          /\ UNCHANGED <<rid, kind>>
Next == Bump
Spec == Init /\ [][Next]_vars

DependsOnlyOnActivity == [][Stat(kind, rid, w') = Stat(kind, rid, w)]_vars
NIsBinCount == (kind = "BRIER") => Stat(kind, rid, w).cd = NC * NB /\ Stat(kind, rid, w).cn = -2
NegInfIffActiveZeroRate ==
    (kind # "BRIER") => ((Stat(kind, rid, w).op = "neginf") <=>
                         (\E i \in 1..Len(Bins(kind, rid, w)) : Bins(kind, rid, w)[i].act /\ Bins(kind, rid, w)[i].ids = <<>>))
OneTermPerBin == Stat(kind, rid, w).op = "sum" => Len(Stat(kind, rid, w).kids) = Len(Bins(kind, rid, w))
====================================================================================
