CONSTANTS
  NBins = 4
  MaxHist = 0
SPECIFICATION TraceSpec
INVARIANT Diag
CHECK_DEADLOCK FALSE
