----------------------------- MODULE TracePoissonLL -----------------------------
\* code -> spec for C05: a trace is one evaluation of a real forecast: kind, the rate-id matrix
\* (ids assigned by the harness: equal floats share an id, zero rates are id 0), the observed count
\* matrix and the count matrices of the simulated catalogs (obtained from the injected uniform
\* numbers by exact inverse-CDF placement, see C06).  TLC answers with the statistic each of them
\* must have, as XR; the harness evaluates those and compares with what the library returned.
EXTENDS PoissonLL, Json, IOUtils

VARIABLES tid
Traces == JsonDeserialize(IOEnv.TRACE_FILE)
T == Traces[tid]
TraceInit == /\ tid \in 1..Len(Traces)
             /\ rid = T.rid /\ w = T.w /\ kind = T.kind
TraceSpec == TraceInit /\ [][UNCHANGED <<vars, tid>>]_<<vars, tid>>
Expect == PrintT(<<"EXPECT", ToJson([tid |-> tid, obs |-> Stat(kind, rid, w),
                                     sims |-> [i \in 1..Len(T.sims) |-> Stat(kind, rid, T.sims[i])]])>>)
=================================================================================
