CONSTANTS
  Anchors <- AnchorsQuick
  HalfWidth = 2000
SPECIFICATION Spec
INVARIANT CivilRoundTrip
INVARIANT FieldsInRange
INVARIANT LeapYears
PROPERTY StrictlyMonotone
CHECK_DEADLOCK FALSE
