CONSTANTS
  MaxCat = 5
  MaxEv = 2
SPECIFICATION Spec
INVARIANT Emit
CHECK_DEADLOCK FALSE
