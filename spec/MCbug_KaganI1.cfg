CONSTANTS
  MaxCells = 3
  Dens = {0, 1, 2, 4}
  Areas = {1, 2}
  MaxN = 2
  ZeroRateCounts = FALSE
SPECIFICATION Spec
INVARIANT RateScaleInvariant
INVARIANT GridInsensitive
INVARIANT UniformIsZero
INVARIANT SingleCellSign
INVARIANT ZeroRateEventsKeepItFinite
CHECK_DEADLOCK FALSE
