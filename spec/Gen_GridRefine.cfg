CONSTANTS
  U = 8
  Lattice <- LatticeDef
  Factors <- FactorsDef
  HalfStep = TRUE
SPECIFICATION Spec
INVARIANT Emit
CHECK_DEADLOCK FALSE
