CONSTANTS
  MaxCat = 1
  MaxEv = 1
SPECIFICATION TraceSpec
INVARIANT AcceptInv
CHECK_DEADLOCK FALSE
