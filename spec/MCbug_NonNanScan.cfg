CONSTANTS
  MaxLen = 5
  Vals = {"nan", "zero", "one", "inf"}
  ZeroIsValue = FALSE
SPECIFICATION Spec
INVARIANT Extremes
CHECK_DEADLOCK FALSE
