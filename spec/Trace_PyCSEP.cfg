CONSTANTS
  MaxHist = 1000
  Inits <- InitsQ
  LoadRestoresStatements = TRUE
SPECIFICATION TraceSpec
INVARIANT AcceptInv
INVARIANT Prog
CHECK_DEADLOCK FALSE
