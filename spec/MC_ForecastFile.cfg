CONSTANTS
  NX = 3
  NY = 2
  MaxM = 3
SPECIFICATION Spec
INVARIANT LookupMatchesRow
INVARIANT MagsAreLowerEdges
INVARIANT FlagZeroOutside
INVARIANT NoRateLost
CHECK_DEADLOCK FALSE
