CONSTANTS
  MaxBins = 4
  MaxW = 2
  MaxN = 3
  Side = "right"
  Rounded = FALSE
SPECIFICATION Spec
INVARIANT PlaceIsInverseCdf
INVARIANT NeverZeroRateBin
INVARIANT UniqueBin
INVARIANT Conserved
INVARIANT DistinctActiveCells
INVARIANT AllowedIsSound
CHECK_DEADLOCK FALSE
