CONSTANTS
  MNC = 3
  MNB = 1
  MaxId = 2
  MaxEv = 2
SPECIFICATION PSpec
PROPERTY StatInvariant
CHECK_DEADLOCK FALSE
