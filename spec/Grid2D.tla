--------------------------------- MODULE Grid2D ---------------------------------
\* D1 in two dimensions: a Cartesian region is a set of active cells of an nx x ny lattice
\* (bounding-box tight), an optional per-cell flag (file convention: 1 = valid, 0 = outside),
\* and the order in which the cells were given (= polygon index).  A region is summarised by
\* its cell map  cmap[j][i]  (1-based row j = latitude index, column i = longitude index):
\* the polygon index of the valid cell there, or -1.
\* A point is a pair of Axis positions (px, py).
EXTENDS Axis, Integers, Sequences, FiniteSets

Outside == -1

CellAt(cmap, nx, ny, kx, ky) ==
    IF kx < 0 \/ ky < 0 \/ kx >= nx \/ ky >= ny THEN Outside ELSE cmap[ky + 1][kx + 1]

\* the property: the cell whose half-open box contains the point, else Outside; in the
\* tolerance band below a boundary either neighbour
KSet(pos) == IF C(pos) = 5 THEN {K(pos), K(pos) + 1} ELSE {K(pos)}
SpecLookup(cmap, nx, ny, px, py) ==
    { CellAt(cmap, nx, ny, kx, ky) : kx \in KSet(px), ky \in KSet(py) }

\* the library: two closed-mode axis lookups on the bounding-box edge arrays, then mask / index map.
\* closeSingle = FALSE models the code as it was: a one-edge axis is forced open-ended by bin1d_vec.
AxisIdx(n, pos, closeSingle) == Allowed(n, IF n = 1 /\ ~closeSingle THEN TRUE ELSE FALSE, pos)
ImplLookup(cmap, nx, ny, px, py, closeSingle) ==
    { IF ix = -1 \/ iy = -1 THEN Outside ELSE cmap[iy + 1][ix + 1] :
        ix \in AxisIdx(nx, px, closeSingle), iy \in AxisIdx(ny, py, closeSingle) }
=================================================================================
