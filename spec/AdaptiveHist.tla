-------------------------------- MODULE AdaptiveHist --------------------------------
\* X03 - csep.utils.basic_types.AdaptiveHistogram: a histogram on the lattice anchor + k*dh whose range grows with
\* the data (beyond the listed properties).
\*
\* A datum is a lattice position p: p = 2k means exactly on edge k, p = 2k + 1 strictly inside bin k = [edge k, edge k+1).
\* The object holds the index of its first and last left edge (lo..hi; empty before the first insertion) and one count
\* per left edge.  add(batch) computes the discretised range of the batch (floor of the minimum, ceiling of the maximum)
\* and merges: (1) first data, (2) range inside the current one, (3) range extends the current one - old counts are copied
\* to their places in the wider array.
EXTENDS Integers, Sequences, FiniteSets, TLC

CONSTANTS PosMin, PosMax, MaxBatch, MaxAdds,
          CopiesOldCounts       \* FALSE re-creates a slip (the wider array starts from zero): must be refuted

VARIABLES lo, hi, cnt,          \* the histogram: left-edge indices lo..hi and their counts (lo > hi = empty)
          seen,                 \* ghost: every datum inserted so far (sequence)
          adds

vars == <<lo, hi, cnt, seen, adds>>
NegFour == -4        \* (a configuration file cannot spell a negative number)
NegBig == -100000
Pos == PosMin..PosMax
Floor(p) == p \div 2                              \* index of the bin holding p (floor division also for negatives)
Ceil(p) == IF p % 2 = 0 THEN p \div 2 ELSE p \div 2 + 1

Min(S) == CHOOSE x \in S : \A y \in S : x <= y
Max(S) == CHOOSE x \in S : \A y \in S : x >= y
Range(b) == {b[i] : i \in 1..Len(b)}
CountIn(b, k) == Cardinality({i \in 1..Len(b) : Floor(b[i]) = k})

\* the discretised range of a batch.  The library computes floor((min + eps - anchor) / dh) and ceil((max + eps - anchor) / dh)
\* in floating point: for a value exactly on an edge the quotient can fall just below the whole number (one more bin at
\* the bottom) and the added eps can lift it just above (one more bin at the top).  Named deviation: an extremum on an
\* edge may widen the range by one empty bin on its side; a value inside a bin never does.
LoOf(p) == IF p % 2 = 0 THEN {Floor(p), Floor(p) - 1} ELSE {Floor(p)}
HiOf(p) == IF p % 2 = 0 THEN {Ceil(p), Ceil(p) + 1} ELSE {Ceil(p)}

Init == lo = 1 /\ hi = 0 /\ cnt = [k \in {} |-> 0] /\ seen = <<>> /\ adds = 0

Batches == UNION {[1..n -> Pos] : n \in 0..MaxBatch}

Add(b) ==
    /\ adds < MaxAdds
    /\ adds' = adds + 1
    /\ seen' = seen \o b
    /\ IF Len(b) = 0 THEN UNCHANGED <<lo, hi, cnt>>
       ELSE \E nlo \in LoOf(Min(Range(b))), nhi \in HiOf(Max(Range(b))) :
            IF lo > hi                                     \* (1) first data
            THEN /\ lo' = nlo /\ hi' = nhi
                 /\ cnt' = [k \in nlo..nhi |-> CountIn(b, k)]
            ELSE IF nlo >= lo /\ nhi <= hi                 \* (2) inside the current range
            THEN /\ UNCHANGED <<lo, hi>>
                 /\ cnt' = [k \in lo..hi |-> cnt[k] + CountIn(b, k)]
            ELSE LET wlo == IF nlo < lo THEN nlo ELSE lo   \* (3) wider range
                     whi == IF nhi > hi THEN nhi ELSE hi IN
                 /\ lo' = wlo /\ hi' = whi
                 /\ cnt' = [k \in wlo..whi |-> (IF CopiesOldCounts /\ k \in lo..hi THEN cnt[k] ELSE 0) + CountIn(b, k)]
Next == \E b \in Batches : Add(b)
Spec == Init /\ [][Next]_vars

\* ------------------------------------------------------------------ properties
RECURSIVE SumF(_, _, _)
SumF(f, a, b) == IF a > b THEN 0 ELSE f[a] + SumF(f, a + 1, b)
Conservation == SumF(cnt, lo, hi) = Len(seen)
EachInOwnBin == \A k \in lo..hi : cnt[k] = CountIn(seen, k)
Covers == Len(seen) > 0 => /\ lo \in LoOf(Min(Range(seen)))
                           /\ hi \in HiOf(Max(Range(seen)))
\* a datum exactly on an edge opens that edge's bin; the topmost left edge is therefore a bin of its own
TopEdgeIsABin == (Len(seen) > 0 /\ Max(Range(seen)) % 2 = 0) => cnt[Max(Range(seen)) \div 2] >= 1
OnlyGrows == [][lo' <= lo \/ lo > hi]_vars /\ [][hi' >= hi \/ lo > hi]_vars
OldCountsKept == [][\A k \in lo..hi : cnt'[k] >= cnt[k]]_vars
======================================================================================
