CONSTANTS
  MNC = 2
  MNB = 2
  MaxId = 1
  MaxEv = 2
SPECIFICATION PSpec
PROPERTY StatInvariant
CHECK_DEADLOCK FALSE
