---------------------------------- MODULE Civil ----------------------------------
\* D4 - calendar arithmetic on 32-bit integers.  An instant is <<day, ms>>: day = days since
\* 1970-01-01 (negative before), ms = millisecond of the day 0..86399999.
\* Days-from-civil / civil-from-days (proleptic Gregorian calendar), after H. Hinnant's
\* integer algorithms; all intermediate values stay far below 2^31 for years 1600..2400.
EXTENDS Integers

MsPerDay == 86400000

FloorDiv(a, b) == a \div b          \* TLC: floor division
IsLeap(y) == (y % 4 = 0 /\ y % 100 # 0) \/ y % 400 = 0
DaysInYear(y) == IF IsLeap(y) THEN 366 ELSE 365
DaysInMonth(y, m) ==
    CASE m \in {1, 3, 5, 7, 8, 10, 12} -> 31
      [] m \in {4, 6, 9, 11} -> 30
      [] m = 2 -> IF IsLeap(y) THEN 29 ELSE 28

DaysFromCivil(y0, m, d) ==
    LET y == IF m <= 2 THEN y0 - 1 ELSE y0
        era == FloorDiv(y, 400)
        yoe == y - era * 400
        mp == IF m > 2 THEN m - 3 ELSE m + 9
        doy == (153 * mp + 2) \div 5 + d - 1
        doe == yoe * 365 + yoe \div 4 - yoe \div 100 + doy
    IN era * 146097 + doe - 719468

CivilFromDays(z0) ==
    LET z == z0 + 719468
        era == FloorDiv(z, 146097)
        doe == z - era * 146097
        yoe == (doe - doe \div 1460 + doe \div 36524 - doe \div 146096) \div 365
        y == yoe + era * 400
        doy == doe - (365 * yoe + yoe \div 4 - yoe \div 100)
        mp == (5 * doy + 2) \div 153
        d == doy - (153 * mp + 2) \div 5 + 1
        m == IF mp < 10 THEN mp + 3 ELSE mp - 9
    IN <<IF m <= 2 THEN y + 1 ELSE y, m, d>>

\* civil time of day from the millisecond of the day
Hour(ms) == ms \div 3600000
Minute(ms) == (ms % 3600000) \div 60000
Second(ms) == (ms % 60000) \div 1000
Milli(ms) == ms % 1000

\* <<day, ms>> of a civil date-time; seconds may be 60 (roll-over) and a UTC offset in minutes is subtracted
Normalise(y, mo, d, h, mi, s, msec, offMin) ==
    LET total == ((h * 60 + mi - offMin) * 60 + s) * 1000 + msec
        dd == FloorDiv(total, MsPerDay)
    IN <<DaysFromCivil(y, mo, d) + dd, total - dd * MsPerDay>>

DayOfYear(y, m, d) == DaysFromCivil(y, m, d) - DaysFromCivil(y, 1, 1)      \* 0-based

Before(a, b) == a[1] < b[1] \/ (a[1] = b[1] /\ a[2] < b[2])
\* |a - b| <= 1 ms
WithinOneMs(a, b) ==
    \/ a = b
    \/ (a[1] = b[1] /\ (a[2] - b[2] = 1 \/ b[2] - a[2] = 1))
    \/ (a[1] = b[1] + 1 /\ a[2] = 0 /\ b[2] = MsPerDay - 1)
    \/ (b[1] = a[1] + 1 /\ b[2] = 0 /\ a[2] = MsPerDay - 1)
==================================================================================
