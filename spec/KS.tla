------------------------------------ MODULE KS ------------------------------------
\* X05 - Kolmogorov-Smirnov distances used by the calibration test and the distribution comparisons
\* (catalog_evaluations.calibration_test, utils.stats.sup_dist_na), beyond the listed properties.
\*
\* One-sample: evaluation results carry a quantile k/M (M fixed) and a status; the calibration test drops the results
\* that are not valid and reports D = sup_x |F_n(x) - x| against the uniform law, which for the sorted quantiles
\* q_1 <= .. <= q_n is max_i max(i/n - q_i, q_i - (i-1)/n).  Over the common denominator M*n:
\*      Dnum = max_i max(i*M - k_i*n, k_i*n - (i-1)*M).
\* Two-sample: two samples of lattice values; D = sup |F1 - F2| over the pooled values, numerator over n1*n2.
EXTENDS Integers, Sequences, FiniteSets, TLC

CONSTANTS M, MaxN, Vals

VARIABLES res,      \* sequence of results [k, valid]
          s1, s2    \* two samples (sequences over Vals)

vars == <<res, s1, s2>>

Max2(a, b) == IF a >= b THEN a ELSE b
Abs(a) == IF a >= 0 THEN a ELSE -a
SetMax(S) == CHOOSE x \in S : \A y \in S : x >= y

ValidKs(r) == SelectSeq(r, LAMBDA e : e.valid)
\* the i-th smallest element of a sequence of records by k (1-based), via rank counting (ties share values)
Sorted(r) == LET n == Len(r) IN
    [i \in 1..n |-> CHOOSE v \in {r[j].k : j \in 1..n} :
                      /\ Cardinality({j \in 1..n : r[j].k < v}) < i
                      /\ Cardinality({j \in 1..n : r[j].k <= v}) >= i]
DnumOne(r) == LET v == ValidKs(r)
                  n == Len(v)
                  q == Sorted(v) IN
              SetMax({Max2(i * M - q[i] * n, q[i] * n - (i - 1) * M) : i \in 1..n})

CountLE(s, x) == Cardinality({i \in 1..Len(s) : s[i] <= x})
DnumTwo(a, b) == SetMax({Abs(CountLE(a, x) * Len(b) - CountLE(b, x) * Len(a)) : x \in {a[i] : i \in 1..Len(a)} \cup {b[i] : i \in 1..Len(b)}})

Init == res = <<>> /\ s1 = <<>> /\ s2 = <<>>
AddRes == Len(res) < MaxN /\ \E k \in 0..M, v \in BOOLEAN : res' = Append(res, [k |-> k, valid |-> v]) /\ UNCHANGED <<s1, s2>>
Add1 == Len(s1) < MaxN /\ \E x \in Vals : s1' = Append(s1, x) /\ UNCHANGED <<res, s2>>
Add2 == Len(s2) < MaxN /\ \E x \in Vals : s2' = Append(s2, x) /\ UNCHANGED <<res, s1>>
Next == AddRes \/ Add1 \/ Add2
Spec == Init /\ [][Next]_vars

\* ------------------------------------------------------------------ properties
NV == Len(ValidKs(res))
\* 1/(2n) <= D <= 1 for any sample of n quantiles in [0, 1]
OneBounds == NV > 0 => (2 * DnumOne(res) >= M /\ DnumOne(res) <= M * NV)
\* results that are not valid do not matter, nor does the order of the results
RECURSIVE Rev(_)
Rev(s) == IF Len(s) = 0 THEN <<>> ELSE Append(Rev(Tail(s)), Head(s))
OneIgnoresInvalidAndOrder == NV > 0 => DnumOne(res) = DnumOne(Rev(ValidKs(res)))
TwoSymmetric == (Len(s1) > 0 /\ Len(s2) > 0) => DnumTwo(s1, s2) = DnumTwo(s2, s1)
TwoBounds == (Len(s1) > 0 /\ Len(s2) > 0) => (DnumTwo(s1, s2) >= 0 /\ DnumTwo(s1, s2) <= Len(s1) * Len(s2))
\* zero distance exactly when both empirical distributions coincide
TwoZeroIffSameLaw == (Len(s1) > 0 /\ Len(s2) > 0) =>
    ((DnumTwo(s1, s2) = 0) <=> \A x \in Vals : CountLE(s1, x) * Len(s2) = CountLE(s2, x) * Len(s1))
===================================================================================
