CONSTANTS
  NBins = 2
  MaxHist = 3
  ResetCounts = TRUE
  ReturnCachedRates = TRUE
SPECIFICATION Spec
INVARIANT Emit
CHECK_DEADLOCK FALSE
