CONSTANTS
  MaxHist = 3
  Inits <- InitsQ
  LoadRestoresStatements = TRUE
SPECIFICATION Spec
INVARIANT Emit
CHECK_DEADLOCK FALSE
