CONSTANTS
  MNC = 2
  MNB = 2
  MaxId = 2
  MaxCnt = 3
SPECIFICATION Spec
INVARIANT NIsBinCount
INVARIANT NegInfIffActiveZeroRate
INVARIANT OneTermPerBin
PROPERTY DependsOnlyOnActivity
CHECK_DEADLOCK FALSE
