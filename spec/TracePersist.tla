------------------------------- MODULE TracePersist -------------------------------
\* code -> spec for C14: one trace = one history of persistence operations on a real catalog.
\*   src                the abstract source object [evs, cid, name, region] (event identities as integers)
\*   steps[l] = [op, obj, exact]: the operation, the projection of the current real object after it, and whether every
\*   field of every event (id, origin time in ms, latitude, longitude, depth, magnitude) is bit-identical to the
\*   source event with that identity (1/0, established by the harness).
EXTENDS Persist, Json, IOUtils
VARIABLES tid, l
Traces == JsonDeserialize(IOEnv.TRACE_FILE)
T == Traces[tid]
TraceInit == /\ tid \in 1..Len(Traces) /\ l = 1
             /\ obj = T.src
             /\ file = <<>> /\ fileValid = FALSE /\ doc = NoObj /\ docJson = NoObj /\ df = NoObj /\ hist = <<>>
Step == /\ l <= Len(T.steps)
        /\ Do(T.steps[l].op)
        /\ obj' = T.steps[l].obj
        /\ T.steps[l].exact = 1
        /\ l' = l + 1 /\ UNCHANGED tid
TraceSpec == TraceInit /\ [][Step]_<<vars, tid, l>>
AcceptInv == (l = Len(T.steps) + 1) => PrintT(<<"ACCEPT", tid>>)
Prog == PrintT(<<"PROG", tid, l>>)
===================================================================================
