-------------------------------- MODULE ForecastFile --------------------------------
\* C11 (files) - a CSEP gridded-forecast ASCII file loads into a forecast whose rate lookup matches the file.
\*
\* The file is a sequence of rows [cell, mbin, rate, flag]: cell = <<i, j>> lattice coordinates of the row's
\* spatial box, mbin = index of its magnitude bin (1..M, ascending), rate = an opaque rate identifier,
\* flag = 1 valid / 0 outside.  Well-formed files list, for every cell in any order, its M magnitude rows
\* consecutively in ascending magnitude (the documented "magnitude fastest" layout); a cell's rows share its flag.
\* Load mirrors GriddedForecast.load_ascii: unique cells in first-appearance order become the polygons, unique
\* lower magnitude edges in first-appearance order the magnitude grid, and the rate column is reshaped to
\* (number of cells, number of magnitudes) in file order.
EXTENDS Grid2D, Integers, Sequences, FiniteSets, TLC

CONSTANTS NX, NY, MaxM

VARIABLES stage, nx, ny, nm, file

vars == <<stage, nx, ny, nm, file>>

Cells(a, b) == (0..(a - 1)) \X (0..(b - 1))
Tight(act, a, b) ==
    /\ act # {}
    /\ \E c \in act : c[1] = 0
    /\ \E c \in act : c[2] = 0
    /\ \E c \in act : c[1] = a - 1
    /\ \E c \in act : c[2] = b - 1
LexLess(c, d) == c[2] < d[2] \/ (c[2] = d[2] /\ c[1] < d[1])
MinCell(act) == CHOOSE c \in act : \A d \in act : d = c \/ LexLess(c, d)
RECURSIVE SortedSeq(_)
SortedSeq(act) == IF act = {} THEN <<>> ELSE <<MinCell(act)>> \o SortedSeq(act \ {MinCell(act)})
Reverse(s) == [p \in 1..Len(s) |-> s[Len(s) - p + 1]]
Rotate(s) == [p \in 1..Len(s) |-> s[(p % Len(s)) + 1]]
Orders(act) == {SortedSeq(act), Reverse(SortedSeq(act)), Rotate(SortedSeq(act))}

\* rate identifier of (q-th cell in file order, magnitude bin m): all distinct
RateId(q, m, M) == (q - 1) * M + m
Rows(order, M, flagged) ==
    [r \in 1..(Len(order) * M) |->
        LET q == ((r - 1) \div M) + 1
            m == ((r - 1) % M) + 1 IN
        [cell |-> order[q], mbin |-> m, rate |-> RateId(q, m, M), flag |-> IF q \in flagged THEN 0 ELSE 1]]

\* two stages (canonical file first, then re-ordered / flagged variants) so that TLC's workers share the work
Init ==
    /\ nx \in 1..NX /\ ny \in 1..NY /\ nm \in 1..MaxM
    /\ \E act \in SUBSET Cells(nx, ny) :
         /\ Tight(act, nx, ny)
         /\ file = Rows(SortedSeq(act), nm, {})
    /\ stage = 0
FileCells == {file[r].cell : r \in 1..Len(file)}
Vary ==
    /\ stage = 0 /\ stage' = 1
    /\ \E order \in Orders(FileCells), flagged \in SUBSET (1..Cardinality(FileCells)) :
         /\ Cardinality(flagged) <= 1
         /\ file' = Rows(order, nm, flagged)
    /\ UNCHANGED <<nx, ny, nm>>
Next == Vary
Spec == Init /\ [][Next]_vars

\* ------------------------------------------------------------------ Load (mirror of load_ascii)
FirstIdx(c) == CHOOSE r \in 1..Len(file) : file[r].cell = c /\ \A r2 \in 1..(r - 1) : file[r2].cell # c
UniqueCellRows == {r \in 1..Len(file) : \A r2 \in 1..(r - 1) : file[r2].cell # file[r].cell}
RECURSIVE SortSet(_)
SortSet(s) == IF s = {} THEN <<>> ELSE LET mn == CHOOSE x \in s : \A y \in s : x <= y IN <<mn>> \o SortSet(s \ {mn})
PolyRows == SortSet(UniqueCellRows)                       \* first-appearance order
Polys == [q \in 1..Len(PolyRows) |-> file[PolyRows[q]].cell]
PolyFlag == [q \in 1..Len(PolyRows) |-> file[PolyRows[q]].flag]
UniqueMagRows == {r \in 1..Len(file) : \A r2 \in 1..(r - 1) : file[r2].mbin # file[r].mbin}
Mags == [k \in 1..Cardinality(UniqueMagRows) |-> file[SortSet(UniqueMagRows)[k]].mbin]
NMag == Len(Mags)
Data == [q \in 1..Len(Polys) |-> [k \in 1..NMag |-> file[(q - 1) * NMag + k].rate]]      \* reshape(n_poly, n_mag)
CMap == [j \in 1..ny |-> [i \in 1..nx |->
            IF \E q \in 1..Len(Polys) : Polys[q] = <<i - 1, j - 1>> /\ PolyFlag[q] = 1
            THEN (CHOOSE q \in 1..Len(Polys) : Polys[q] = <<i - 1, j - 1>> /\ PolyFlag[q] = 1) - 1
            ELSE -1]]

\* ------------------------------------------------------------------ properties
\* any point of a row's half-open box (lower corner included) and any magnitude of its bin returns the row's rate
LookupMatchesRow ==
    \A r \in 1..Len(file) : file[r].flag = 1 =>
        \A px \in {file[r].cell[1] * S + c : c \in {0, 1, 3, 4}}, py \in {file[r].cell[2] * S + c : c \in {0, 1, 3, 4}} :
            LET q == CHOOSE q \in SpecLookup(CMap, nx, ny, px, py) : TRUE IN
            /\ SpecLookup(CMap, nx, ny, px, py) = {q} /\ q # Outside
            /\ Data[q + 1][file[r].mbin] = file[r].rate
MagsAreLowerEdges == Mags = [k \in 1..nm |-> k]
FlagZeroOutside == \A r \in 1..Len(file) : file[r].flag = 0 =>
    CellAt(CMap, nx, ny, file[r].cell[1], file[r].cell[2]) = Outside
NoRateLost == {Data[q][k] : q \in 1..Len(Polys), k \in 1..NMag} = {file[r].rate : r \in 1..Len(file)}
=====================================================================================
