--------------------------------- MODULE PoissonLL ---------------------------------
\* C05 - Poisson L / CL / S / M statistics equal the Poisson joint log-likelihood.
\*
\* A forecast is a matrix rid[c][b] of rate identifiers (0 = zero rate) over NC cells x NB magnitude
\* bins; an observation is a matrix w[c][b] of counts.  Stat(kind, rid, w) is the statistic as an XR:
\*      sum_bins  w * ln(lambda')  -  sum_bins ln(w!)  -  N'
\* with lambda' = lambda, N' = N_fore  (L, CL: full space-magnitude rates)
\*      lambda' = spatial marginal * N_obs / N_fore, N' = N_obs   (S)   magnitude marginal likewise (M)
\* and minus infinity iff some event lies in a bin whose (marginal) rate is zero.
\* Every entry of the simulated test distribution is the same operator applied to simulated counts.
EXTENDS XR, Integers, Sequences, FiniteSets, TLC

CONSTANTS MNC, MNB,     \* cells, magnitude bins of the bounded model
          MaxId,        \* rate identifiers 0..MaxId
          MaxEv         \* at most this many observed events (model checking only)

VARIABLES rid, w, kind

NC == Len(rid)          \* the operators work for any matrix size (traces bring their own)
NB == Len(rid[1])

vars == <<rid, w, kind>>
Kinds == {"L", "CL", "S", "M"}

RECURSIVE SumF(_, _)
SumF(f, n) == IF n = 0 THEN 0 ELSE f[n] + SumF(f, n - 1)

\* all non-zero ids of the matrix, row-major, as a sequence (a bag)
FlatAll(m) == [i \in 1..(NC * NB) |-> m[((i - 1) \div NB) + 1][((i - 1) % NB) + 1]]
AllIds(m) == SelectSeq(FlatAll(m), LAMBDA i : i # 0)
RowIds(m, c) == SelectSeq([b \in 1..NB |-> m[c][b]], LAMBDA i : i # 0)
ColIds(m, b) == SelectSeq([c \in 1..NC |-> m[c][b]], LAMBDA i : i # 0)
NObs(ww) == SumF([c \in 1..NC |-> SumF(ww[c], NB)], NC)
RowCount(ww, c) == SumF(ww[c], NB)
ColCount(ww, b) == SumF([c \in 1..NC |-> ww[c][b]], NC)

\* the bins the statistic is taken over: sequence of [cnt, ids] (count and the ids whose sum is the bin rate)
CellBins(m, ww) ==
    [i \in 1..(NC * NB) |->
        LET c == ((i - 1) \div NB) + 1
            b == ((i - 1) % NB) + 1 IN
        [cnt |-> ww[c][b], ids |-> IF m[c][b] # 0 THEN <<m[c][b]>> ELSE <<>>]]
Bins(k, m, ww) ==
    CASE k \in {"L", "CL"} -> CellBins(m, ww)
      [] k = "S" -> [c \in 1..NC |-> [cnt |-> RowCount(ww, c), ids |-> RowIds(m, c)]]
      [] k = "M" -> [b \in 1..NB |-> [cnt |-> ColCount(ww, b), ids |-> ColIds(m, b)]]

Normalised(k) == k \in {"S", "M"}

HitsZeroRate(k, m, ww) == \E i \in 1..Len(Bins(k, m, ww)) : Bins(k, m, ww)[i].cnt > 0 /\ Bins(k, m, ww)[i].ids = <<>>

\* one occupied bin contributes  w*ln(lambda')  and  -ln(w!)
LnTerm(k, m, ww, bin) ==
    Scale(Ln(IF Normalised(k)
             THEN Scale(RateSum(bin.ids, AllIds(m)), NObs(ww), 1)
             ELSE RateSum(bin.ids, <<>>)), bin.cnt, 1)
Terms(k, m, ww) ==
    LET occ == SelectSeq(Bins(k, m, ww), LAMBDA bin : bin.cnt > 0) IN
    [j \in 1..(2 * Len(occ)) |->
        IF j % 2 = 1 THEN LnTerm(k, m, ww, occ[(j + 1) \div 2]) ELSE Neg(LnFact(occ[j \div 2].cnt))]

Stat(k, m, ww) ==
    IF HitsZeroRate(k, m, ww) THEN NegInf
    ELSE Sum(Terms(k, m, ww)
             \o << IF Normalised(k) THEN Q(-NObs(ww), 1) ELSE Neg(RateSum(AllIds(m), <<>>)) >>)

\* ------------------------------------------------------------------ bounded model
Mats(S) == [1..MNC -> [1..MNB -> S]]
Init == /\ rid \in Mats(0..MaxId)
        /\ AllIds(rid) # <<>>                 \* at least one positive rate
        /\ w \in Mats(0..MaxEv)
        /\ NObs(w) <= MaxEv
        /\ kind \in Kinds
Next == UNCHANGED vars
Spec == Init /\ [][Next]_vars

\* ------------------------------------------------------------------ properties
EventInZeroBin(k) ==
    CASE k \in {"L", "CL"} -> \E c \in 1..NC, b \in 1..NB : w[c][b] > 0 /\ rid[c][b] = 0
      [] k = "S" -> \E c \in 1..NC : RowCount(w, c) > 0 /\ \A b \in 1..NB : rid[c][b] = 0
      [] k = "M" -> \E b \in 1..NB : ColCount(w, b) > 0 /\ \A c \in 1..NC : rid[c][b] = 0
NegInfIff == (Stat(kind, rid, w).op = "neginf") <=> EventInZeroBin(kind)
LEqualsCL == Stat("L", rid, w) = Stat("CL", rid, w)
\* the marginal rate vectors partition the full rate array: together they hold every id exactly once
Count(s, x) == Cardinality({i \in 1..Len(s) : s[i] = x})
RECURSIVE Cat(_, _)
Cat(f, n) == IF n = 0 THEN <<>> ELSE Cat(f, n - 1) \o f[n]
MarginalsConsistent ==
    /\ \A x \in 1..MaxId : Count(Cat([c \in 1..NC |-> RowIds(rid, c)], NC), x) = Count(AllIds(rid), x)
    /\ \A x \in 1..MaxId : Count(Cat([b \in 1..NB |-> ColIds(rid, b)], NB), x) = Count(AllIds(rid), x)
\* finite statistic has one ln term and one ln-factorial term per occupied bin, and one count term
Shape == Stat(kind, rid, w).op # "neginf" =>
    Len(Stat(kind, rid, w).kids) =
        2 * Cardinality({i \in 1..Len(Bins(kind, rid, w)) : Bins(kind, rid, w)[i].cnt > 0}) + 1
====================================================================================
