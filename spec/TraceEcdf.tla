------------------------------- MODULE TraceEcdf -------------------------------
\* code -> spec for C09: one trace = one (large) sample, projected to its rank histogram
\* (cnt over at most A distinct values, zero-padded) and the answers the library gave to a
\* list of queries qs[i] = <<q, ge, le>> (q on the 2*rank / odd-between scale; ge, le are the
\* integer numerators recovered exactly from the returned floats).
EXTENDS Ecdf, Json, IOUtils, TLCExt

VARIABLES tid, done

Traces == JsonDeserialize(IOEnv.TRACE_FILE)
T == Traces[tid]

TraceInit == /\ tid \in 1..Len(Traces)
             /\ cnt = [i \in Letters |-> T.cnt[i]]
             /\ v = 1 /\ done = FALSE

Explained == \A i \in 1..Len(T.qs) :
                /\ T.qs[i][2] = CountGE(cnt, T.qs[i][1])
                /\ T.qs[i][3] = CountLE(cnt, T.qs[i][1])
                /\ T.n = N(cnt)

TraceNext == ~done /\ Explained /\ done' = TRUE /\ UNCHANGED <<cnt, v, tid>>
TraceSpec == TraceInit /\ [][TraceNext]_<<vars, tid, done>>
AcceptInv == done => PrintT(<<"ACCEPT", tid>>)
=================================================================================
