CONSTANTS
  NCell = 2
  NBin = 2
  MaxCat = 3
  MaxEv = 1
SPECIFICATION PSpec
PROPERTY ResultsInvariant
CHECK_DEADLOCK FALSE
