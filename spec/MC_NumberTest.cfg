CONSTANTS
  MaxN = 6
  MaxCat = 5
  MaxSize = 3
SPECIFICATION Spec
INVARIANT ImplMatchesSpec
INVARIANT InclusiveTails
INVARIANT SumIdentity
INVARIANT EmpiricalExact
PROPERTY MonotoneInN
CHECK_DEADLOCK FALSE
