CONSTANTS
  MNC = 2
  MNB = 2
  MaxId = 2
  MaxCnt = 2
SPECIFICATION Spec
INVARIANT Emit
CHECK_DEADLOCK FALSE
