-------------------------------- MODULE TraceReaders --------------------------------
\* code -> spec for C19: one trace = one generated file of one format, loaded by csep.load_catalog.
\*   fmt, n        format and number of records written
\*   loaded        number of events the reader produced
\*   recs[i] = <<y, mo, d, h, mi, s, ms, off,  oDay, oMs,  same>>: the civil time written for record i, the instant the
\*   i-th loaded event carries (split into day / ms by the harness), and same = 1 iff longitude, latitude, depth and
\*   magnitude of that event equal the encoded ones (at the format's numeric resolution).
EXTENDS Readers, Json, IOUtils
VARIABLES tid, done
Traces == JsonDeserialize(IOEnv.TRACE_FILE)
T == Traces[tid]
R(i) == [y |-> T.recs[i][1], mo |-> T.recs[i][2], d |-> T.recs[i][3], h |-> T.recs[i][4], mi |-> T.recs[i][5],
         s |-> T.recs[i][6], ms |-> T.recs[i][7], off |-> T.recs[i][8]]
RecOk(i) == /\ <<T.recs[i][9], T.recs[i][10]>> = Expected(R(i), T.fmt)       \* time, file order (record i <-> event i)
            /\ T.recs[i][11] = 1
Bad == IF T.loaded # T.n THEN {0} ELSE {i \in 1..Len(T.recs) : ~RecOk(i)}     \* one event per record
TraceInit == tid \in 1..Len(Traces) /\ done = FALSE /\ fmt = T.fmt /\ rec = R(1)
TraceNext == ~done /\ Bad = {} /\ done' = TRUE /\ UNCHANGED <<tid, fmt, rec>>
TraceSpec == TraceInit /\ [][TraceNext]_<<tid, done, fmt, rec>>
AcceptInv == IF done THEN PrintT(<<"ACCEPT", tid>>)
             ELSE (Bad # {} => PrintT(<<"PROG", tid, (CHOOSE i \in Bad : \A j \in Bad : i <= j) + 1>>))
=====================================================================================
