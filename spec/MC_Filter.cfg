CONSTANTS
  MaxEv = 1
  MaxHist = 2
  Vals = {0, 1, 2}
  Restrict = TRUE
  UseGenCats = FALSE
SPECIFICATION Spec
INVARIANT ExactSelection
INVARIANT OrderPreserved
PROPERTY NonMutating
CHECK_DEADLOCK FALSE
