----------------------------------- MODULE GenKS -----------------------------------
\* spec -> code for X05: every one-sample case (results with quantile numerators and validity) and every two-sample case
EXTENDS KS, Json
Emit == /\ (s1 = <<>> /\ s2 = <<>> /\ NV > 0) => PrintT(<<"CASE", ToJson([kind |-> "one", res |-> res, dnum |-> DnumOne(res), n |-> NV])>>)
        /\ (res = <<>> /\ Len(s1) > 0 /\ Len(s2) > 0) => PrintT(<<"CASE", ToJson([kind |-> "two", a |-> s1, b |-> s2, dnum |-> DnumTwo(s1, s2)])>>)
Constr == (res = <<>>) \/ (s1 = <<>> /\ s2 = <<>>)
====================================================================================
