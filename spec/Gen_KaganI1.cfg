CONSTANTS
  MaxCells = 3
  Dens = {0, 1, 2, 4}
  Areas = {1, 2}
  MaxN = 2
  ZeroRateCounts = TRUE
SPECIFICATION Spec
INVARIANT Emit
CHECK_DEADLOCK FALSE
