CONSTANTS
  MaxHist = 3
  Cats <- CatsQ
SPECIFICATION GSpec
INVARIANT Emit
CHECK_DEADLOCK FALSE
