CONSTANTS
  MNC = 2
  MNB = 2
  MaxId = 2
  MaxEv = 3
SPECIFICATION Spec
INVARIANT NegInfIff
INVARIANT LEqualsCL
INVARIANT MarginalsConsistent
INVARIANT Shape
CHECK_DEADLOCK FALSE
