--------------------------------- MODULE NumberTest ---------------------------------
\* C07 - number tests report the exact tail probabilities of the forecast count law.
\*
\* A probability of the count N is represented by the integer interval of outcomes it covers:
\*     Mass(lo, hi) = P(lo <= N <= hi),   hi = Inf for an unbounded upper tail.
\*   Spec:  delta1 = P(N >= n_obs) = Mass(n_obs, Inf)      delta2 = P(N <= n_obs) = Mass(0, n_obs)
\*   Impl:  the library evaluates  1 - cdf(n_obs - eps)  and  cdf(n_obs + eps)  with eps = 1e-6 on a discrete
\*          law: cdf(x) = Mass(0, floor(x)), and the complement of Mass(0, k) is Mass(k + 1, Inf).
\* For the empirical law (catalog N-test) probabilities are exact fractions of the multiset of synthetic
\* catalog sizes.  n_obs is the number of EVENTS of the observed catalog (not of occupied cells).
EXTENDS Integers, Sequences, FiniteSets, TLC

CONSTANTS MaxN,          \* observed counts 0..MaxN
          MaxCat,        \* empirical law: at most this many synthetic catalogs
          MaxSize        \* ... each of size 0..MaxSize

VARIABLES law, n, sizes

vars == <<law, n, sizes>>
Inf == -1
Mass(lo, hi) == [lo |-> lo, hi |-> hi]
Outcomes(m, top) == {k \in 0..top : k >= m.lo /\ (m.hi = Inf \/ k <= m.hi)}     \* finite window, for the identities

SpecDelta1(k) == Mass(k, Inf)
SpecDelta2(k) == Mass(0, k)

\* the library: eps-shifted cdf on a discrete law (n integer, 0 < eps < 1)
FloorMinusEps(k) == k - 1            \* floor(k - eps)
FloorPlusEps(k) == k                 \* floor(k + eps)
Cdf(x) == IF x < 0 THEN Mass(0, -2) ELSE Mass(0, x)          \* Mass(0,-2): the empty event
Complement(m) == Mass(m.hi + 1, Inf)                         \* of a lower tail Mass(0, hi); hi = -2 gives everything
ImplDelta1(k) == IF FloorMinusEps(k) < 0 THEN Mass(0, Inf) ELSE Complement(Cdf(FloorMinusEps(k)))
ImplDelta2(k) == Cdf(FloorPlusEps(k))

\* empirical law
GE(s, k) == Cardinality({i \in 1..Len(s) : s[i] >= k})
LE(s, k) == Cardinality({i \in 1..Len(s) : s[i] <= k})
EQ(s, k) == Cardinality({i \in 1..Len(s) : s[i] = k})

Init == /\ law \in {"poisson", "nbd", "empirical"}
        /\ n \in 0..MaxN
        /\ sizes \in IF law = "empirical" THEN UNION {[1..m -> 0..MaxSize] : m \in 1..MaxCat} ELSE {<<>>}
Next == n < MaxN /\ n' = n + 1 /\ UNCHANGED <<law, sizes>>
Spec == Init /\ [][Next]_vars

Top == MaxN + 3
SameEvent(a, b) == Outcomes(a, Top) = Outcomes(b, Top)
ImplMatchesSpec == SameEvent(ImplDelta1(n), SpecDelta1(n)) /\ SameEvent(ImplDelta2(n), SpecDelta2(n))
InclusiveTails == n \in Outcomes(SpecDelta1(n), Top) /\ n \in Outcomes(SpecDelta2(n), Top)
\* delta1 + delta2 = 1 + P(N = n): the two events cover everything and overlap exactly in {n}
SumIdentity ==
    /\ Outcomes(SpecDelta1(n), Top) \cup Outcomes(SpecDelta2(n), Top) = 0..Top
    /\ Outcomes(SpecDelta1(n), Top) \cap Outcomes(SpecDelta2(n), Top) = {n}
EmpiricalExact == law = "empirical" => GE(sizes, n) + LE(sizes, n) = Len(sizes) + EQ(sizes, n)
\* monotone in n (a larger observation can only shrink the upper tail and grow the lower one)
MonotoneInN == [][Outcomes(SpecDelta1(n'), Top) \subseteq Outcomes(SpecDelta1(n), Top)
                  /\ Outcomes(SpecDelta2(n), Top) \subseteq Outcomes(SpecDelta2(n'), Top)]_vars
=====================================================================================
