CONSTANTS
  K = 3
  MaxEv = 3
  SortedOnly = FALSE
  EmptyReturnsEarly = TRUE
SPECIFICATION Spec
INVARIANT Emit
CHECK_DEADLOCK FALSE
