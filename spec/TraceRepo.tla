---------------------------------- MODULE TraceRepo ----------------------------------
\* code -> spec for X07: a trace is the list of operations executed on a real FileSystem repository, each with the
\* projected state afterwards [op, d, b, file, backups, last]: file = the document in the file (or "none"), backups =
\* documents found in the backup files in creation order, last = outcome of the call.
EXTENDS Repo, Json, IOUtils
VARIABLES tid, l
Traces == JsonDeserialize(IOEnv.TRACE_FILE)
T == Traces[tid]
TraceInit == tid \in 1..Len(Traces) /\ Init /\ l = 1
Step == /\ l <= Len(T)
        /\ LET r == T[l] IN
             /\ IF r.op = "save" THEN Save(r.d, r.b) ELSE Load
             /\ file' = r.file /\ backups' = r.backups
             /\ last'.k = r.last.k /\ last'.v = r.last.v
        /\ l' = l + 1 /\ UNCHANGED tid
TraceSpec == TraceInit /\ [][Step]_<<vars, tid, l>>
AcceptInv == (l = Len(T) + 1) => PrintT(<<"ACCEPT", tid>>)
Prog == PrintT(<<"PROG", tid, l>>)
======================================================================================
