-------------------------------- MODULE ResultSerde --------------------------------
\* C18 - evaluation results survive serialization.
\* A result is [cls, stat, quant, dist, names]: its class and the CLASS of value each field holds
\*   stat   "finite" | "posinf" | "neginf" | "nan" | "none"
\*   quant  "scalar" | "pair" | "pair_none" | "pair_invalid"          (e.g. (None, None), (-1, -1))
\*   dist   "list" | "array" | "empty" | "law" | "word"               (('poisson', mean), 'normal')
\*   names  "str" | "pair" | "none"
\* ToDict stores the class name under "type"; LoadJson looks that name up in the factory table and rebuilds the
\* object with the stored fields.  FactoryKeys mirrors the table in csep.load_evaluation_result.
EXTENDS Integers, Sequences, FiniteSets, TLC

CONSTANTS FactoryKeys        \* the keys of the factory table, as a set of strings

VARIABLES res, doc, loaded

\* the table as it stands in csep/__init__.py after the repair, and as it stood before (one key spelt differently
\* from its class: must be refuted)
KeysNow == {"default", "EvaluationResult", "CatalogNumberTestResult", "CatalogSpatialTestResult", "CatalogMagnitudeTestResult",
            "CatalogPseudolikelihoodTestResult", "CalibrationTestResult"}
KeysBefore == {"default", "EvaluationResult", "CatalogNumberTestResult", "CatalogSpatialTestResult", "CatalogMagnitudeTestResult",
               "CatalogPseudoLikelihoodTestResult", "CalibrationTestResult"}
vars == <<res, doc, loaded>>

Classes == {"EvaluationResult", "CatalogNumberTestResult", "CatalogSpatialTestResult", "CatalogMagnitudeTestResult",
            "CatalogPseudolikelihoodTestResult", "CalibrationTestResult"}
Stats == {"finite", "posinf", "neginf", "nan", "none"}
Quants == {"scalar", "pair", "pair_none", "pair_invalid"}
Dists == {"list", "array", "empty", "law", "word"}
Names == {"str", "pair", "none"}
Results == [cls : Classes, stat : Stats, quant : Quants, dist : Dists, names : Names]
NoDoc == [type |-> "-", stat |-> "-", quant |-> "-", dist |-> "-", names |-> "-"]
NoRes == [cls |-> "-", stat |-> "-", quant |-> "-", dist |-> "-", names |-> "-"]

\* JSON has no tuples or arrays: they come back as lists; everything else keeps its class
JsonDist(d) == IF d = "array" THEN "list" ELSE d
Numeric(d) == d \in {"list", "array", "empty"}

Init == res \in Results /\ doc = NoDoc /\ loaded = NoRes
ToDictAndWrite == /\ doc = NoDoc
                  /\ doc' = [type |-> res.cls, stat |-> res.stat, quant |-> res.quant, dist |-> JsonDist(res.dist), names |-> res.names]
                  /\ UNCHANGED <<res, loaded>>
\* the factory: the stored type selects the class; an unknown key cannot be loaded
Load == /\ doc # NoDoc /\ loaded = NoRes
        /\ doc.type \in FactoryKeys
        /\ loaded' = [cls |-> doc.type, stat |-> doc.stat, quant |-> doc.quant, dist |-> doc.dist, names |-> doc.names]
        /\ UNCHANGED <<res, doc>>
Next == ToDictAndWrite \/ Load
Spec == Init /\ [][Next]_vars /\ WF_vars(Next)

\* every class the library produces can be loaded back ...
EveryClassLoadable == Classes \subseteq FactoryKeys
LoadsAsSameClass == loaded # NoRes => loaded.cls = res.cls
FieldsSurvive == loaded # NoRes =>
    /\ loaded.stat = res.stat /\ loaded.quant = res.quant /\ loaded.names = res.names
    /\ Numeric(res.dist) => loaded.dist = JsonDist(res.dist)
EventuallyLoaded == <>(loaded # NoRes)
====================================================================================
