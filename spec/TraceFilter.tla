-------------------------------- MODULE TraceFilter --------------------------------
\* code -> spec for C04: one trace = one history of filter calls on a real catalog.
\*   stmts[j]          operator of statement j ("<", "<=", ">", ">=", "==")
\*   events[i]         <<u, inside, c_1, .., c_m>>: identity, inside the region (1/0), and for every statement j the exact
\*                     comparison of the event's attribute with that statement's threshold (-1 below, 0 equal, 1 above)
\*   calls[l]          [k, idx, inplace, obj, ret, objs]: kind ("one" | "list" | "spatial" | "stored"), statement indices,
\*                     in_place flag, index of the object the call was made on, ids the returned catalog holds, and the ids of
\*                     every catalog object that exists after the call (so that an untouched source can be verified)
\* The same object model as Filter.tla is replayed; a trace is accepted iff every call returned exactly what Apply gives
\* and left every other object as it was.
EXTENDS Integers, Sequences, FiniteSets, TLC, Json, IOUtils

VARIABLES tid, l, objs
Traces == JsonDeserialize(IOEnv.TRACE_FILE)
T == Traces[tid]

HoldsC(op, c) ==
    CASE op = "<"  -> c = -1
      [] op = "<=" -> c <= 0
      [] op = ">"  -> c = 1
      [] op = ">=" -> c >= 0
      [] op = "==" -> c = 0
Ev(u) == CHOOSE e \in {T.events[i] : i \in 1..Len(T.events)} : e[1] = u
Keep(u, c) ==
    IF c.k = "spatial" THEN Ev(u)[2] = 1
    ELSE \A j \in 1..Len(c.idx) : HoldsC(T.stmts[c.idx[j]], Ev(u)[2 + c.idx[j]])
Apply(ids, c) == SelectSeq(ids, LAMBDA u : Keep(u, c))

TraceInit == /\ tid \in 1..Len(Traces) /\ l = 1
             /\ objs = <<[i \in 1..Len(T.events) |-> T.events[i][1]]>>
Step ==
    /\ l <= Len(T.calls)
    /\ LET c == T.calls[l]
           out == Apply(objs[c.obj], c) IN
       /\ c.ret = out                                              \* exactly the events satisfying every statement, in order
       /\ objs' = IF c.inplace THEN [objs EXCEPT ![c.obj] = out] ELSE Append(objs, out)
       /\ c.objs = objs'                                           \* nothing else changed (source untouched when not in place)
    /\ l' = l + 1 /\ UNCHANGED tid
TraceSpec == TraceInit /\ [][Step]_<<tid, l, objs>>
AcceptInv == (l = Len(T.calls) + 1) => PrintT(<<"ACCEPT", tid>>)
Prog == PrintT(<<"PROG", tid, l>>)
====================================================================================
