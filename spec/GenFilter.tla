-------------------------------- MODULE GenFilter --------------------------------
EXTENDS Filter, Json
Ids(cat) == [i \in 1..Len(cat) |-> cat[i].u]
Emit == (Len(hist) = MaxHist) =>
    PrintT(<<"CASE", ToJson([src |-> src0, hist |-> hist, cur |-> cur, objs |-> [i \in 1..Len(objs) |-> Ids(objs[i])]])>>)
==================================================================================
