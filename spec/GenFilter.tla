-------------------------------- MODULE GenFilter --------------------------------
EXTENDS Filter, Json
Ids(cat) == [i \in 1..Len(cat) |-> cat[i].u]
Emit == (Len(hist) = MaxHist) =>
    PrintT(<<"CASE", ToJson([src |-> src0, hist |-> [i \in 1..Len(hist) |-> [k |-> hist[i].c.k, sts |-> hist[i].c.sts, inplace |-> hist[i].c.inplace, o |-> hist[i].o]], cur |-> cur, objs |-> [i \in 1..Len(objs) |-> Ids(objs[i])]])>>)
==================================================================================
