CONSTANTS
  MaxEv = 0
  MaxHist = 2
  Vals = {0, 1, 2}
  Restrict = FALSE
  UseGenCats = TRUE
SPECIFICATION Spec
INVARIANT Emit
CHECK_DEADLOCK FALSE
