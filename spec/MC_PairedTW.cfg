CONSTANTS
  NBins = 3
  MaxEv = 4
  AlphaN = 1
  AlphaD = 20
SPECIFICATION Spec
INVARIANT Antisymmetry
INVARIANT VarianceSymmetric
INVARIANT SelfComparisonZero
INVARIANT WSymmetric
INVARIANT RankSum
INVARIANT VarPositive
CHECK_DEADLOCK FALSE
