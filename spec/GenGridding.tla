------------------------------- MODULE GenGridding -------------------------------
EXTENDS Gridding, Json
SetSeq(s) == IF Cardinality(s) = 1 THEN <<CHOOSE x \in s : TRUE>>
             ELSE <<CHOOSE x \in s : x.rej, CHOOSE x \in s : ~x.rej>>
Emit == PrintT(<<"CASE", ToJson([cat |-> cat, smc |-> SpecSMC(cat), sc |-> SetSeq(SpecSC(cat)),
                                 occ |-> SetSeq(SpecOcc(cat)), mc |-> SpecMC(cat),
                                 filt |-> [k \in 1..NBins |-> SpecFilter(cat, k)]])>>)
==================================================================================
