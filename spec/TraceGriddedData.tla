------------------------------ MODULE TraceGriddedData ------------------------------
\* code -> spec for C11 (scaling).  A trace is a history of calls on a real GriddedForecast:
\*   calls[l] = [op, f, ratio, marg]: op in {"scale", "date", "date-outside", "read"}; f = identifier of the factor
\*   the call is expected to install (0 for none); ratio = identifier of the factor that the observed data equals
\*   base x factor for (exact comparison for dyadic factors, 1e-12 relative otherwise; -1 = none matches);
\*   marg = 1 iff the spatial and magnitude marginals and the total of the observed data agree.
\* Identifier 0 is the factor 1 (freshly loaded forecast).  The replay mirrors GriddedData.tla: the object holds
\* exactly the factor of the last call that installed one.
EXTENDS Integers, Sequences, TLC, Json, IOUtils
VARIABLES tid, l, cur
Traces == JsonDeserialize(IOEnv.TRACE_FILE)
T == Traces[tid]
TraceInit == tid \in 1..Len(Traces) /\ l = 1 /\ cur = 0
Step == /\ l <= Len(T)
        /\ LET c == T[l] IN
           /\ cur' = IF c.op \in {"scale", "date"} THEN c.f ELSE cur
           /\ c.ratio = cur'                    \* absolute: the data is base x the last factor, whatever came before
           /\ c.marg = 1
        /\ l' = l + 1 /\ UNCHANGED tid
TraceSpec == TraceInit /\ [][Step]_<<tid, l, cur>>
AcceptInv == (l = Len(T) + 1) => PrintT(<<"ACCEPT", tid>>)
Prog == PrintT(<<"PROG", tid, l>>)
=====================================================================================
