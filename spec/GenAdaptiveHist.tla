------------------------------ MODULE GenAdaptiveHist ------------------------------
\* spec -> code for X03: every insertion history of the bounded model, as the sequence of batches
EXTENDS AdaptiveHist, Json
VARIABLE batches
GInit == Init /\ batches = <<>>
GNext == \E b \in Batches : Add(b) /\ batches' = Append(batches, b)
GSpec == GInit /\ [][GNext]_<<vars, batches>>
Emit == (adds = MaxAdds) => PrintT(<<"CASE", ToJson([batches |-> batches])>>)
====================================================================================
