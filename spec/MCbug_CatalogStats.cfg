CONSTANTS
  MaxHist = 4
  Inits <- InitsQ
  StrRefreshes = FALSE
SPECIFICATION Spec
INVARIANT StaleStatsStillBound
INVARIANT BoundsHold
INVARIANT StrIsFresh
INVARIANT BValueDefined
INVARIANT AutoIsFresh
PROPERTY ObserversArePure
PROPERTY OnlyRemoves
CHECK_DEADLOCK FALSE
