CONSTANTS
  PosMin <- NegFour
  PosMax = 5
  MaxBatch = 2
  MaxAdds = 2
  CopiesOldCounts = TRUE
SPECIFICATION GSpec
INVARIANT Emit
CHECK_DEADLOCK FALSE
