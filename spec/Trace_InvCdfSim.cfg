CONSTANTS
  MaxBins = 1
  MaxW = 1
  MaxN = 0
  Side = "right"
  Rounded = TRUE
SPECIFICATION TraceSpec
INVARIANT AcceptInv
INVARIANT Prog
CHECK_DEADLOCK FALSE
