CONSTANTS
  Docs = {"a", "b", "c"}
  MaxOps = 5
  BackupKeepsOld = TRUE
SPECIFICATION Spec
INVARIANT LoadReturnsLastSaved
INVARIANT LoadFailsOnlyWhenEmpty
INVARIANT BackupsAreOverwrittenDocs
PROPERTY BackupsOnlyGrow
CHECK_DEADLOCK FALSE
