-------------------------------- MODULE Binning --------------------------------
\* C02 - 1-D binning: lower-inclusive, upper-exclusive, open top.
\*
\* Part 1 (property level): successive probes p of an axis with n edges; the answer idx must be a
\*   member of Axis!Allowed.  Invariants: HalfOpen, BelowIsOut, OpenTopAbsorbs, EdgeOpensItsBin,
\*   SingleEdgeIsOpen; action property Monotone.
\* Part 2 (design of the tolerance formula): the library computes
\*       floor((p - a0 + p_tol + a0_tol) / (h - h_tol))
\*   Modelled on integers: one unit = the magnitude of one tolerance term t, spacing H units,
\*   a value that is truly at x is seen as p = x + err with |err| <= 1 unit (the rounding the
\*   tolerance is meant to absorb).  TLC checks that the formula never puts a value at or above an
\*   edge below it, and that it moves a value up only inside a band of (k+3) units below an
\*   edge - the "grows linearly with the bin index" band of the property.
EXTENDS Axis, Integers, TLC

CONSTANTS MaxN,      \* largest number of edges
          H,         \* spacing in tolerance units (part 2)
          KMax       \* largest bin index explored in part 2

VARIABLES n, open, p, idx,          \* part 1
          x, err, fidx               \* part 2

vars == <<n, open, p, idx, x, err, fidx>>

Eff(nn, o) == IF nn = 1 THEN TRUE ELSE o        \* a single-edge grid is forced open-ended

\* ---------------------------------------------------------------- part 2: the formula on integers
FloorDiv(a, b) == a \div b                       \* TLC: floor division for b > 0
Formula(pp) == FloorDiv(pp + 2, H - 1)           \* a0 = 0; p_tol + a0_tol = 2 units; h_tol = 1 unit
TrueBin(xx) == FloorDiv(xx, H)
BelowNextEdge(xx) == (TrueBin(xx) + 1) * H - xx  \* distance to the next edge above

Init ==
    /\ n \in 1..MaxN /\ open \in BOOLEAN
    /\ p = -S
    /\ idx \in Allowed(n, Eff(n, open), p)
    /\ x = 0 /\ err \in -1..1
    /\ fidx = Formula(x + err)

Probe ==
    /\ x = 0
    /\ p < (n + 1) * S - 1
    /\ p' = p + 1
    /\ idx' \in Allowed(n, Eff(n, open), p')
    /\ UNCHANGED <<n, open, x, err, fidx>>

FormulaProbe ==
    /\ n = 1 /\ ~open /\ p = -S         \* the two parts are independent: explore part 2 from one part-1 state
    /\ x < (KMax + 1) * H
    /\ x' = x + 1
    /\ err' \in -1..1
    /\ fidx' = Formula(x' + err')
    /\ UNCHANGED <<n, open, p, idx>>

Next == Probe \/ FormulaProbe
Spec == Init /\ [][Next]_vars

\* ---------------------------------------------------------------- part 1 properties
HalfOpen == (C(p) # 5 /\ K(p) \in 0..(n - 1)) => idx = K(p)
BelowIsOut == (K(p) < 0 /\ C(p) # 5) => idx = -1
OpenTopAbsorbs == (Eff(n, open) /\ K(p) >= n - 1) => idx = n - 1
EdgeOpensItsBin == (C(p) = 0 /\ K(p) \in 0..(n - 1)) => idx = K(p)
ClosedTopIsOut == (~Eff(n, open) /\ K(p) >= n /\ C(p) # 5) => idx = -1
\* assignment is monotone: a later (larger) probe never gets a smaller in-range index, band cases
\* compared through the smallest / largest admissible answer
InRange(i) == i # -1
Monotone == [][(p' > p /\ InRange(idx) /\ InRange(idx')) =>
                 \/ idx' >= idx
                 \/ C(p) = 5]_vars

\* ---------------------------------------------------------------- part 2 properties
\* a value at or above an edge (after the worst rounding) is never put below that edge
NeverBelow == fidx >= TrueBin(x)
\* the formula lifts a value into the next bin only inside the linear band below the edge
LiftOnlyInBand == (fidx > TrueBin(x)) => (fidx = TrueBin(x) + 1 /\ BelowNextEdge(x) <= TrueBin(x) + 4)
=================================================================================
