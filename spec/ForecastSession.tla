------------------------------- MODULE ForecastSession -------------------------------
\* X08 - the life cycle of a GriddedForecast object (csep.core.forecasts): scaling, scaling to a test date, the derived
\* totals and marginals, rate look-ups for target events, copies and pickles - as one state machine.
\*
\* What is modelled is the one piece of state the object has besides its stored rates: the scale factor.  The stored
\* rates are a fixed 2 x 2 table the harness attaches; every observation the library returns is a function of
\* (stored rates, scale) and is recorded here as the scale term it must have been computed with:
\*
\*    [k |-> "q",     n |-> 6, d |-> 4]          the number 6/4 (set by scale(1.5))
\*    [k |-> "cells", n |-> 2, d |-> 8]          one factor per cell: 2/4 for the first, 8/4 for the second (array argument)
\*    [k |-> "frac",  n |-> N, d |-> D]          the fraction N/D of the forecast window elapsed at a test date
\*
\* The window fraction follows csep.utils.time_utils.decimal_year: a date is year + (day of the year)/(days in the year),
\* so with Unit = 365 * 366 every date at midnight is a whole number of 1/Unit years (exact in 32-bit integers for a few
\* decades around Year0), tests are taken to happen at the END of the test date (one day is added), and a test date on or
\* before the start / on or after the end leaves the forecast as it is.
\*
\* Deliberate deviation named as such: the docstring of scale_to_test_date says such dates "scale the forecast by unity";
\* the code returns the object unchanged, i.e. KEEPS an earlier scale.  The specification follows the code
\* (ToDateOutside) - see DESIGN.md 8b.
EXTENDS Integers, Sequences, FiniteSets, TLC, Civil

CONSTANTS MaxHist,
          Windows,          \* set of <<start, end>> with start, end = <<y, m, d>>; <<>> = a forecast without dates
          Dates,            \* test dates <<y, m, d>>
          ScaleAbsolute,    \* FALSE re-creates a slip (scale() multiplies the current factor): must be refuted
          AddOneDay         \* FALSE re-creates a slip (test taken at the start of the test date): must be refuted

VARIABLES obj,        \* [slot -> [alive, scale]]: slots "a" (the forecast the session starts with) and "b" (a copy, once made)
          focus,      \* the slot the next call acts on
          win,        \* the forecast's time window (shared by both objects; copies keep it)
          last,       \* outcome of the last call
          hist,
          outs        \* history: after every call [last, a, b, focus] - what the real objects must show (read by the harness)

vars == <<obj, focus, win, last, hist, outs>>

WindowsQ == { <<>>,
              << <<2019, 1, 1>>, <<2020, 1, 1>> >>,          \* one common year
              << <<2019, 11, 1>>, <<2020, 3, 1>> >>,         \* into a leap year, over its 29 February
              << <<2020, 2, 28>>, <<2020, 3, 2>> >>,         \* three days around the leap day
              << <<2023, 12, 31>>, <<2024, 1, 2>> >> }       \* two days across a year end (365 -> 366 day year)
DatesQ == { <<2018, 12, 31>>, <<2019, 1, 1>>, <<2019, 1, 2>>, <<2019, 6, 15>>, <<2019, 12, 31>>, <<2020, 1, 1>>,
            <<2020, 2, 28>>, <<2020, 2, 29>>, <<2020, 3, 1>>, <<2020, 3, 2>>, <<2023, 12, 31>>, <<2024, 1, 1>>, <<2024, 1, 2>> }

Year0 == 2000
Unit == 365 * 366
Day(t) == DaysFromCivil(t[1], t[2], t[3])
NextDay(t) == CivilFromDays(Day(t) + 1)
\* decimal year of midnight of date t, in units of 1/Unit years since Year0
DecYear(t) == (t[1] - Year0) * Unit + DayOfYear(t[1], t[2], t[3]) * (Unit \div DaysInYear(t[1]))

Q(n) == [k |-> "q", n |-> n, d |-> 4]
One == Q(4)
Cells == [k |-> "cells", n |-> 2, d |-> 8]
Frac(w, t) == [k |-> "frac",
               n |-> DecYear(IF AddOneDay THEN NextDay(t) ELSE t) - DecYear(w[1]),
               d |-> DecYear(w[2]) - DecYear(w[1])]
Inside(w, t) == Day(t) > Day(w[1]) /\ Day(t) < Day(w[2])

Other(s) == IF s = "a" THEN "b" ELSE "a"
None == [k |-> "none", s |-> One, days |-> 1]
Raised == [k |-> "raised", s |-> One, days |-> 1]
Out(kind, s, days) == [k |-> kind, s |-> s, days |-> days]

QSteps == {0, 1, 2, 4, 6, 12}
DateOps == {<<"to_date", t>> : t \in Dates}
Ops == {<<"scale_q", n>> : n \in QSteps} \cup {<<"scale_cells", 0>>} \cup DateOps
       \cup {<<o, 0>> : o \in {"total", "sc", "mc", "rates", "ter", "ter_day", "copy", "switch", "pickle", "scribble", "eval"}}

Observers == {"total", "sc", "mc", "rates", "ter", "ter_day", "scribble", "eval", "pickle"}

Init == /\ obj = [s \in {"a", "b"} |-> [alive |-> s = "a", scale |-> One]]
        /\ focus = "a" /\ win \in Windows /\ last = None /\ hist = <<>> /\ outs = <<>>

SetScale(s) == obj' = [obj EXCEPT ![focus].scale = s] /\ last' = None /\ UNCHANGED focus
Observe(o) == last' = o /\ UNCHANGED <<obj, focus>>
Cur == obj[focus].scale

\* product of two factors (only needed for the deliberately wrong cumulative variant)
Times(a, b) == IF a.k = "q" /\ b.k = "q" THEN [k |-> "q", n |-> a.n * b.n, d |-> a.d * b.d] ELSE b

Do(op) ==
    /\ Len(hist) < MaxHist
    /\ hist' = Append(hist, op)
    /\ win' = win
    /\ CASE op[1] = "scale_q" -> SetScale(IF ScaleAbsolute THEN Q(op[2]) ELSE Times(Cur, Q(op[2])))
         [] op[1] = "scale_cells" -> SetScale(Cells)
         \* comparing a datetime with None raises TypeError; outside the window the object is returned unchanged
         [] op[1] = "to_date" -> IF win = <<>> THEN Observe(Raised)
                                 ELSE IF Inside(win, op[2]) THEN SetScale(Frac(win, op[2]))
                                 ELSE Observe(None)                                           \* ToDateOutside
         \* observations: functions of (stored rates, current scale)
         [] op[1] \in {"total", "sc", "mc", "rates", "eval"} -> Observe(Out(op[1], Cur, 1))
         \* rates of the target events and the forecast total; scaled to one day they are divided by the whole days of the window
         [] op[1] = "ter" -> Observe(Out("ter", Cur, 1))
         [] op[1] = "ter_day" -> IF win = <<>> THEN Observe(Raised) ELSE Observe(Out("ter", Cur, Day(win[2]) - Day(win[1])))
         \* the other slot becomes a deep copy of this object
         [] op[1] = "copy" -> obj' = [obj EXCEPT ![Other(focus)] = [alive |-> TRUE, scale |-> Cur]] /\ last' = None /\ UNCHANGED focus
         [] op[1] = "switch" -> focus' = (IF obj[Other(focus)].alive THEN Other(focus) ELSE focus) /\ last' = None /\ UNCHANGED obj
         \* the object is replaced by what pickling and unpickling it gives; the arrays an observation returned are
         \* overwritten by the caller: nothing observable changes
         [] op[1] \in {"pickle", "scribble"} -> Observe(None)
    /\ outs' = Append(outs, [last |-> last', a |-> obj'["a"], b |-> obj'["b"], focus |-> focus'])

Next == \E op \in Ops : Do(op)
Spec == Init /\ [][Next]_vars

\* ------------------------------------------------------------------ properties
TypeOK == /\ focus \in {"a", "b"} /\ obj[focus].alive
          /\ \A s \in {"a", "b"} : obj[s].scale.k \in {"q", "cells", "frac"}

\* a window fraction is in (0, 1]: the forecast is never scaled up, never to nothing
FractionInUnit == \A s \in {"a", "b"} : obj[s].scale.k = "frac" => (0 < obj[s].scale.n /\ obj[s].scale.n <= obj[s].scale.d)
\* ... it grows strictly with the test date, and the last day inside the window gives the whole forecast
FractionMonotone == \A w \in Windows \ {<<>>} : \A t1, t2 \in Dates :
                        (Inside(w, t1) /\ Inside(w, t2) /\ Day(t1) < Day(t2)) => Frac(w, t1).n < Frac(w, t2).n
LastDayIsWhole == \A w \in Windows \ {<<>>} : \A t \in Dates : (Inside(w, t) /\ Day(t) + 1 = Day(w[2])) => Frac(w, t).n = Frac(w, t).d
\* whatever was reported was computed with the scale in force
ReportsCurrentScale == last.k \in {"total", "sc", "mc", "rates", "ter", "eval"} => last.s = obj[focus].scale

LastOp == hist'[Len(hist')]
ObserversArePure == [][(hist' # hist /\ LastOp[1] \in Observers) => obj' = obj]_vars
\* a call acts on the object in focus only (a copy is independent of its original)
Isolation == [][(hist' # hist /\ LastOp[1] # "copy") => obj'[Other(focus)] = obj[Other(focus)]]_vars
\* scale(x) sets the factor: it does not compound with an earlier one
ScaleSets == [][(hist' # hist /\ LastOp[1] = "scale_q") => obj'[focus].scale = Q(LastOp[2])]_vars
=====================================================================================
