---------------------------------- MODULE EvalConfig ----------------------------------
\* X12 - csep.models.EvaluationConfiguration: the registry of evaluation versions an experiment keeps next to its results
\* (name -> version, file names), with its dictionary form and its JSON form (repositories.write_json / load_json).
\*
\* State: up to two configuration objects ("a" the one the session starts with, "b" a copy once made), each a sequence of entries
\* [name, version, files] in order of first registration.
\*
\* Named behaviour of the code kept as it is (and checked against the real object):
\*   ALIAS   from_dict(to_dict()) does not copy the entry list: the copy and the original share it, so an update through one
\*           is seen through the other - unless the list is empty at that moment (the constructor replaces an empty list by a
\*           new one; the recorded sessions of the real object showed this).  A copy through a JSON file is independent.
\*   DUP     a configuration constructed from a list that names an evaluation twice keeps both entries; update_version rewrites
\*           every entry of that name, the getters answer from the first.
EXTENDS Integers, Sequences, FiniteSets, TLC

CONSTANTS Names, Versions, MaxHist, Starts,
          DictCopyAliases        \* TRUE: the code (ALIAS).  FALSE re-creates the model one would have guessed: must be refuted by the real object, and
                                 \* - as a model - by Independence below

VARIABLES store,      \* list id -> sequence of entries; the two objects may point to the same list
          ptr,        \* object -> list id (0 = the object does not exist)
          focus, last, hist, outs,
          start       \* the list the session started from (read by the harness)
vars == <<store, ptr, focus, last, hist, outs, start>>

Entry(n, v) == [name |-> n, version |-> v]
StartsQ == { <<>>, <<Entry("n1", 1)>>, <<Entry("n1", 1), Entry("n2", 1)>>, <<Entry("n1", 1), Entry("n1", 2)>> }      \* the last: DUP

Other(o) == IF o = "a" THEN "b" ELSE "a"
None == [k |-> "none", v |-> 0]
Out(kind, v) == [k |-> kind, v |-> v]
Cur == store[ptr[focus]]

\* first entry of that name, 0 if none
FirstIdx(s, n) == IF \E i \in 1..Len(s) : s[i].name = n THEN CHOOSE i \in 1..Len(s) : s[i].name = n /\ \A j \in 1..(i - 1) : s[j].name # n ELSE 0
Get(s, n) == IF FirstIdx(s, n) = 0 THEN 0 ELSE s[FirstIdx(s, n)].version             \* 0 = None
Update(s, n, v) == IF FirstIdx(s, n) = 0 THEN Append(s, Entry(n, v))
                   ELSE [i \in 1..Len(s) |-> IF s[i].name = n THEN Entry(n, v) ELSE s[i]]

Ops == {<<"update", n, v>> : n \in Names, v \in Versions} \cup {<<"get", n, 0>> : n \in Names} \cup {<<"files", n, 0>> : n \in Names}
       \cup {<<o, "-", 0>> : o \in {"copy_dict", "copy_json", "switch", "names"}}

Init == \E s \in Starts : /\ store = [i \in 1..2 |-> IF i = 1 THEN s ELSE <<>>]
                              /\ ptr = [o \in {"a", "b"} |-> IF o = "a" THEN 1 ELSE 0]
                              /\ focus = "a" /\ last = None /\ hist = <<>> /\ outs = <<>> /\ start = s

Do(op) ==
    /\ Len(hist) < MaxHist
    /\ hist' = Append(hist, op) /\ start' = start
    /\ CASE op[1] = "update" -> /\ store' = [store EXCEPT ![ptr[focus]] = Update(Cur, op[2], op[3])]
                                /\ last' = None /\ UNCHANGED <<ptr, focus>>
         [] op[1] = "get" -> last' = Out("version", Get(Cur, op[2])) /\ UNCHANGED <<store, ptr, focus>>
         \* the file names registered with a version are the harness's rendering of that version: same look-up
         [] op[1] = "files" -> last' = Out("files", Get(Cur, op[2])) /\ UNCHANGED <<store, ptr, focus>>
         [] op[1] = "names" -> last' = Out("names", Len(Cur)) /\ UNCHANGED <<store, ptr, focus>>
         \* the other object becomes a copy of this one: through the dictionary form (same list) or through a JSON file (new list)
         [] op[1] = "copy_dict" -> /\ IF DictCopyAliases /\ Cur # <<>> THEN ptr' = [ptr EXCEPT ![Other(focus)] = ptr[focus]] /\ store' = store
                                      ELSE ptr' = [ptr EXCEPT ![Other(focus)] = 3 - ptr[focus]] /\ store' = [store EXCEPT ![3 - ptr[focus]] = Cur]
                                   /\ last' = None /\ focus' = focus
         [] op[1] = "copy_json" -> /\ ptr' = [ptr EXCEPT ![Other(focus)] = 3 - ptr[focus]]
                                   /\ store' = [store EXCEPT ![3 - ptr[focus]] = Cur]
                                   /\ last' = None /\ focus' = focus
         [] op[1] = "switch" -> focus' = (IF ptr[Other(focus)] # 0 THEN Other(focus) ELSE focus) /\ last' = None /\ UNCHANGED <<store, ptr>>
    /\ outs' = Append(outs, [last |-> last', a |-> IF ptr'["a"] = 0 THEN <<>> ELSE store'[ptr'["a"]],
                             b |-> IF ptr'["b"] = 0 THEN <<>> ELSE store'[ptr'["b"]], hasb |-> ptr'["b"] # 0, focus |-> focus'])

Next == \E op \in Ops : Do(op)
Spec == Init /\ [][Next]_vars

\* ------------------------------------------------------------------ properties
ListOf(o) == store[ptr[o]]
NamesOf(s) == {s[i].name : i \in 1..Len(s)}
\* no call adds a second entry for a name: the surplus of entries over names never grows (it is 1 for the DUP start, else 0)
Surplus(s) == Len(s) - Cardinality(NamesOf(s))
NoNewDuplicates == \A o \in {"a", "b"} : ptr[o] # 0 => Surplus(ListOf(o)) <= 1
\* after update(n, v) the getter answers v, whatever the list looked like (also with duplicates)
LastOp == hist'[Len(hist')]
GetAfterUpdate == [][(hist' # hist /\ LastOp[1] = "update") => Get(store'[ptr'[focus']], LastOp[2]) = LastOp[3]]_vars
\* an update leaves every other name's answer and the order of first registration alone
UpdateKeepsOthers == [][(hist' # hist /\ LastOp[1] = "update") =>
                          \A n \in Names \ {LastOp[2]} : Get(store'[ptr'[focus']], n) = Get(store[ptr[focus]], n)]_vars
OrderKept == [][(hist' # hist /\ LastOp[1] = "update") =>
                  \A i \in 1..Len(store[ptr[focus]]) : store'[ptr'[focus']][i].name = store[ptr[focus]][i].name]_vars
\* queries change nothing
QueriesArePure == [][(hist' # hist /\ LastOp[1] \in {"get", "files", "names", "switch"}) => (store' = store /\ ptr' = ptr)]_vars
\* what one would expect of ANY copy - it does not hold for the dictionary form (ALIAS): checked with DictCopyAliases = FALSE only
Independence == [][(hist' # hist /\ LastOp[1] = "update" /\ ptr[Other(focus)] # 0) => store'[ptr'[Other(focus)]] = store[ptr[Other(focus)]]]_vars
======================================================================================
