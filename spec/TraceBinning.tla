------------------------------ MODULE TraceBinning ------------------------------
\* code -> spec for C02 (also used by C01/C03/C11 for single-axis observations):
\* a trace record is <<n, open, pos, idx>>: a value whose exact class on an n-edge axis is pos
\* (Axis.tla) was reported in bin idx by the library.  Records are aggregated to distinct tuples.
EXTENDS Axis, Integers, Sequences, TLC, Json, IOUtils

VARIABLES tid, done
Traces == JsonDeserialize(IOEnv.TRACE_FILE)
T == Traces[tid]
Eff(nn, o) == IF nn = 1 THEN TRUE ELSE o

TraceInit == tid \in 1..Len(Traces) /\ done = FALSE
TraceNext == /\ ~done
             /\ T[4] \in Allowed(T[1], Eff(T[1], T[2] = 1), T[3])
             /\ done' = TRUE /\ UNCHANGED tid
TraceSpec == TraceInit /\ [][TraceNext]_<<tid, done>>
AcceptInv == done => PrintT(<<"ACCEPT", tid>>)
=================================================================================
