-------------------------------- MODULE InvCdfSim --------------------------------
\* C06 - simulated catalogs follow the forecast by exact inverse-CDF and conserve counts.
\*
\* Rates are integer weights wt[1..n] (zeros allowed anywhere), W their sum, Cum(k) the cumulative
\* sums.  A uniform draw is a position u on the axis 0 .. 4*W-1: unit j = u \div 4 is the interval
\* [j, j+1) of the cumulative axis and u % 4 its sub-position
\*      0 exactly on the lower end    1 just above it    2 interior    3 just below the upper end
\* ("just" = within the rounding of the float cumulative weights).
\*  SpecPlace(u)   the bin k with Cum(k-1) <= u/4 < Cum(k)                 (the property)
\*  Near(u)        u is within rounding of a cumulative boundary: when the cumulative floats are not
\*                 exact (Rounded = TRUE) either adjacent positive-rate bin is admissible there
\*  ImplPlace(u)   searchsorted(cumulative weights, u, side = Side)       (the library)
\* Poisson-type simulation: N draws, counts accumulated.  Binary-type simulation: draws repeated until
\* Target distinct bins are active (rejection loop).
EXTENDS Integers, Sequences, FiniteSets, TLC

CONSTANTS MaxBins, MaxW,     \* number of bins, largest weight
          MaxN,              \* number of events / active cells to simulate
          Side,              \* "right" (the library) or "left" (a control that must be refuted)
          Rounded            \* cumulative floats inexact: near-boundary draws may go either way

VARIABLES wt, kindv, target, drawn, counts, active, lastu

vars == <<wt, kindv, target, drawn, counts, active, lastu>>

N == Len(wt)
RECURSIVE Cum(_)
Cum(k) == IF k = 0 THEN 0 ELSE wt[k] + Cum(k - 1)
W == Cum(N)
Positive == {k \in 1..N : wt[k] > 0}

SpecPlace(u) == CHOOSE k \in 1..N : 4 * Cum(k - 1) <= u /\ u < 4 * Cum(k)
\* boundary (in units) adjacent to u, if u is within rounding of one: 0 if none
BoundaryNear(u) ==
    IF u % 4 \in {0, 1} /\ (u \div 4) \in {Cum(k) : k \in 0..N} THEN u \div 4
    ELSE IF u % 4 = 3 /\ ((u \div 4) + 1) \in {Cum(k) : k \in 0..N} THEN (u \div 4) + 1
    ELSE -1
LowerBin(b) == CHOOSE k \in Positive : Cum(k) = b                     \* positive bin ending at boundary b
UpperBin(b) == CHOOSE k \in Positive : Cum(k - 1) = b                 \* positive bin starting at boundary b
Allowed(u) ==
    LET b == BoundaryNear(u) IN
    IF Rounded /\ b > 0 /\ b < W THEN {LowerBin(b), UpperBin(b)} ELSE {SpecPlace(u)}

\* searchsorted over the cumulative weights (0-based insertion index) -> 1-based bin
ImplPlace(u) ==
    IF Side = "right" THEN Cardinality({k \in 1..N : 4 * Cum(k) <= u}) + 1
    ELSE Cardinality({k \in 1..N : 4 * Cum(k) < u}) + 1

Draws == 0..(4 * W - 1)

Init ==
    /\ wt \in UNION {[1..n -> 0..MaxW] : n \in 1..MaxBins}
    /\ W > 0
    /\ kindv \in {"poisson", "binary"}
    /\ target \in 0..MaxN
    /\ (kindv = "binary") => target <= Cardinality(Positive)
    /\ drawn = 0
    /\ counts = [k \in 1..N |-> 0]
    /\ active = {}
    /\ lastu = 0

\* Poisson-type: exactly target draws, each accumulated where it lands
DrawPoisson(u) ==
    /\ kindv = "poisson" /\ drawn < target
    /\ counts' = [counts EXCEPT ![ImplPlace(u)] = @ + 1]
    /\ drawn' = drawn + 1 /\ lastu' = u
    /\ UNCHANGED <<wt, kindv, target, active>>

\* binary-type rejection loop: a draw landing in an inactive bin activates it
DrawBinary(u) ==
    /\ kindv = "binary" /\ Cardinality(active) < target
    /\ active' = active \cup {ImplPlace(u)}
    /\ counts' = [counts EXCEPT ![ImplPlace(u)] = 1]
    /\ UNCHANGED <<wt, kindv, target, drawn, lastu>>      \* rejected draws are not counted: the loop is unbounded

Next == \E u \in Draws : DrawPoisson(u) \/ DrawBinary(u)
Activating == \E u \in Draws : DrawBinary(u) /\ ImplPlace(u) \notin active
Spec == Init /\ [][Next]_vars /\ WF_vars(Activating)


\* ------------------------------------------------------------------ properties
RECURSIVE SumC(_)
SumC(k) == IF k = 0 THEN 0 ELSE counts[k] + SumC(k - 1)
PlaceIsInverseCdf == \A u \in Draws : ImplPlace(u) \in 1..N /\ ImplPlace(u) = SpecPlace(u)
NeverZeroRateBin == \A k \in 1..N : counts[k] > 0 => wt[k] > 0
UniqueBin == \A u \in Draws : Cardinality({k \in 1..N : 4 * Cum(k - 1) <= u /\ u < 4 * Cum(k)}) = 1
Conserved == (kindv = "poisson" /\ drawn = target) => SumC(N) = target
DistinctActiveCells == kindv = "binary" => (Cardinality(active) <= target /\ SumC(N) = Cardinality(active))
AllowedIsSound == \A u \in Draws : SpecPlace(u) \in Allowed(u) /\ Allowed(u) \subseteq Positive
Terminates == (kindv = "binary") => <>(Cardinality(active) = target)
===================================================================================
