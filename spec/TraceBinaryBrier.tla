----------------------------- MODULE TraceBinaryBrier -----------------------------
\* code -> spec for C16: TLC returns, for a real forecast / observation / captured simulated activity arrays,
\* the expression the statistic must equal (same scheme as TracePoissonLL).
EXTENDS BinaryBrier, Json, IOUtils
VARIABLES tid
Traces == JsonDeserialize(IOEnv.TRACE_FILE)
T == Traces[tid]
TraceInit == tid \in 1..Len(Traces) /\ rid = T.rid /\ w = T.w /\ kind = T.kind
TraceSpec == TraceInit /\ [][UNCHANGED <<vars, tid>>]_<<vars, tid>>
Expect == PrintT(<<"EXPECT", ToJson([tid |-> tid, obs |-> Stat(kind, rid, w),
                                     sims |-> [i \in 1..Len(T.sims) |-> Stat(kind, rid, T.sims[i])]])>>)
===================================================================================
