CONSTANTS
  NX = 2
  NY = 2
  MaxM = 2
SPECIFICATION Spec
INVARIANT LookupMatchesRow
INVARIANT MagsAreLowerEdges
INVARIANT FlagZeroOutside
INVARIANT NoRateLost
CHECK_DEADLOCK FALSE
