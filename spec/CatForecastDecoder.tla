-------------------------- MODULE CatForecastDecoder --------------------------
(* C12 - decoding of a catalog-forecast CSV file                              *)
(*                                                                           *)
(* The file is a sequence of lines.  A line is a record [k, cid, e]:         *)
(*    k = "hdr"  header line (cid = -1, e = 0)                                *)
(*    k = "ev"   an event of catalog cid; e is the event's identity (> 0)     *)
(*    k = "ph"   placeholder row of an empty catalog cid (e = 0)              *)
(* The decoder mirrors csep.core.catalogs.CSEPCatalog.load_ascii_catalogs:    *)
(* one action per branch of its loop.  out is what has been yielded so far. *)
(* The property - what the file means - is truth, chosen in Init together   *)
(* with one of its admissible encodings.                                      *)
EXTENDS Integers, Sequences, FiniteSets, TLC

CONSTANTS MaxCat,      \* maximum number of catalogs
          MaxEv        \* maximum number of events per catalog

VARIABLES file,        \* the encoded file (sequence of lines)
          truth,       \* sequence (index i <-> catalog id i-1) of sequences of event ids
          mode,        \* "wf" well-formed, "dec" two adjacent lines with different ids swapped
          pos,         \* next line to read (1-based)
          prev,        \* prev_id of the code; -1 stands for None
          pending,     \* events accumulated for catalog prev
          out,         \* yielded catalogs: sequence of [id, evs]
          status       \* "run" | "done" | "rejected"

vars == <<file, truth, mode, pos, prev, pending, out, status>>

Hdr == [k |-> "hdr", cid |-> -1, e |-> 0]
Ev(c, x) == [k |-> "ev", cid |-> c, e |-> x]
Ph(c) == [k |-> "ph", cid |-> c, e |-> 0]

EvId(i, j) == (i - 1) * MaxEv + j          \* identity of event j of the i-th catalog

CatLines(i, sz, ph) ==
    IF sz = 0 THEN (IF ph THEN <<Ph(i - 1)>> ELSE <<>>)
    ELSE [j \in 1..sz |-> Ev(i - 1, EvId(i, j))]

RECURSIVE Enc(_, _, _, _)
Enc(i, n, sizes, phs) ==
    IF i > n THEN <<>> ELSE CatLines(i, sizes[i], phs[i]) \o Enc(i + 1, n, sizes, phs)

Truth(n, sizes) == [i \in 1..n |-> [j \in 1..sizes[i] |-> EvId(i, j)]]

Swap(f, s) == [i \in 1..Len(f) |-> IF i = s THEN f[s + 1] ELSE IF i = s + 1 THEN f[s] ELSE f[i]]

(* Admissible encodings: every empty catalog is either a placeholder row or  *)
(* omitted, except the last catalog, whose id is always present.              *)
Encodings ==
    { [n |-> n, sizes |-> sizes, phs |-> phs] :
        n \in 1..MaxCat, sizes \in [1..MaxCat -> 0..MaxEv], phs \in [1..MaxCat -> BOOLEAN] }

WellFormedChoice(c) ==
    /\ \A i \in 1..MaxCat : i > c.n => (c.sizes[i] = 0 /\ c.phs[i] = FALSE)   \* canonical padding
    /\ \A i \in 1..c.n : c.sizes[i] > 0 => c.phs[i] = FALSE
    /\ c.sizes[c.n] = 0 => c.phs[c.n] = TRUE

Init ==
    /\ \E c \in Encodings, hdr \in BOOLEAN, m \in {"wf", "dec"} :
         /\ WellFormedChoice(c)
         /\ LET body == Enc(1, c.n, c.sizes, c.phs) IN
            \E s \in 0..(Len(body) - 1) :
               /\ (m = "wf") <=> (s = 0)
               /\ s > 0 => body[s].cid # body[s + 1].cid
               /\ file = (IF hdr THEN <<Hdr>> ELSE <<>>) \o (IF s = 0 THEN body ELSE Swap(body, s))
         /\ truth = Truth(c.n, c.sizes)
         /\ mode = m
    /\ pos = 1
    /\ prev = -1
    /\ pending = <<>>
    /\ out = <<>>
    /\ status = "run"

Line == file[pos]
IsEmptyRow(l) == l.k = "ph"
Fresh(l) == IF IsEmptyRow(l) THEN <<>> ELSE <<l.e>>
Empties(a, b) == [i \in 1..(b - a + 1) |-> [id |-> a + i - 1, evs |-> <<>>]]   \* ids a..b

Reading == status = "run" /\ pos <= Len(file)

(* if prev_id is None: if is_header_line(line): continue *)
SkipHeader ==
    /\ Reading /\ prev = -1 /\ Line.k = "hdr"
    /\ pos' = pos + 1
    /\ UNCHANGED <<file, truth, mode, prev, pending, out, status>>

(* first data line whose id is 0: falls through to the catalog_id == prev_id branch *)
FirstZero ==
    /\ Reading /\ prev = -1 /\ Line.k # "hdr" /\ Line.cid = 0
    /\ prev' = 0
    /\ pending' = Fresh(Line)
    /\ pos' = pos + 1
    /\ UNCHANGED <<file, truth, mode, out, status>>

(* first data line with id > 0: all earlier catalogs are synthesised as empty *)
FirstGap ==
    /\ Reading /\ prev = -1 /\ Line.k # "hdr" /\ Line.cid > 0
    /\ out' = Empties(0, Line.cid - 1)
    /\ pending' = Fresh(Line)
    /\ prev' = Line.cid
    /\ pos' = pos + 1
    /\ UNCHANGED <<file, truth, mode, status>>

Same ==
    /\ Reading /\ prev >= 0 /\ Line.cid = prev
    /\ pending' = pending \o Fresh(Line)
    /\ pos' = pos + 1
    /\ UNCHANGED <<file, truth, mode, prev, out, status>>

NextId ==
    /\ Reading /\ prev >= 0 /\ Line.cid = prev + 1
    /\ out' = Append(out, [id |-> prev, evs |-> pending])
    /\ pending' = Fresh(Line)
    /\ prev' = Line.cid
    /\ pos' = pos + 1
    /\ UNCHANGED <<file, truth, mode, status>>

Gap ==
    /\ Reading /\ prev >= 0 /\ Line.cid > prev + 1
    /\ out' = Append(out, [id |-> prev, evs |-> pending]) \o Empties(prev + 1, Line.cid - 1)
    /\ pending' = Fresh(Line)
    /\ prev' = Line.cid
    /\ pos' = pos + 1
    /\ UNCHANGED <<file, truth, mode, status>>

Reject ==
    /\ Reading /\ prev >= 0 /\ Line.cid < prev
    /\ status' = "rejected"
    /\ UNCHANGED <<file, truth, mode, pos, prev, pending, out>>

Finish ==
    /\ status = "run" /\ pos > Len(file)
    /\ out' = Append(out, [id |-> prev, evs |-> pending])
    /\ status' = "done"
    /\ UNCHANGED <<file, truth, mode, pos, prev, pending>>

Next == SkipHeader \/ FirstZero \/ FirstGap \/ Same \/ NextId \/ Gap \/ Reject \/ Finish

Spec == Init /\ [][Next]_vars

-------------------------------------------------------------------------------
(* What out means as a list of catalogs *)
AsTruth(o) == [i \in 1..Len(o) |-> o[i].evs]

DecodeCorrect ==
    (mode = "wf" /\ status = "done") =>
        /\ Len(out) = Len(truth)
        /\ AsTruth(out) = truth

IdsContiguous == \A i \in 1..Len(out) : out[i].id = i - 1

(* what has been yielded is final: a streaming consumer never sees a catalog change *)
PrefixOfTruth ==
    mode = "wf" =>
        /\ Len(out) <= Len(truth)
        /\ \A i \in 1..Len(out) : out[i].evs = truth[i]

NeverRejectsWellFormed == mode = "wf" => status # "rejected"

RejectsDecreasing == (mode = "dec" /\ status # "run") => status = "rejected"

YieldedIsFinal == [][\A i \in 1..Len(out) : i <= Len(out') /\ out'[i] = out[i]]_vars

Terminal == status # "run"
===============================================================================
