-------------------------------- MODULE GenPersist --------------------------------
EXTENDS Persist, Json
\* one case per complete history: the source catalog is recoverable as the initial object, so it is carried along
VARIABLE src
GInit == Init /\ src = obj
GNext == Next /\ UNCHANGED src
GSpec == GInit /\ [][GNext]_<<vars, src>>
Emit == (Len(hist) = MaxHist) =>
    PrintT(<<"CASE", ToJson([src |-> src, hist |-> hist, obj |-> obj, file |-> file])>>)
===================================================================================
