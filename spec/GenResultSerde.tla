------------------------------ MODULE GenResultSerde ------------------------------
EXTENDS ResultSerde, Json
Emit == (loaded # NoRes) => PrintT(<<"CASE", ToJson([res |-> res, loaded |-> loaded])>>)
===================================================================================
