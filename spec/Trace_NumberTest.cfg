CONSTANTS
  MaxN = 0
  MaxCat = 1
  MaxSize = 0
SPECIFICATION TraceSpec
INVARIANT Out
CHECK_DEADLOCK FALSE
