---------------------------------- MODULE Readers ----------------------------------
\* C19 - catalog readers decode every well-formed record of each supported format.
\* A record is the civil time written in the file [y, mo, d, h, mi, s, ms, off] (s may be 60; off = UTC offset in
\* minutes, non-zero only for JMA) plus coordinates / depth / magnitude that must come through unchanged.  Each
\* format has a resolution: csep-csv and jma-csv keep milliseconds, zmap / ndk / ingv_horus whole seconds.
\* Expected(r, fmt) is the instant <<day, ms>> the loaded event must carry.
EXTENDS Civil, Integers, Sequences, TLC

VARIABLES rec, fmt
vars == <<rec, fmt>>

Plus0(x, k) == LET tot == x[2] + k
                   dd == FloorDiv(tot, MsPerDay) IN <<x[1] + dd, tot - dd * MsPerDay>>
Formats == {"csep-csv", "zmap", "jma-csv", "ingv_horus", "ndk"}
MsKept(f) == f \in {"csep-csv", "jma-csv"}
Instant(r) == Normalise(r.y, r.mo, r.d, r.h, r.mi, r.s, r.ms, r.off)
Truncate(x) == <<x[1], x[2] - (x[2] % 1000)>>
Expected(r, f) == IF MsKept(f) THEN Instant(r) ELSE Truncate(Instant(r))

\* boundary records: ends of minute / hour / day / month / year / leap day, with the second written as 59 or 60
Ends == { <<2019, 12, 31, 23, 59>>, <<2020, 2, 28, 23, 59>>, <<2020, 2, 29, 23, 59>>, <<2021, 2, 28, 23, 59>>,
          <<1999, 12, 31, 23, 59>>, <<1969, 12, 31, 23, 59>>, <<2010, 6, 30, 12, 59>>, <<2010, 6, 15, 7, 30>>,
          <<2100, 2, 28, 23, 59>>, <<1900, 2, 28, 23, 59>>, <<2000, 2, 29, 0, 0>> }
Init == /\ fmt \in Formats
        /\ \E e \in Ends, s \in {0, 59, 60}, ms \in {0, 1, 999}, off \in {0, 540, -300} :
             /\ (off # 0 => fmt = "jma-csv")
             /\ (s = 60 => fmt \in {"ndk", "ingv_horus"} /\ ms = 0)
             /\ rec = [y |-> e[1], mo |-> e[2], d |-> e[3], h |-> e[4], mi |-> e[5], s |-> s, ms |-> ms, off |-> off]
Next == UNCHANGED vars
Spec == Init /\ [][Next]_vars

NextMinuteStart(r) == Normalise(r.y, r.mo, r.d, r.h, r.mi + 1, 0, 0, r.off)
RolloverCorrect == (rec.s = 60) => Expected(rec, fmt) = NextMinuteStart(rec)
OffsetCorrect == Instant(rec) = Plus0(Normalise(rec.y, rec.mo, rec.d, rec.h, rec.mi, rec.s, rec.ms, 0), -rec.off * 60000)
ResolutionCorrect == /\ Expected(rec, fmt)[2] \in 0..(MsPerDay - 1)
                     /\ (~MsKept(fmt) => Expected(rec, fmt)[2] % 1000 = 0)
                     /\ (MsKept(fmt) => Expected(rec, fmt) = Instant(rec))
DateValid == LET c == CivilFromDays(Expected(rec, fmt)[1]) IN c[2] \in 1..12 /\ c[3] \in 1..DaysInMonth(c[1], c[2])
====================================================================================
