CONSTANTS
  U = 8
  Lattice <- LatticeDef
  Factors <- FactorsDef
  HalfStep = TRUE
SPECIFICATION Spec
INVARIANT Tiling
INVARIANT CountLaw
INVARIANT OnLattice
INVARIANT SpacingLaw
INVARIANT AcceptsExactlyPowersOfTwo
INVARIANT KeepsParentOrigins
INVARIANT NeverStuck
CHECK_DEADLOCK FALSE
