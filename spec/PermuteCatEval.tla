------------------------------- MODULE PermuteCatEval -------------------------------
\* C20 (catalog part) - re-ordering the synthetic catalogs of a forecast, or the events of the observed catalog, leaves
\* every observed statistic unchanged and every simulation-free test distribution unchanged as a multiset.
EXTENDS CatEval

Count2(s, x) == Cardinality({i \in 1..Len(s) : s[i] = x})
SameBag(a, b) == Len(a) = Len(b) /\ \A i \in 1..Len(a) : Count2(a, a[i]) = Count2(b, a[i])
SwapAt(s, r) == [i \in 1..Len(s) |-> IF i = r THEN s[r + 1] ELSE IF i = r + 1 THEN s[r] ELSE s[i]]
SameResult(a, b) == a.status = b.status /\ a.present = b.present /\ a.stat = b.stat /\ SameBag(a.dist, b.dist)

\* the model's catalogs are kept sorted, so the events of the observation are re-ordered through the catalogs only
PNext == \E r \in 1..(Len(cats) - 1) : cats' = SwapAt(cats, r) /\ UNCHANGED obs
PSpec == Init /\ [][PNext]_vars
Snapshot(c, o) == <<NTest, STest, PLTest, MTest, RMObs, MLLObs>>
ResultsInvariant ==
    [][/\ SameResult(NTest', NTest) /\ SameResult(STest', STest) /\ SameResult(PLTest', PLTest)
       /\ SameResult(MTest', MTest) /\ SameResult(RMObs', RMObs) /\ SameResult(MLLObs', MLLObs)]_vars
=====================================================================================
