------------------------------ MODULE GenForecastFile ------------------------------
EXTENDS ForecastFile, Json
Emit == PrintT(<<"CASE", ToJson([nx |-> nx, ny |-> ny, nm |-> nm, file |-> file, cmap |-> CMap, data |-> Data])>>)
====================================================================================
