----------------------------- MODULE TraceAdaptiveHist -----------------------------
\* code -> spec for X03.  A trace is the sequence of insertions made on a real AdaptiveHistogram, each with the projected
\* state afterwards: [batch, lo, hi, cnt] - batch as lattice positions, lo / hi the lattice indices of the first / last
\* bin edge the object holds (lo = 1, hi = 0 while empty), cnt the counts in edge order.
EXTENDS AdaptiveHist, Json, IOUtils
VARIABLES tid, l
Traces == JsonDeserialize(IOEnv.TRACE_FILE)
T == Traces[tid]
TraceInit == tid \in 1..Len(Traces) /\ Init /\ l = 1
Step == /\ l <= Len(T)
        /\ LET r == T[l] IN
             /\ Add(r.batch)
             /\ lo' = r.lo /\ hi' = r.hi
             /\ Len(r.cnt) = r.hi - r.lo + 1
             /\ \A k \in r.lo..r.hi : cnt'[k] = r.cnt[k - r.lo + 1]
        /\ l' = l + 1 /\ UNCHANGED tid
TraceSpec == TraceInit /\ [][Step]_<<vars, tid, l>>
AcceptInv == (l = Len(T) + 1) => PrintT(<<"ACCEPT", tid>>)
Prog == PrintT(<<"PROG", tid, l>>)
====================================================================================
