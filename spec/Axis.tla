---------------------------------- MODULE Axis ----------------------------------
\* D1 - the sub-unit lattice for one binning axis.
\* An axis has n edges e_0 < ... < e_(n-1) with equal spacing h; bin k = [e_k, e_k + h).
\* A position is an integer pos = k*S + c:  k = pos \div S is the bin the value lies in by exact
\* comparison with the edges (k = -1 below e_0, k >= n beyond the last closed bin) and c its class:
\*   0  exactly on the edge that opens bin k          1  a few ulps above it
\*   2,3 interior                                      4  below the next edge, outside the tolerance band
\*   5  inside the library's documented round-off band immediately below the next edge
\* "open" = the last bin extends to infinity (right_continuous).
\* Answer = the set of indices the property allows (-1 = out of range).
EXTENDS Integers

S == 6

K(pos) == pos \div S          \* floor division: K(-1) = -1
C(pos) == pos % S

\* index reported for a value whose containing bin is k (exact arithmetic, no tolerance)
BinIndex(n, open, k) ==
    IF k < 0 THEN -1
    ELSE IF k >= n THEN (IF open THEN n - 1 ELSE -1)
    ELSE k

Allowed(n, open, pos) ==
    IF C(pos) = 5
    THEN {BinIndex(n, open, K(pos)), BinIndex(n, open, K(pos) + 1)}
    ELSE {BinIndex(n, open, K(pos))}

Pos(n) == (-S)..((n + 1) * S - 1)      \* one bin-width below the first edge .. one beyond the last closed bin
=================================================================================
