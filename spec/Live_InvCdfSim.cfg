CONSTANTS
  MaxBins = 3
  MaxW = 1
  MaxN = 2
  Side = "right"
  Rounded = FALSE
SPECIFICATION Spec
PROPERTY Terminates
CHECK_DEADLOCK FALSE
