CONSTANTS
  NCell = 2
  NBin = 2
  MaxCat = 3
  MaxEv = 2
SPECIFICATION Spec
INVARIANT Emit
CHECK_DEADLOCK FALSE
