CONSTANTS
  NX = 3
  NY = 2
  MaxFlagged = 1
  CloseSingle = TRUE
SPECIFICATION Spec
INVARIANT Emit
CHECK_DEADLOCK FALSE
