------------------------------ MODULE GenPoissonLL ------------------------------
EXTENDS PoissonLL, Json
Emit == PrintT(<<"CASE", ToJson([kind |-> kind, rid |-> rid, w |-> w, stat |-> Stat(kind, rid, w)])>>)
=================================================================================
