------------------------------- MODULE TracePairedTW -------------------------------
\* code -> spec for C08.  Record kinds:
\*   "t"  [bins, same, an, ad, binary]: the bins the observed events fall in (all forecasts of a batch have NBins bins; bin
\*        j has rate id j in A and NBins + j in B, or j in both when a forecast is compared with itself); TLC answers with
\*        the XR of information gain, t statistic, critical value and interval - for the binary variant over the active
\*        bins - both for (A, B) and for the swapped call (B, A).
\*   "w"  [pat]: signs and weak order of the differences (computed by the harness at 50 digits from the exact rates);
\*        TLC answers with the XR of z and p and the exact integers behind them.
EXTENDS PairedTW, Json, IOUtils
VARIABLES tid
Traces == JsonDeserialize(IOEnv.TRACE_FILE)
T == Traces[tid]
TraceInit == /\ tid \in 1..Len(Traces)
             /\ ev = T.bins /\ same = T.same /\ pat = T.pat
TraceSpec == TraceInit /\ [][UNCHANGED <<vars, tid>>]_<<vars, tid>>
Bins == IF T.binary THEN Active(ev) ELSE ev
Expect ==
    IF T.kind = "t"
    THEN PrintT(<<"EXPECT", ToJson([tid |-> tid, ab |-> TTestA(AllA, AllB, Bins, T.an, T.ad),
                                    ba |-> TTestA(AllB, AllA, Bins, T.an, T.ad), n |-> Len(Bins)])>>)
    ELSE PrintT(<<"EXPECT", ToJson([tid |-> tid, z |-> WZ(pat), p |-> WP(pat), n |-> Cnt(pat), t2 |-> T2(pat),
                                    znum4 |-> ZNum4(pat), varnum48 |-> VarNum48(pat)])>>)
====================================================================================
