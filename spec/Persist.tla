---------------------------------- MODULE Persist ----------------------------------
\* C14 - catalog persistence round trips preserve every event.
\*
\* A catalog object is [evs, cid, name, region]: a sequence of event identities (the harness attaches typed field
\* classes to them: ids with delimiters / quotes, pre-1970 and millisecond-phase times, 17-digit and extreme doubles),
\* an integer catalog id or None, a name, and whether a spatial region is attached.  The stores are an ASCII file (rows
\* carry the catalog id), a dictionary / JSON document (everything) and a DataFrame (events and catalog id).
\* Each operation either writes the current object to a store or replaces the current object by what a store holds.
\* What must survive is stated by `Survives`; what a format cannot carry (name and region in ASCII / DataFrame, the id
\* of an empty catalog in a row-based store) is reset to None.
EXTENDS Integers, Sequences, FiniteSets, TLC

CONSTANTS MaxHist, Cats

VARIABLES obj, file, fileValid, doc, docJson, df, hist

\* the catalogs of the bounded model: event identities 1..6 stand for typed field-class combinations (harness table)
O(e, c, n, r) == [evs |-> e, cid |-> c, name |-> n, region |-> r]
CatsQ == { O(<<>>, 3, 1, FALSE), O(<<>>, -1, -1, TRUE), O(<<1>>, 0, 1, TRUE), O(<<2, 3>>, 7, -1, FALSE),
           O(<<4, 5, 6>>, -1, 1, TRUE), O(<<6, 1, 4, 2>>, 12, 1, FALSE), O(<<3, 3>>, -4, -1, TRUE) }

vars == <<obj, file, fileValid, doc, docJson, df, hist>>

None == -1
NoObj == [evs |-> <<>>, cid |-> -7, name |-> -7, region |-> FALSE]      \* "nothing stored yet" (no catalog has these values)
Ops == {"write", "write_noheader", "append", "load_ascii", "to_dict", "from_dict", "write_json", "load_json", "to_df", "from_df"}

Rows(o) == [i \in 1..Len(o.evs) |-> <<o.evs[i], o.cid>>]
FromRows(rows) == [evs |-> [i \in 1..Len(rows) |-> rows[i][1]],
                   cid |-> IF Len(rows) = 0 THEN None ELSE rows[Len(rows)][2],       \* the loader keeps the last row's id
                   name |-> None, region |-> FALSE]

Init == /\ obj \in Cats
        /\ file = <<>> /\ fileValid = FALSE /\ doc = NoObj /\ docJson = NoObj /\ df = NoObj /\ hist = <<>>

Do(op) ==
    /\ Len(hist) < MaxHist
    /\ hist' = Append(hist, op)
    /\ CASE op \in {"write", "write_noheader"} -> file' = Rows(obj) /\ fileValid' = TRUE /\ UNCHANGED <<obj, doc, docJson, df>>
         [] op = "append" -> fileValid /\ file' = file \o Rows(obj) /\ UNCHANGED <<obj, fileValid, doc, docJson, df>>
         [] op = "load_ascii" -> fileValid /\ obj' = FromRows(file) /\ UNCHANGED <<file, fileValid, doc, docJson, df>>
         [] op = "to_dict" -> doc' = obj /\ UNCHANGED <<obj, file, fileValid, docJson, df>>
         [] op = "from_dict" -> doc # NoObj /\ obj' = doc /\ UNCHANGED <<file, fileValid, doc, docJson, df>>
         [] op = "write_json" -> docJson' = obj /\ UNCHANGED <<obj, file, fileValid, doc, df>>
         [] op = "load_json" -> docJson # NoObj /\ obj' = docJson /\ UNCHANGED <<file, fileValid, doc, docJson, df>>
         [] op = "to_df" -> df' = [obj EXCEPT !.name = None, !.region = FALSE] /\ UNCHANGED <<obj, file, fileValid, doc, docJson>>
         [] op = "from_df" -> df # NoObj /\ obj' = [df EXCEPT !.cid = IF Len(df.evs) = 0 THEN None ELSE df.cid]
                                /\ UNCHANGED <<file, fileValid, doc, docJson, df>>
Next == \E op \in Ops : Do(op)
Spec == Init /\ [][Next]_vars

\* ------------------------------------------------------------------ properties
\* events are never invented, dropped, duplicated or reordered except by an explicit append
EventsFromSource == \A i \in 1..Len(obj.evs) : \E c \in Cats : \E j \in 1..Len(c.evs) : c.evs[j] = obj.evs[i]
RoundTripIdentity == [][\A op \in {"from_dict", "load_json"} : hist' = Append(hist, op) =>
                          obj' = (IF op = "from_dict" THEN doc ELSE docJson)]_vars
AppendConcatenates == [][hist' = Append(hist, "append") => file' = file \o Rows(obj)]_vars
IdSurvives == [][(hist' = Append(hist, "load_ascii") /\ Len(file) > 0) => obj'.cid = file[Len(file)][2]]_vars
====================================================================================
