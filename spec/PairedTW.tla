---------------------------------- MODULE PairedTW ----------------------------------
\* C08 - paired T- and W-tests (Rhoades et al. 2011).
\*
\* Two forecasts A and B on a common set of NBins space-magnitude bins.  The rate of bin j is the opaque
\* identifier j for A and IdB(j) for B (IdB(j) = j when a forecast is compared with itself).  The observed
\* catalog is a sequence of bins ev[i] (the bin event i falls in; repeats allowed).
\*   X_i = ln a_i - ln b_i,   IG = (sum X_i - (N_A - N_B)) / N,
\*   Var = sum X_i^2 / (N-1) - (sum X_i)^2 / (N^2 - N),   T = IG / (sqrt(Var)/sqrt(N)),
\*   t_crit = t_ppf(1 - alpha/2, N-1),   interval = IG -/+ t_crit * sqrt(Var)/sqrt(N)
\* The binary variant takes one term per ACTIVE bin and N = number of active bins.
\* W-test: Wilcoxon signed-rank on d_i = X_i - (N_A - N_B)/N, given as signs and a weak order of |d_i|.
EXTENDS XR, Integers, Sequences, FiniteSets, TLC

CONSTANTS NBins, MaxEv, AlphaN, AlphaD        \* alpha = AlphaN / AlphaD

VARIABLES ev, same, pat

vars == <<ev, same, pat>>

IdA(j) == j
IdB(j) == IF same THEN j ELSE NBins + j
AllA == [j \in 1..NBins |-> IdA(j)]
AllB == [j \in 1..NBins |-> IdB(j)]

\* ------------------------------------------------------------------ T-test as XR, for forecasts (f, g)
X(f, g, j) == Sum(<<Ln(RateSum(<<f[j]>>, <<>>)), Neg(Ln(RateSum(<<g[j]>>, <<>>)))>>)
Terms(f, g, bins) == [i \in 1..Len(bins) |-> X(f, g, bins[i])]
SX(f, g, bins) == Sum(Terms(f, g, bins))
IG(f, g, bins) == Scale(Sum(<<SX(f, g, bins), Neg(RateSum(f, <<>>)), RateSum(g, <<>>)>>), 1, Len(bins))
Var(f, g, bins) ==
    LET n == Len(bins) IN
    Sum(<< Scale(Sum([i \in 1..n |-> Sq(X(f, g, bins[i]))]), 1, n - 1),
           Scale(Sq(SX(f, g, bins)), -1, n * n - n) >>)
StdErr(f, g, bins) == Div(Sqrt(Var(f, g, bins)), Sqrt(Q(Len(bins), 1)))
TStat(f, g, bins) == Div(IG(f, g, bins), StdErr(f, g, bins))
TCritA(bins, an, ad) == TPpf(2 * ad - an, 2 * ad, Len(bins) - 1)           \* 1 - alpha/2, alpha = an/ad
TCrit(bins) == TCritA(bins, AlphaN, AlphaD)
Lower(f, g, bins) == Sum(<<IG(f, g, bins), Neg(Prod(<<TCrit(bins), StdErr(f, g, bins)>>))>>)
Upper(f, g, bins) == Sum(<<IG(f, g, bins), Prod(<<TCrit(bins), StdErr(f, g, bins)>>)>>)
TTestA(f, g, bins, an, ad) ==
    [ig |-> IG(f, g, bins), t |-> TStat(f, g, bins), tcrit |-> TCritA(bins, an, ad),
     lo |-> Sum(<<IG(f, g, bins), Neg(Prod(<<TCritA(bins, an, ad), StdErr(f, g, bins)>>))>>),
     hi |-> Sum(<<IG(f, g, bins), Prod(<<TCritA(bins, an, ad), StdErr(f, g, bins)>>)>>)]
TTest(f, g, bins) == TTestA(f, g, bins, AlphaN, AlphaD)

\* active bins in order of first appearance (the binary variant works on the set of active bins)
ActiveSet(bins) == {bins[i] : i \in 1..Len(bins)}
RECURSIVE SortSet(_)
SortSet(s) == IF s = {} THEN <<>> ELSE LET mn == CHOOSE x \in s : \A y \in s : x <= y IN <<mn>> \o SortSet(s \ {mn})
Active(bins) == SortSet(ActiveSet(bins))

\* ------------------------------------------------------------------ canonical data for the symmetry properties
\* coefficient of ln(rate id r) in sum X_i
LnCoef(f, g, bins, r) == Cardinality({i \in 1..Len(bins) : f[bins[i]] = r}) - Cardinality({i \in 1..Len(bins) : g[bins[i]] = r})
\* coefficient of rate id r in N_f - N_g
TotCoef(f, g, r) == Cardinality({j \in 1..NBins : f[j] = r}) - Cardinality({j \in 1..NBins : g[j] = r})
Ids == 1..(2 * NBins)
\* the unordered pairs {a_i, b_i} with multiplicity: X_i^2 does not depend on the order
PairCount(f, g, bins, p) == Cardinality({i \in 1..Len(bins) : {f[bins[i]], g[bins[i]]} = p})

\* ------------------------------------------------------------------ W-test on a sign / weak-order pattern
\* pat[i] = <<sgn, k>>: sign of d_i (-1, 0, 1) and the rank class of |d_i| (equal k = tie; larger k = larger |d|)
NonZero(p) == SelectSeq(p, LAMBDA e : e[1] # 0)
\* doubled average rank of element i among the non-zero ones: (#smaller)*2 + (#equal) + 1
Rank2(nz, i) == 2 * Cardinality({j \in 1..Len(nz) : nz[j][2] < nz[i][2]}) + Cardinality({j \in 1..Len(nz) : nz[j][2] = nz[i][2]}) + 1
RECURSIVE SumRank2(_, _, _)
SumRank2(nz, sg, i) == IF i = 0 THEN 0 ELSE (IF nz[i][1] = sg THEN Rank2(nz, i) ELSE 0) + SumRank2(nz, sg, i - 1)
WPlus2(p) == SumRank2(NonZero(p), 1, Len(NonZero(p)))
WMinus2(p) == SumRank2(NonZero(p), -1, Len(NonZero(p)))
Min(a, b) == IF a <= b THEN a ELSE b
T2(p) == Min(WPlus2(p), WMinus2(p))                                  \* 2 * T
Cnt(p) == Len(NonZero(p))
\* tie correction: sum over tie groups of t (t^2 - 1)
TieSizes(p) == LET nz == NonZero(p) IN {<<k, Cardinality({j \in 1..Len(nz) : nz[j][2] = k})>> : k \in {nz[j][2] : j \in 1..Len(nz)}}
RECURSIVE SumTies(_)
SumTies(s) == IF s = {} THEN 0 ELSE LET e == CHOOSE x \in s : TRUE IN
              (IF e[2] > 1 THEN e[2] * (e[2] * e[2] - 1) ELSE 0) + SumTies(s \ {e})
\* z = (T - n(n+1)/4) / sqrt( (n(n+1)(2n+1) - ties/2) / 24 );  numerators over common denominators:
\*   T - mean = (2*T2 - n(n+1)) / 4          variance = (2 n(n+1)(2n+1) - ties) / 48
ZNum4(p) == 2 * T2(p) - Cnt(p) * (Cnt(p) + 1)
VarNum48(p) == 2 * Cnt(p) * (Cnt(p) + 1) * (2 * Cnt(p) + 1) - SumTies(TieSizes(p))
WZ(p) == Div(Q(ZNum4(p), 4), Sqrt(Q(VarNum48(p), 48)))
WP(p) == TwoSidedNormal(WZ(p))
Flip(p) == [i \in 1..Len(p) |-> <<-p[i][1], p[i][2]>>]

\* ------------------------------------------------------------------ bounded model
\* the T-part (ev, same) and the W-part (pat) are independent: each is explored with the other at a default
Init == \/ /\ ev \in UNION {[1..n -> 1..NBins] : n \in 2..MaxEv}
           /\ same \in BOOLEAN
           /\ pat = << <<1, 1>> >>
        \/ /\ ev = <<1, 1>> /\ same = FALSE
           /\ pat \in UNION {[1..n -> {-1, 0, 1} \X (1..3)] : n \in 1..MaxEv}
Next == UNCHANGED vars
Spec == Init /\ [][Next]_vars

\* swapping the forecasts negates the gain: every coefficient of sum X_i and of N_A - N_B changes sign ...
Antisymmetry ==
    /\ \A r \in Ids : LnCoef(AllB, AllA, ev, r) = -LnCoef(AllA, AllB, ev, r)
    /\ \A r \in Ids : TotCoef(AllB, AllA, r) = -TotCoef(AllA, AllB, r)
\* ... and leaves the variance (hence the half width of the interval) unchanged
VarianceSymmetric == \A p \in SUBSET Ids : PairCount(AllB, AllA, ev, p) = PairCount(AllA, AllB, ev, p)
SelfComparisonZero == same => (\A r \in Ids : LnCoef(AllA, AllB, ev, r) = 0 /\ TotCoef(AllA, AllB, r) = 0)
WSymmetric == T2(Flip(pat)) = T2(pat) /\ VarNum48(Flip(pat)) = VarNum48(pat) /\ Cnt(Flip(pat)) = Cnt(pat)
RankSum == WPlus2(pat) + WMinus2(pat) = Cnt(pat) * (Cnt(pat) + 1)
VarPositive == Cnt(pat) > 0 => VarNum48(pat) > 0
=====================================================================================
