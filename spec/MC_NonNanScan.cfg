CONSTANTS
  MaxLen = 5
  Vals = {"nan", "zero", "one", "inf"}
  ZeroIsValue = TRUE
SPECIFICATION Spec
INVARIANT NoneIffAllNan
INVARIANT Extremes
INVARIANT Ordered
INVARIANT Mirror
INVARIANT NothingSkipped
CHECK_DEADLOCK FALSE
