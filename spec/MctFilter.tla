-------------------------------- MODULE MctFilter --------------------------------
\* X01 - time-dependent completeness after a mainshock (catalog.apply_mct), beyond the listed properties.
\*
\* An event is <<t, m>>.  t is its time class relative to the mainshock epoch t0 and the critical time tc (where the
\* completeness magnitude has decayed to the background level mc):
\*      -1 before t0 | 0 exactly t0 | 1..K elapsed times d_1 < .. < d_K = tc - t0 | K+1 after tc
\* m is its magnitude position on the lattice of the K thresholds thr_K = mc < .. < thr_1 (the completeness magnitude at
\* d_i is thr_i): even 2j = exactly the j-th smallest threshold, odd = strictly between neighbours.  An event at class i
\* is complete iff m >= 2 * (K + 1 - i); the comparison in the code is strict (mw < mct removes), so "exactly on the
\* threshold" is kept.  At t0 itself the completeness magnitude is infinite: whatever is there is removed.
\*
\* Spec*  what the formula prescribes for any catalog;  Impl*  what the library's loop does: it returns at once if the
\* first event is later than tc, and stops at the first event later than tc - both correct only for time-sorted
\* catalogs, which is the documented assumption (MCbug_MctFilter.cfg drops it and must be refuted).
EXTENDS Integers, Sequences, FiniteSets, TLC

CONSTANTS K, MaxEv,
          SortedOnly,          \* catalogs are sorted in time (the library's documented assumption)
          EmptyReturnsEarly    \* FALSE re-creates the repaired defect: times[0] of an empty catalog raised IndexError

VARIABLES cat
Events == (-1..(K + 1)) \X (0..(2 * K + 1))

Complete(e) == e[2] >= 2 * (K + 1 - e[1])
SpecKeep(e) == e[1] = -1 \/ e[1] = K + 1 \/ (e[1] \in 1..K /\ Complete(e))
Spec_(s) == [rej |-> FALSE, v |-> SelectSeq(s, SpecKeep)]

\* the library's loop
RECURSIVE Loop(_, _, _)
Loop(s, i, acc) ==
    IF i > Len(s) THEN acc
    ELSE IF s[i][1] = K + 1 THEN acc \o SubSeq(s, i, Len(s))           \* break: the rest is kept as it is
    ELSE IF s[i][1] = -1 THEN Loop(s, i + 1, Append(acc, s[i]))        \* continue
    ELSE IF s[i][1] = 0 THEN Loop(s, i + 1, acc)                       \* log10(0) = -inf: completeness is +inf
    ELSE Loop(s, i + 1, IF Complete(s[i]) THEN Append(acc, s[i]) ELSE acc)
Impl(s) ==
    IF Len(s) = 0 THEN (IF EmptyReturnsEarly THEN [rej |-> FALSE, v |-> s] ELSE [rej |-> TRUE, v |-> <<>>])
    ELSE IF s[1][1] = K + 1 THEN [rej |-> FALSE, v |-> s]
    ELSE [rej |-> FALSE, v |-> Loop(s, 1, <<>>)]

Sorted(s) == \A i \in 1..(Len(s) - 1) : s[i][1] <= s[i + 1][1]

Init == cat = <<>>
Fits(e) == IF SortedOnly /\ Len(cat) > 0 THEN cat[Len(cat)][1] <= e[1] ELSE TRUE
Add == Len(cat) < MaxEv /\ \E e \in {x \in Events : Fits(x)} : cat' = Append(cat, e)
Next == Add
Spec == Init /\ [][Next]_cat

ImplMatchesSpec == Impl(cat) = Spec_(cat)
OnlyRemoves == ~Impl(cat).rej => Len(Impl(cat).v) <= Len(cat)
KeepsOrder == ~Impl(cat).rej => \E f \in [1..Len(Impl(cat).v) -> 1..Len(cat)] :
                  /\ \A i \in 1..Len(Impl(cat).v) : Impl(cat).v[i] = cat[f[i]]
                  /\ \A i, j \in 1..Len(Impl(cat).v) : i < j => f[i] < f[j]
Idempotent == ~Impl(cat).rej => Impl(Impl(cat).v) = Impl(cat)
OutsideWindowUntouched == \A i \in 1..Len(cat) : (Sorted(cat) /\ cat[i][1] \in {-1, K + 1}) =>
                              \E j \in 1..Len(Impl(cat).v) : Impl(cat).v[j] = cat[i]
===================================================================================
