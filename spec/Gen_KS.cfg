CONSTANTS
  M = 4
  MaxN = 4
  Vals = {1, 2, 3}
SPECIFICATION Spec
INVARIANT Emit
CONSTRAINT Constr
CHECK_DEADLOCK FALSE
