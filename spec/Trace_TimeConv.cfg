CONSTANTS
  Anchors <- AnchorsQuick
  HalfWidth = 0
SPECIFICATION TraceSpec
INVARIANT AcceptInv
CHECK_DEADLOCK FALSE
