CONSTANTS
  Names = {"n1", "n2", "n3"}
  Versions = {1, 2, 3}
  MaxHist = 4
  Starts <- StartsQ
  DictCopyAliases = TRUE
SPECIFICATION Spec
INVARIANT NoNewDuplicates
PROPERTY GetAfterUpdate
PROPERTY UpdateKeepsOthers
PROPERTY OrderKept
PROPERTY QueriesArePure
PROPERTY Independence
CHECK_DEADLOCK FALSE
