---------------------------------- MODULE Filter ----------------------------------
\* C04 - catalog filtering keeps exactly the events that satisfy every statement.
\*
\* An event is [u, a, b, s]: identity, the values of two attributes on a small ordered domain
\* (0 below, 1 equal to, 2 above the threshold value 1) and whether it lies inside the spatial region.
\* A statement is [attr, op]: "attribute op threshold" with op in < <= > >= ==.
\* Catalog objects live in objs; a call acts on ANY existing object o (the original may be filtered again after a
\* copy was made from it):
\*   in place      -> that object's events are replaced, the call returns the same object
\*   not in place  -> a new object is appended; the object the call was made on must stay untouched
\* ghost[i] records which statements (and whether the spatial filter) were applied on the way to object i.
\* Apply mirrors the library: one statement = one boolean mask; a list = masks applied one after another
\* on a copy; spatial = events whose region mask is FALSE.
EXTENDS Integers, Sequences, FiniteSets, TLC

CONSTANTS MaxEv, MaxHist, Vals, Restrict, UseGenCats

VARIABLES src0, objs, ghost, cur, hist
vars == <<src0, objs, ghost, cur, hist>>

Ops == {"<", "<=", ">", ">=", "=="}
Attrs == {"a", "b"}
Stmts == [attr : Attrs, op : Ops]
Thr == 1

Holds(st, e) ==
    LET v == IF st.attr = "a" THEN e.a ELSE e.b IN
    CASE st.op = "<"  -> v < Thr
      [] st.op = "<=" -> v <= Thr
      [] st.op = ">"  -> v > Thr
      [] st.op = ">=" -> v >= Thr
      [] st.op = "==" -> v = Thr

Mask(cat, st) == SelectSeq(cat, LAMBDA e : Holds(st, e))
RECURSIVE ApplyList(_, _)
ApplyList(cat, sts) == IF sts = <<>> THEN cat ELSE ApplyList(Mask(cat, Head(sts)), Tail(sts))
Spatial(cat) == SelectSeq(cat, LAMBDA e : e.s)

Calls ==
    [k : {"one"}, sts : {<<st>> : st \in Stmts}, inplace : BOOLEAN]
    \cup [k : {"list"}, sts : {<<p, q>> : p \in Stmts, q \in Stmts}, inplace : BOOLEAN]
    \cup [k : {"spatial"}, sts : {<<>>}, inplace : BOOLEAN]
Allowed(c) == IF Restrict /\ c.k = "list" THEN c.sts[1].attr # c.sts[2].attr ELSE TRUE

Apply(cat, c) == IF c.k = "spatial" THEN Spatial(cat) ELSE ApplyList(cat, c.sts)

Events == [a : Vals, b : Vals, s : BOOLEAN]
Number(es) == [i \in 1..Len(es) |-> [u |-> i, a |-> es[i].a, b |-> es[i].b, s |-> es[i].s]]

Ev(a, b, s) == [a |-> a, b |-> b, s |-> s]
\* rich fixed catalogs for spec -> code replay: every (a, b) class incl. equality with the threshold, inside and outside
GenCats == { Number(<<Ev(0, 2, TRUE), Ev(1, 1, TRUE), Ev(2, 0, FALSE), Ev(1, 2, TRUE), Ev(2, 2, TRUE), Ev(0, 0, TRUE)>>),
             Number(<<Ev(1, 0, FALSE), Ev(2, 1, TRUE), Ev(0, 1, TRUE), Ev(1, 1, FALSE), Ev(2, 1, TRUE)>>),
             Number(<<>>) }
Init == /\ src0 \in IF UseGenCats THEN GenCats
                    ELSE {Number(es) : es \in UNION {[1..m -> Events] : m \in 0..MaxEv}}
        /\ objs = <<src0>> /\ ghost = <<[st |-> {}, sp |-> FALSE]>> /\ cur = 1 /\ hist = <<>>

StmtSet(c) == {c.sts[i] : i \in 1..Len(c.sts)}
After(g, c) == [st |-> g.st \cup StmtSet(c), sp |-> g.sp \/ c.k = "spatial"]
Call(c, o) ==
    /\ Len(hist) < MaxHist /\ Allowed(c)
    /\ hist' = Append(hist, [c |-> c, o |-> o])
    /\ IF c.inplace
       THEN /\ objs' = [objs EXCEPT ![o] = Apply(objs[o], c)]
            /\ ghost' = [ghost EXCEPT ![o] = After(ghost[o], c)]
            /\ cur' = o
       ELSE /\ objs' = Append(objs, Apply(objs[o], c))
            /\ ghost' = Append(ghost, After(ghost[o], c))
            /\ cur' = Len(objs) + 1
    /\ UNCHANGED src0
Next == \E c \in Calls : \E o \in 1..Len(objs) : Call(c, o)
Spec == Init /\ [][Next]_vars

\* ------------------------------------------------------------------ properties
Satisfies(g, e) == (\A st \in g.st : Holds(st, e)) /\ (g.sp => e.s)
\* every catalog object holds exactly the source events for which every statement applied on the way to it is true,
\* in original order and unchanged; this one equation gives order independence, grouping independence, idempotence
\* and - because it is stated for EVERY object, not only the one just returned - that no call disturbs another object
ExactSelection == \A i \in 1..Len(objs) : objs[i] = SelectSeq(src0, LAMBDA e : Satisfies(ghost[i], e))
\* a call that is not in place leaves every existing object untouched
NonMutating == [][(Len(objs') = Len(objs) + 1) => (\A i \in 1..Len(objs) : objs'[i] = objs[i])]_vars
OrderPreserved == \A k \in 1..Len(objs) : \A i, j \in 1..Len(objs[k]) : i < j => objs[k][i].u < objs[k][j].u
===================================================================================
