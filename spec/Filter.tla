---------------------------------- MODULE Filter ----------------------------------
\* C04 - catalog filtering keeps exactly the events that satisfy every statement.
\*
\* An event is [u, a, b, s]: identity, the values of two attributes on a small ordered domain
\* (0 below, 1 equal to, 2 above the threshold value 1) and whether it lies inside the spatial region.
\* A statement is [attr, op]: "attribute op threshold" with op in < <= > >= ==.
\* Catalog objects live in `objs`; a call acts on object `cur`:
\*   in place      -> that object's events are replaced, the call returns the same object
\*   not in place  -> a new object is appended and becomes current; the source must stay untouched
\* Apply mirrors the library: one statement = one boolean mask; a list = masks applied one after another
\* on a copy; spatial = events whose region mask is FALSE.
EXTENDS Integers, Sequences, FiniteSets, TLC

CONSTANTS MaxEv, MaxHist, Vals, Restrict, UseGenCats

VARIABLES src0, objs, cur, hist
vars == <<src0, objs, cur, hist>>

Ops == {"<", "<=", ">", ">=", "=="}
Attrs == {"a", "b"}
Stmts == [attr : Attrs, op : Ops]
Thr == 1

Holds(st, e) ==
    LET v == IF st.attr = "a" THEN e.a ELSE e.b IN
    CASE st.op = "<"  -> v < Thr
      [] st.op = "<=" -> v <= Thr
      [] st.op = ">"  -> v > Thr
      [] st.op = ">=" -> v >= Thr
      [] st.op = "==" -> v = Thr

Mask(cat, st) == SelectSeq(cat, LAMBDA e : Holds(st, e))
RECURSIVE ApplyList(_, _)
ApplyList(cat, sts) == IF sts = <<>> THEN cat ELSE ApplyList(Mask(cat, Head(sts)), Tail(sts))
Spatial(cat) == SelectSeq(cat, LAMBDA e : e.s)

Calls ==
    [k : {"one"}, sts : {<<st>> : st \in Stmts}, inplace : BOOLEAN]
    \cup [k : {"list"}, sts : {<<p, q>> : p \in Stmts, q \in Stmts}, inplace : BOOLEAN]
    \cup [k : {"spatial"}, sts : {<<>>}, inplace : BOOLEAN]
Allowed(c) == IF Restrict /\ c.k = "list" THEN c.sts[1].attr # c.sts[2].attr ELSE TRUE

Apply(cat, c) == IF c.k = "spatial" THEN Spatial(cat) ELSE ApplyList(cat, c.sts)

Events == [a : Vals, b : Vals, s : BOOLEAN]
Number(es) == [i \in 1..Len(es) |-> [u |-> i, a |-> es[i].a, b |-> es[i].b, s |-> es[i].s]]

Ev(a, b, s) == [a |-> a, b |-> b, s |-> s]
\* rich fixed catalogs for spec -> code replay: every (a, b) class incl. equality with the threshold, inside and outside
GenCats == { Number(<<Ev(0, 2, TRUE), Ev(1, 1, TRUE), Ev(2, 0, FALSE), Ev(1, 2, TRUE), Ev(2, 2, TRUE), Ev(0, 0, TRUE)>>),
             Number(<<Ev(1, 0, FALSE), Ev(2, 1, TRUE), Ev(0, 1, TRUE), Ev(1, 1, FALSE), Ev(2, 1, TRUE)>>),
             Number(<<>>) }
Init == /\ src0 \in IF UseGenCats THEN GenCats
                    ELSE {Number(es) : es \in UNION {[1..m -> Events] : m \in 0..MaxEv}}
        /\ objs = <<src0>> /\ cur = 1 /\ hist = <<>>

Call(c) ==
    /\ Len(hist) < MaxHist /\ Allowed(c)
    /\ hist' = Append(hist, c)
    /\ IF c.inplace
       THEN objs' = [objs EXCEPT ![cur] = Apply(objs[cur], c)] /\ cur' = cur
       ELSE objs' = Append(objs, Apply(objs[cur], c)) /\ cur' = Len(objs) + 1
    /\ UNCHANGED src0
Next == \E c \in Calls : Call(c)
Spec == Init /\ [][Next]_vars

\* ------------------------------------------------------------------ properties
\* every statement issued so far, whatever the order and grouping
RECURSIVE AllStmts(_)
AllStmts(h) == IF h = <<>> THEN {} ELSE {Head(h).sts[i] : i \in 1..Len(Head(h).sts)} \cup AllStmts(Tail(h))
SpatialUsed(h) == \E i \in 1..Len(h) : h[i].k = "spatial"
Satisfies(e) == (\A st \in AllStmts(hist) : Holds(st, e)) /\ (SpatialUsed(hist) => e.s)

\* the current catalog holds exactly the events for which every statement is true, in original order, unchanged;
\* this single equation gives order independence, grouping independence and idempotence
ExactSelection == objs[cur] = SelectSeq(src0, Satisfies)
\* a call that is not in place leaves its source untouched
NonMutating == [][\A c \in Calls : (hist' = Append(hist, c) /\ ~c.inplace) => (\A i \in 1..Len(objs) : objs'[i] = objs[i])]_vars
OrderPreserved == \A i, j \in 1..Len(objs[cur]) : i < j => objs[cur][i].u < objs[cur][j].u
===================================================================================
