---------------------------------- MODULE Ecdf ----------------------------------
\* C09 - empirical "at least" / "at most" probabilities.
\* A sample is a multiset over the alphabet {2,4,..,2*A}: cnt[i] = multiplicity of letter 2*i.
\* Queries v range over 1..2*A+1: even = on a sample letter, odd = between / below / above.
\* Probabilities are kept as integer numerators over n (the sample size).
\*
\* Spec*  = the definition in the property (#{x >= v}, #{x <= v}).
\* Impl*  = the computation the library performs: sorted sample, ey = (1..n)/n, short-circuits
\*          for out-of-range queries, searchsorted(left) on the reversed ecdf / searchsorted(right)-1.
\* TLC checks Impl = Spec for every multiset and query, plus the identities of the property.
EXTENDS Integers, Sequences, FiniteSets, TLC

CONSTANTS A,        \* alphabet size (6)
          MaxN      \* maximum sample size (7)

VARIABLES cnt, v

vars == <<cnt, v>>

Letters == 1..A
RECURSIVE SumTo(_, _)
SumTo(f, i) == IF i = 0 THEN 0 ELSE f[i] + SumTo(f, i - 1)
N(f) == SumTo(f, A)

\* number of sample values whose letter index satisfies P
CountGE(f, q) == LET RECURSIVE S(_) S(i) == IF i > A THEN 0 ELSE (IF 2 * i >= q THEN f[i] ELSE 0) + S(i + 1) IN S(1)
CountLE(f, q) == LET RECURSIVE S(_) S(i) == IF i > A THEN 0 ELSE (IF 2 * i <= q THEN f[i] ELSE 0) + S(i + 1) IN S(1)
CountEQ(f, q) == LET RECURSIVE S(_) S(i) == IF i > A THEN 0 ELSE (IF 2 * i = q THEN f[i] ELSE 0) + S(i + 1) IN S(1)
CountLT(f, q) == N(f) - CountGE(f, q)

SpecGE == CountGE(cnt, v)
SpecLE == CountLE(cnt, v)

\* ---- the library's computation, on the sorted sample
RECURSIVE Sorted(_, _)
Sorted(f, i) == IF i > A THEN <<>> ELSE [j \in 1..f[i] |-> 2 * i] \o Sorted(f, i + 1)
Ex == Sorted(cnt, 1)
SearchLeft(s, q) == Cardinality({j \in 1..Len(s) : s[j] < q})       \* numpy.searchsorted(side='left')
SearchRight(s, q) == Cardinality({j \in 1..Len(s) : s[j] <= q})     \* numpy.searchsorted(side='right')
Ey(n, i) == i                                                       \* numerator of ey[i-1] = i/n
Eyc(n, i) == Ey(n, n - i + 1)                                       \* reversed ecdf, 1-based

ImplGE == LET n == Len(Ex) IN
    IF v > Ex[n] THEN 0 ELSE IF v < Ex[1] THEN n ELSE Eyc(n, SearchLeft(Ex, v) + 1)
ImplLE == LET n == Len(Ex) IN
    IF v > Ex[n] THEN n ELSE IF v < Ex[1] THEN 0 ELSE Ey(n, SearchRight(Ex, v))

Init == /\ cnt \in [Letters -> 0..MaxN]
        /\ N(cnt) \in 1..MaxN
        /\ v = 1
Next == v < 2 * A + 1 /\ v' = v + 1 /\ UNCHANGED cnt
Spec == Init /\ [][Next]_vars

ImplMatchesSpec == ImplGE = SpecGE /\ ImplLE = SpecLE
SumIdentity == SpecGE + SpecLE = N(cnt) + CountEQ(cnt, v)
Bounds == SpecGE \in 0..N(cnt) /\ SpecLE \in 0..N(cnt)
Monotone == [][CountGE(cnt, v') <= CountGE(cnt, v) /\ CountLE(cnt, v') >= CountLE(cnt, v)]_vars
=================================================================================
