CONSTANTS
  MNC = 1
  MNB = 1
  MaxId = 1
  MaxEv = 0
SPECIFICATION TraceSpec
INVARIANT Expect
CHECK_DEADLOCK FALSE
