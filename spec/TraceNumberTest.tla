------------------------------ MODULE TraceNumberTest ------------------------------
\* code -> spec for C07.  Record kinds:
\*   "tails"      [law, n]: TLC answers with the outcome intervals delta1 / delta2 must be the mass of (EXPECT line);
\*                the harness evaluates those masses for the concrete law at 50 digits and compares.
\*   "empirical"  [sizes, n, ge, le]: numerators the catalog N-test returned (recovered exactly); accepted iff exact.
\*   "monotone"   [r1, r2]: ranks (exact float order) of delta1 / delta2 along strictly increasing forecast means
\*                with n fixed; accepted iff delta1 is non-decreasing and delta2 non-increasing.
EXTENDS NumberTest, Json, IOUtils
VARIABLES tid
Traces == JsonDeserialize(IOEnv.TRACE_FILE)
T == Traces[tid]
TraceInit == /\ tid \in 1..Len(Traces)
             /\ law = T.law /\ n = T.n /\ sizes = T.sizes
TraceSpec == TraceInit /\ [][UNCHANGED <<vars, tid>>]_<<vars, tid>>
NonDecr(s) == \A i \in 1..(Len(s) - 1) : s[i] <= s[i + 1]
NonIncr(s) == \A i \in 1..(Len(s) - 1) : s[i] >= s[i + 1]
Ok == CASE T.kind = "tails" -> TRUE
        [] T.kind = "empirical" -> T.ge = GE(sizes, n) /\ T.le = LE(sizes, n)
        [] T.kind = "monotone" -> NonDecr(T.r1) /\ NonIncr(T.r2)
Out == /\ (T.kind = "tails") => PrintT(<<"EXPECT", ToJson([tid |-> tid, d1 |-> SpecDelta1(n), d2 |-> SpecDelta2(n)])>>)
       /\ Ok => PrintT(<<"ACCEPT", tid>>)
====================================================================================
