"""alpha / gamma for the sub-unit lattice (DESIGN 2.1 / D1): exact projection of concrete floats onto
Axis.tla positions pos = k*S + c, and generation of concrete probe values for every class.

All comparisons are exact: a float is compared with the library's own edge floats (Python / numpy float
comparison is exact), distances to an edge are formed only between nearby doubles (exact by Sterbenz) or
with fractions.Fraction.
"""
from fractions import Fraction
import math

import numpy

S = 6
EPS = {'float64': 2.0 ** -52, 'float32': 2.0 ** -23}
BAND_FACTOR = 16


def band_width(k, a0, v, h, eps):
    """Documented round-off band immediately below the edge that opens bin k+1 (DESIGN 2.1)."""
    return BAND_FACTOR * eps * (k + 2) * max(abs(a0), abs(v), abs(h))


def classify(v, edges, dtype='float64', h=None):
    """Exact class of value v w.r.t. increasing, equally spaced edges (list of python floats).

    Returns pos = k*S + c (Axis.tla).  k is capped at len(edges) (everything at or beyond the virtual edge that
    closes the last closed bin is equivalent) and at -1 below the first edge.
    """
    n = len(edges)
    eps = EPS[dtype]
    a0 = edges[0]
    if h is not None:
        h = Fraction(h)
    else:
        h = (Fraction(edges[1]) - Fraction(edges[0])) if n > 1 else Fraction(1)
    fv = Fraction(v)
    if v < a0:
        k = -1
        nxt = Fraction(a0)
        lower = None
    else:
        # number of edges <= v
        lo, hi = 0, n
        while lo < hi:
            mid = (lo + hi) // 2
            if edges[mid] <= v:
                lo = mid + 1
            else:
                hi = mid
        k = lo - 1
        lower = Fraction(edges[k])
        if k == n - 1:
            # beyond the last edge: one more (virtual) bin of one spacing, then "beyond" (k = n).
            # A single-edge axis uses spacing 1 (as the library does); it is open-ended, so both map to bin 0.
            extra = (fv - lower) // h
            if extra >= 1:
                k = n
                lower = Fraction(edges[n - 1]) + h
                nxt = None
            else:
                nxt = lower + h
        else:
            nxt = Fraction(edges[k + 1])
    hf = float(h)
    if nxt is not None:
        d = nxt - fv
        if 0 < d <= Fraction(band_width(k, a0, v, hf, eps)):
            return k * S + 5
    if lower is not None and fv == lower:
        return k * S + 0
    if lower is None:
        return k * S + 2
    up = fv - lower
    if up < h / 100:
        return k * S + 1
    if nxt is not None and (nxt - fv) < h / 100:
        return k * S + 4
    return k * S + (2 if up < h / 2 else 3)


def classify_near_edges(edges, offsets_ulps, dtype=numpy.float64):
    """Vectorised: for every edge e_k and every ulp offset j produce v = e_k (+/-) |j| ulps and its class.

    Returns (values[n, m], pos[n, m]).  Offsets are small (|j| <= 4096) so v stays inside (e_(k-1), e_(k+1)).
    """
    e = numpy.asarray(edges, dtype=dtype)
    n = e.size
    j = numpy.asarray(offsets_ulps, dtype=numpy.int64)
    # step by integer manipulation of the IEEE representation (exact neighbours)
    it = numpy.int64 if dtype == numpy.float64 else numpy.int32
    bits = e.view(it).astype(numpy.int64)
    # map to the monotone integer image
    sign = bits < 0
    mono = numpy.where(sign, numpy.int64(-(2 ** 63 if dtype == numpy.float64 else 2 ** 31)) - bits, bits)
    vm = mono[:, None] + j[None, :]
    back = numpy.where(vm < 0, numpy.int64(-(2 ** 63 if dtype == numpy.float64 else 2 ** 31)) - vm, vm)
    v = back.astype(it).view(dtype)
    eps = 2.0 ** -52 if dtype == numpy.float64 else 2.0 ** -23
    a0 = float(e[0])
    h = float(e[1] - e[0]) if n > 1 else 1.0
    ks = numpy.arange(n)[:, None] * numpy.ones_like(j)[None, :]
    pos = numpy.empty(v.shape, dtype=numpy.int64)
    on = j[None, :] == 0
    above = j[None, :] > 0
    below = j[None, :] < 0
    pos[...] = 0
    pos = numpy.where(on, ks * S + 0, pos)
    pos = numpy.where(above, ks * S + 1, pos)
    # below edge k: the value lies in bin k-1; inside the band of edge k -> class 5 else class 4
    d = (e[:, None].astype(numpy.float64) - v.astype(numpy.float64))        # exact (Sterbenz)
    bw = BAND_FACTOR * eps * ((ks - 1) + 2) * numpy.maximum(numpy.maximum(abs(a0), numpy.abs(v.astype(numpy.float64))), abs(h))
    inband = d <= bw
    pos = numpy.where(below & inband, (ks - 1) * S + 5, pos)
    pos = numpy.where(below & ~inband, (ks - 1) * S + 4, pos)
    return v, pos


def ulps_above(x, j, dtype='float64'):
    """The float j ulps above x (j may be negative)."""
    if dtype == 'float32':
        a = numpy.float32(x)
        for _ in range(abs(j)):
            a = numpy.nextafter(a, numpy.float32(numpy.inf if j > 0 else -numpy.inf))
        return a
    a = float(x)
    for _ in range(abs(j)):
        a = math.nextafter(a, math.inf if j > 0 else -math.inf)
    return a


def probes_for(edges, pos, dtype='float64', spacing=None):
    """gamma: concrete values realising Axis position pos on the given edges (list of floats)."""
    n = len(edges)
    k, c = pos // S, pos % S
    eps = EPS[dtype]
    a0 = edges[0]
    h = (edges[1] - edges[0]) if n > 1 else 1.0
    hF = (Fraction(edges[1]) - Fraction(edges[0])) if n > 1 else Fraction(1)
    if spacing is not None:
        h, hF = float(spacing), Fraction(spacing)

    def edge(i):
        if 0 <= i <= n - 1:
            return Fraction(edges[i])
        if i < 0:
            return Fraction(edges[0]) + i * hF
        return Fraction(edges[n - 1]) + (i - (n - 1)) * hF
    lo, hi = edge(k), edge(k + 1)
    out = []

    def fl(fr, direction=0):
        x = float(fr)
        if dtype == 'float32':
            x = float(numpy.float32(x))
        return x
    if c == 0:
        x = fl(lo)
        if Fraction(x) == lo:
            out.append(x)
    elif c == 1:
        base = fl(lo)
        if Fraction(base) < lo:
            base = ulps_above(base, 1, dtype)
        for j in (1, 2, 3, 17, 4096):
            out.append(float(ulps_above(base, j, dtype)))
    elif c in (2, 3):
        fr = Fraction(3, 10) if c == 2 else Fraction(7, 10)
        out.append(fl(lo + fr * hF))
        out.append(fl(lo + (fr + Fraction(1, 17)) * hF))
    elif c == 4:
        for mult in (4, 64):
            bw = Fraction(band_width(k, a0, float(hi), h, eps))
            out.append(fl(hi - mult * bw))
    elif c == 5:
        top = fl(hi)
        if Fraction(top) >= hi:
            top = float(ulps_above(top, -1, dtype))
        out.append(top)
        bw = Fraction(band_width(k, a0, float(hi), h, eps))
        out.append(fl(hi - bw / 3))
    # keep only values that really classify as pos (gamma must not place a strict probe inside a band)
    good = []
    for x in out:
        if math.isfinite(x) and classify(x, edges, dtype, h=spacing) == pos:
            good.append(x)
    return good
