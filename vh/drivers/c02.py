"""C02 - 1-D binning is lower-inclusive, upper-exclusive, open at the top.

spec/Axis.tla, spec/Binning.tla   TLC: HalfOpen, BelowIsOut, OpenTopAbsorbs, EdgeOpensItsBin, ClosedTopIsOut, Monotone
                                  over all axes n<=4 x all positions; design of the tolerance formula on integers
                                  (NeverBelow, LiftOnlyInBand up to bin KMax)
gen -> code    every (n, open, position) case concretised on many decimal grids / dtypes / containers
code -> trace  long axes (shipped region edge arrays, magnitude grids up to 400 bins): every edge +-ulps, random
               values; exact classes from vh/alpha.py; distinct (n, open, pos, idx) tuples validated by TLC
edge generators: cleaner_range / magnitude_bins / region xs, ys must be the doubles nearest to start + k*step
"""
import random
from fractions import Fraction

from vh.core import MachineryError, guarded, Raised, other_surroundings
from vh import alpha

S = alpha.S


def dec(s):
    """decimal string -> Fraction"""
    return Fraction(s)


# (start, step) decimal strings; covers positive, negative, zero-crossing starts
GRIDS_QUICK = [('5.95', '0.1'), ('2.5', '0.1'), ('4.95', '0.1'), ('-125.4', '0.1'), ('164.5', '0.1'), ('-0.35', '0.1'),
               ('0', '0.05'), ('31.5', '0.25'), ('-47.95', '0.01'), ('100.05', '0.001'), ('-180', '1'), ('0', '2.5'),
               ('5.95', '0.2'), ('0', '0.1'), ('-90', '0.5'), ('6.35', '0.05')]
# whole-number and decimal starts with steps whose reciprocal is not a whole number (found by a seeded change:
# cleaner_range used 1/h as scale and moved even the first edge, e.g. (4.0, 0.07) -> 3.99)
GRIDS_STEP = [('4', '0.3'), ('5', '0.4'), ('-125', '0.6'), ('2', '0.15'), ('1', '0.7'), ('3', '0.75'), ('4', '0.07'),
              ('-125', '0.03'), ('2.5', '0.06'), ('0', '0.12'), ('1', '0.011'), ('-7', '0.35')]
GRIDS_MORE = [('3', '0.1'), ('-179.9', '0.1'), ('35.05', '0.1'), ('0.001', '0.001'), ('-0.05', '0.05'), ('1e3', '10'),
              ('-1.25', '0.25'), ('7.5', '0.5'), ('12.3', '0.3'), ('0', '0.3'), ('0.7', '0.7'), ('-3.6', '0.6'),
              ('2.45', '0.15'), ('89.9', '0.02')]


def exact_edges(start, step, n):
    s, h = dec(start), dec(step)
    return [float(s + k * h) for k in range(n)]


def call_bin(calc, numpy, vals, edges, open_, how):
    """Call bin1d_vec in one of several input styles; returns list of ints or Raised."""
    if how == 'scalar':
        out = []
        for v in vals:
            r = guarded(calc.bin1d_vec, v, edges, right_continuous=open_)
            if isinstance(r, Raised):
                return r
            out.append(int(numpy.asarray(r).reshape(-1)[0]))
        return out
    if how == 'forecast':
        # the forecast's own magnitude lookup (open-ended; below the first edge it refuses: reported as -1 here)
        from csep.core.forecasts import GriddedForecast
        from csep.core.regions import CartesianGrid2D
        reg = CartesianGrid2D.from_origins(numpy.array([[0.0, 0.0]]), dh=1.0)
        fc = GriddedForecast(region=reg, magnitudes=numpy.asarray(edges, dtype=float), data=numpy.ones((1, len(edges))), name='b')
        out = []
        for v in vals:
            r = guarded(fc.get_magnitude_index, [v])
            if isinstance(r, Raised):
                if not r.text.startswith('ValueError'):
                    return r
                out.append(-1)
            else:
                out.append(int(numpy.asarray(r).reshape(-1)[0]))
        return out
    if how == 'catalog':
        # the catalog's magnitude index against the magnitude bins bound to its region (open-ended)
        from csep.core.catalogs import CSEPCatalog
        from csep.core.regions import CartesianGrid2D
        reg = CartesianGrid2D.from_origins(numpy.array([[0.0, 0.0]]), dh=1.0)
        reg.magnitudes = numpy.asarray(edges, dtype=float)
        cat = CSEPCatalog(data=[('e%d' % i, i, 0.5, 0.5, 1.0, float(v)) for i, v in enumerate(vals)], region=reg)
        r = guarded(cat.get_mag_idx)
        if isinstance(r, Raised):
            return r
        return [int(a) for a in numpy.asarray(r).reshape(-1)]
    if how == 'list':
        r = guarded(calc.bin1d_vec, list(vals), list(edges), right_continuous=open_)
    elif how == 'f32':
        r = guarded(calc.bin1d_vec, numpy.asarray(vals, dtype=numpy.float32), numpy.asarray(edges), right_continuous=open_)
    else:
        r = guarded(calc.bin1d_vec, numpy.asarray(vals, dtype=numpy.float64), numpy.asarray(edges), right_continuous=open_)
    if isinstance(r, Raised):
        return r
    return [int(a) for a in numpy.asarray(r).reshape(-1)]


def run(chk, replay=None):
    import numpy
    from csep.utils import calc
    from csep.core import regions
    from csep.core.catalogs import CSEPCatalog
    from csep.utils.constants import CSEP_MW_BINS
    quick = chk.tier == 'quick'
    rng = random.Random(chk.seed + 202)
    chk.rule = ('cases = (n edges, open?, position class) from TLC for n<=4, each concretised on decimal grids (start, '
                'step) x dtypes x containers; traces = every edge of long grids (shipped regions, magnitude grids) at '
                '0,+-1..4096 ulps plus random interior values, aggregated to distinct (n, open, pos, idx). '
                'non-trivial = distinct (grid, n, open, pos) on an edge, within a few ulps of one, or in the band')

    if replay:
        d = replay['detail']
        if d.get('kind') == 'bin':
            r = call_bin(calc, numpy, d['values'], d['edges'], d['open'], d['how'])
            ok = not isinstance(r, Raised) and all(x in d['allowed'] for x in r)
            if not ok:
                chk.violation(replay['signature'], dict(d, got=repr(r)))
        elif d.get('kind') == 'edges':
            got = guarded(calc.cleaner_range, d['start'], d['end'], d['step'])
            if isinstance(got, Raised) or [float(x) for x in got] != d['expected']:
                chk.violation(replay['signature'], dict(d, got=repr(got)))
        chk.sample({'replayed': d})
        chk.states = chk.transitions = 1
        return

    # ---------------------------------------------------------------- 1. model checking
    res = chk.tlc('Binning', 'MC_Binning.cfg' if quick else 'MCT_Binning.cfg', timeout=1200)
    chk.require_coverage(res, ['Probe', 'FormulaProbe'])
    res = chk.tlc('GenBinning', 'Gen_Binning.cfg', workers=1, coverage=False, count_states=False)
    cases = res.tagged.get('CASE', [])
    if len(cases) < 200:
        raise MachineryError('Gen_Binning produced %d cases' % len(cases))
    table = {(c['n'], c['open'], c['pos']): c['allowed'] for c in cases}

    # ---------------------------------------------------------------- 2. spec -> code
    grids = GRIDS_QUICK + GRIDS_STEP if quick else GRIDS_QUICK + GRIDS_STEP + GRIDS_MORE
    hows = ['array', 'scalar', 'list', 'f32']
    realised = set()
    for gi, (start, step) in enumerate(grids):
        for (n, open_, pos), allowed in table.items():
            edges = exact_edges(start, step, n)
            extra_hows = [['forecast'], ['catalog']][(gi + pos) % 2] if open_ and (gi + n + pos) % 3 == 0 else []
            for how in (hows if (gi + n) % 4 == 0 else [hows[(gi + pos) % 4]]) + extra_hows:
                dtype = 'float32' if how == 'f32' else 'float64'
                if how == 'f32':
                    e32 = [float(numpy.float32(e)) for e in edges]
                    if len(set(e32)) != len(e32) or any(abs(e32[i] - edges[i]) > 0 for i in range(n)):
                        # float32 points against float64 edges: classes are taken w.r.t. the float64 edges
                        pass
                vals = alpha.probes_for(edges, pos, dtype)
                if not vals:
                    continue
                realised.add((n, open_, pos))
                r = call_bin(calc, numpy, vals, edges, open_, how)
                chk.count(len(vals))
                if pos % S in (0, 1, 5):
                    chk.nontrivial('g|%s|%s|%d|%s|%d' % (start, step, n, open_, pos))
                bad = isinstance(r, Raised) or any(x not in allowed for x in r)
                if bad:
                    cls = {0: 'on-edge', 1: 'ulps-above-edge', 2: 'interior', 3: 'interior', 4: 'below-next-edge', 5: 'band'}[pos % S]
                    kk = pos // S
                    where = 'below-first' if kk < 0 else ('top' if kk >= n - 1 else 'mid')
                    chk.violation('gen:bin1d_vec:%s:%s:%s:%s' % (cls, where, 'open' if open_ else 'closed', how),
                                  {'kind': 'bin', 'grid': [start, step], 'edges': edges, 'open': open_, 'pos': pos,
                                   'values': vals, 'allowed': allowed, 'got': repr(r), 'how': how})
    # 2b. the far ends of the float64 range: a value at or above the last edge of an open-ended grid goes to the last bin
    # however large it is (the index computed on the way exceeds every integer type), a value below the first edge is
    # out of range however negative
    inf = float('inf')
    for gi, (start, step) in enumerate(grids):
        for n in (1, 2, 4, 31):
            edges = exact_edges(start, step, n)
            top = edges[-1]
            hf = float(step)
            for open_ in (True, False):
                if n == 1 and not open_:
                    continue          # a single edge is always treated as open-ended
                huge = [inf, 1.7976931348623157e308, 1e300, 1e100, 1e19, float(2.0 ** 63) * hf + top, float(2.0 ** 64) * hf, 1e18]
                huge = [v for v in huge if v > top + 2 * hf]
                low = [-inf, -1.7976931348623157e308, -1e300, -1e19, -float(2.0 ** 63) * hf + edges[0], -1e18]
                low = [v for v in low if v < edges[0] - 2 * hf]
                for how in ('array', 'scalar', 'list'):
                    for vals, want, where in ((huge, n - 1 if open_ else -1, 'far-above'), (low, -1, 'far-below')):
                        r = call_bin(calc, numpy, vals, edges, open_, how)
                        chk.count(len(vals))
                        if isinstance(r, Raised) or any(x != want for x in r):
                            chk.violation('gen:bin1d_vec:extreme:%s:%s:%s' % (where, 'open' if open_ else 'closed', how),
                                          {'kind': 'bin', 'grid': [start, step], 'edges': edges, 'open': open_, 'values': vals,
                                           'allowed': [want], 'got': repr(r), 'how': how})
                chk.nontrivial('extreme|%s|%s|%d' % (start, step, n))
    missing = set(table) - realised
    # positions that cannot be realised at all (e.g. class 0 of the virtual edge) are reported, not hidden
    chk.notes['abstract_cases'] = len(table)
    chk.notes['abstract_cases_realised'] = len(realised)
    if len(realised) < 0.7 * len(table):   # below-first / beyond-last positions collapse to one class each in alpha
        raise MachineryError('gamma realised only %d of %d abstract cases' % (len(realised), len(table)))
    chk.sample({'gen_case': {'n': 3, 'open': False, 'pos': 11, 'allowed': table[(3, False, 11)],
                             'values_on_grid_5.95/0.1': alpha.probes_for(exact_edges('5.95', '0.1', 3), 11)}})
    # gen negative control: an expectation shifted by one bin must be flagged
    e = exact_edges('5.95', '0.1', 4)
    vals = alpha.probes_for(e, 1 * S + 0)
    r = call_bin(calc, numpy, vals, e, False, 'array')
    chk.control('gen: shifted expectation flagged', any(x not in [2] for x in r))

    # ---------------------------------------------------------------- 3. edge generators
    gen_cases = []
    for (start, step) in grids:
        for nb in (1, 2, 7, 31, 66, 400) if not quick else (1, 7, 66):
            s, h = dec(start), dec(step)
            end = s + (nb - 1) * h
            expected = [float(s + k * h) for k in range(nb)]
            for fn_name in ('cleaner_range', 'magnitude_bins'):
                fn = calc.cleaner_range if fn_name == 'cleaner_range' else regions.magnitude_bins
                got = guarded(fn, float(s), float(end), float(h))
                chk.count()
                ok = (not isinstance(got, Raised)) and [float(x) for x in got] == expected
                if not ok:
                    first = None
                    if not isinstance(got, Raised):
                        g = [float(x) for x in got]
                        first = next((i for i in range(min(len(g), len(expected))) if g[i] != expected[i]), None)
                        if first is None:
                            first = 'length %d != %d' % (len(g), len(expected))
                    chk.violation('edges:%s:step=%s' % (fn_name, step),
                                  {'kind': 'edges', 'start': float(s), 'end': float(end), 'step': float(h),
                                   'expected': expected[:8], 'first_bad_index': first,
                                   'got': repr(got)[:300]})
                if ok and nb >= 2:
                    # an upper limit that is not itself an edge (4.95 .. 9.0 by 0.1): the edges are still start + k * step,
                    # up to the last one not above the limit
                    got2 = guarded(fn, float(s), float(end + h * Fraction(3, 10)), float(h))
                    chk.count()
                    if isinstance(got2, Raised) or [float(x) for x in got2] != expected:
                        chk.violation('edges:%s:upper limit between two edges' % fn_name,
                                      {'kind': 'edges', 'start': float(s), 'end': float(end + h * Fraction(3, 10)), 'step': float(h),
                                       'expected': expected[:8], 'got': repr(got2)[:300]})
                if ok and nb in (7, 66):
                    # the array handed out belongs to the caller (bin centres are made with `edges += step / 2`): asking
                    # again - also while the embedding program has other process-wide settings in force - gives the edges,
                    # not the caller's array
                    try:
                        got += 0.5
                        got[-1] = 99.0
                    except (ValueError, TypeError):
                        pass
                    again = guarded(fn, float(s), float(end), float(h))
                    with other_surroundings():
                        third = guarded(fn, float(s), float(end), float(h))
                    chk.count(2)
                    for tag, g2 in (('asked again after the caller edited the first answer', again), ('asked in other surroundings', third)):
                        if isinstance(g2, Raised) or [float(x) for x in g2] != expected:
                            chk.violation('edges:%s:%s' % (fn_name, tag), {'kind': 'edges', 'start': float(s), 'end': float(end), 'step': float(h),
                                          'expected': expected[:8], 'got': repr(g2)[:300]})
                            break
                chk.nontrivial('edges|%s|%s|%d' % (start, step, nb))

    # ---------------------------------------------------------------- 4. code -> trace on long axes
    axes = []   # (name, edges as numpy array)
    axes.append(('CSEP_MW_BINS', numpy.array(CSEP_MW_BINS, dtype=float)))
    axes.append(('mw 5.95:8.95:0.1', calc.cleaner_range(5.95, 8.95, 0.1)))
    axes.append(('mw 4.95:8.95:0.1', calc.cleaner_range(4.95, 8.95, 0.1)))
    nz = regions.nz_csep_region()
    axes.append(('nz.xs', numpy.array(nz.xs)))
    axes.append(('nz.ys', numpy.array(nz.ys)))
    g2 = regions.global_region(dh=2.0 if quick else 1.0)
    axes.append(('global.xs', numpy.array(g2.xs)))
    axes.append(('global.ys', numpy.array(g2.ys)))
    axes.append(('global 0.1 lon edges', calc.cleaner_range(-180.0, 180.0, 0.1)[:-1]))
    axes.append(('global 0.1 lat edges', calc.cleaner_range(-90.0, 90.0, 0.1)[:-1]))
    if not quick:
        for fn in (regions.nz_csep_collection_region, regions.italy_csep_collection_region,
                   regions.california_relm_collection_region):
            r = guarded(fn)
            if not isinstance(r, Raised):
                axes.append((r.name + '.xs', numpy.array(r.xs)))
                axes.append((r.name + '.ys', numpy.array(r.ys)))
        for (start, step) in grids:
            axes.append(('grid %s/%s x400' % (start, step), numpy.array(exact_edges(start, step, 400))))
    # grids whose step is larger than their first edge (no anchor-sized allowance helps): the quotient (v - a0) / h of an edge value
    # must still floor to the edge's index, for every index up to 400
    for (start, step) in (('0', '1.87'), ('0', '0.203'), ('0.1', '6.6'), ('1', '3.4'), ('0.5', '1.7'), ('5.95', '19.1'), ('0', '0.07'), ('-0.3', '0.7')):
        axes.append(('wide-step grid %s/%s x400' % (start, step), numpy.array(exact_edges(start, step, 400))))
    offs = [0, 1, 2, 3, 17, 4096, -1, -2, -3, -17, -100, -4096]
    if not quick:
        offs = sorted(set(offs + list(range(-64, 65)) + [-(2 ** i) for i in range(6, 13)] + [2 ** i for i in range(6, 13)]))
    tuples = {}
    example = {}
    for name, edges in axes:
        n = int(edges.size)
        for dt, dtname in ((numpy.float64, 'float64'),):
            v, pos = alpha.classify_near_edges(edges, offs, dt)
            for open_ in (False, True):
                r = guarded(calc.bin1d_vec, v.reshape(-1), edges, right_continuous=open_)
                chk.count(v.size)
                if isinstance(r, Raised):
                    chk.violation('trace:bin1d_vec raised on %s' % name, {'axis': name, 'err': repr(r)})
                    continue
                key = numpy.stack([pos.reshape(-1), numpy.asarray(r, dtype=numpy.int64)], axis=1)
                uniq, first = numpy.unique(key, axis=0, return_index=True)
                for (p_, i_), fi in zip(uniq.tolist(), first.tolist()):
                    t = (n, 1 if open_ else 0, int(p_), int(i_))
                    tuples[t] = tuples.get(t, 0) + 1
                    if t not in example:
                        example[t] = (name, float(v.reshape(-1)[fi]))
                    chk.nontrivial('t|%s|%d|%d' % (name, p_, open_))
        # float32 points against the float64 edges: neighbours of every edge in float32 steps, classified exactly
        if n <= 500:
            el64 = [float(x) for x in edges]
            v32 = []
            for e_ in el64:
                b32 = numpy.float32(e_)
                for j_ in (0, 1, -1, 2, -2, 9, -9):
                    x32 = b32
                    for _ in range(abs(j_)):
                        x32 = numpy.nextafter(x32, numpy.float32(numpy.inf if j_ > 0 else -numpy.inf))
                    v32.append(x32)
            v32 = numpy.array(v32, dtype=numpy.float32)
            for open_ in (False, True):
                r = guarded(calc.bin1d_vec, v32, edges, right_continuous=open_)
                chk.count(v32.size)
                if isinstance(r, Raised):
                    chk.violation('trace:bin1d_vec raised on float32 input', {'axis': name, 'err': repr(r)})
                    continue
                for x, i_ in zip(v32.tolist(), numpy.asarray(r).tolist()):
                    t = (n, 1 if open_ else 0, alpha.classify(float(x), el64, 'float32'), int(i_))
                    tuples[t] = tuples.get(t, 0) + 1
                    example.setdefault(t, (name + ' [float32 points]', x))
        # random interior / far values through the scalar classifier (exact fractions)
        lo, hi = float(edges[0]), float(edges[-1])
        h = float(edges[1] - edges[0]) if n > 1 else 1.0
        m = 60 if quick else 600
        vals = [rng.uniform(lo - 2 * h, hi + 3 * h) for _ in range(m)]
        el = [float(x) for x in edges]
        for open_ in (False, True):
            r = guarded(calc.bin1d_vec, numpy.array(vals), edges, right_continuous=open_)
            chk.count(m)
            if isinstance(r, Raised):
                chk.violation('trace:bin1d_vec raised on %s' % name, {'axis': name, 'err': repr(r)})
                continue
            for x, i_ in zip(vals, r.tolist()):
                t = (n, 1 if open_ else 0, alpha.classify(x, el), int(i_))
                tuples[t] = tuples.get(t, 0) + 1
                example.setdefault(t, (name, x))
    # integer inputs (int arrays, python ints) against float edges
    for (start, step) in [('0', '0.1'), ('-180', '1'), ('0', '2.5'), ('2.5', '0.1'), ('0', '0.05'), ('-20', '0.25'), ('-7', '0.5')]:
        el = exact_edges(start, step, 400)
        edges = numpy.array(el)
        ints = list(range(int(el[0]) - 3, int(el[-1]) + 4))
        for open_ in (False, True):
            for how in ('intarray', 'intlist'):
                arg = numpy.array(ints, dtype=numpy.int64) if how == 'intarray' else list(ints)
                r = guarded(calc.bin1d_vec, arg, edges, right_continuous=open_)
                chk.count(len(ints))
                if isinstance(r, Raised):
                    chk.violation('trace:bin1d_vec raised on integer input', {'grid': [start, step], 'err': repr(r)})
                    continue
                for x, i_ in zip(ints, numpy.asarray(r).tolist()):
                    t = (400, 1 if open_ else 0, alpha.classify(float(x), el), int(i_))
                    tuples[t] = tuples.get(t, 0) + 1
                    example.setdefault(t, ('int input on grid %s/%s' % (start, step), x))
                    chk.nontrivial('int|%s|%s|%d' % (start, step, x))
    # users of bin1d_vec: catalog magnitude index / counts, forecast magnitude index, discretize
    mags_edges = calc.cleaner_range(5.95, 8.95, 0.1)
    v, pos = alpha.classify_near_edges(mags_edges, [0, 1, -1, 5, -4096, 4096], numpy.float64)
    flat = v.reshape(-1)
    keep = flat >= mags_edges[0]
    cat = CSEPCatalog(data=[('e%d' % i, 0, 0.0, 0.0, 1.0, float(m_)) for i, m_ in enumerate(flat[keep])])
    mc = guarded(cat.magnitude_counts, mag_bins=mags_edges)
    chk.count()
    n = mags_edges.size
    if isinstance(mc, Raised):
        chk.violation('magnitude_counts raised', {'err': repr(mc)})
    else:
        # each value's admissible bins; the histogram must be reachable by choosing one admissible bin per value
        lo_cnt = numpy.zeros(n)
        hi_cnt = numpy.zeros(n)
        for p_ in pos.reshape(-1)[keep].tolist():
            al = table_allowed(n, True, p_)
            if len(al) == 1:
                lo_cnt[al[0]] += 1
                hi_cnt[al[0]] += 1
            else:
                for a_ in al:
                    hi_cnt[a_] += 1
        if not (numpy.all(mc >= lo_cnt) and numpy.all(mc <= hi_cnt) and mc.sum() == keep.sum()):
            chk.violation('magnitude_counts:histogram outside admissible range', {'got': mc.tolist()[:10],
                                                                                 'lo': lo_cnt.tolist()[:10], 'hi': hi_cnt.tolist()[:10]})
    dz = guarded(calc.discretize, flat[keep], mags_edges, right_continuous=True)
    chk.count()
    if isinstance(dz, Raised):
        chk.violation('discretize raised', {'err': repr(dz)})
    else:
        for x, p_, y in zip(flat[keep].tolist(), pos.reshape(-1)[keep].tolist(), dz.tolist()):
            al = table_allowed(n, True, p_)
            if y not in [float(mags_edges[a_]) for a_ in al if a_ >= 0]:
                chk.violation('discretize:value mapped to a non-admissible edge', {'x': x, 'pos': p_, 'got': y})
                break
    # ---- TLC validates the aggregated tuples
    tl = [list(t) for t in sorted(tuples)]
    ctl = [tl[0][0], tl[0][1], 1 * S + 0, 3]      # value exactly on edge 1 reported in bin 3: must be rejected
    acc, rej = chk.validate_traces('TraceBinning', 'Trace_Binning.cfg', tl + [ctl], chunk=20000, parallel=8)
    chk.traces -= len([i for i in acc if i >= len(tl)])
    chk.control('trace: (on edge 1 -> bin 3) rejected', len(tl) in {i for i, _ in rej})
    for i, _ in rej:
        if i >= len(tl):
            continue
        n_, o_, p_, i_ = tl[i]
        cls = {0: 'on-edge', 1: 'ulps-above-edge', 2: 'interior', 3: 'interior', 4: 'below-next-edge', 5: 'band'}[p_ % S]
        name, x = example[tuple(tl[i])]
        chk.violation('trace:%s:%s:%s' % (name, cls, 'open' if o_ else 'closed'),
                      {'axis': name, 'n': n_, 'open': o_, 'pos': p_, 'bin_of_value': p_ // S, 'reported': i_, 'value': repr(x),
                       'occurrences': tuples[tuple(tl[i])]})
    chk.sample({'trace_tuples': tl[:4], 'meaning': '[n, open, pos=k*6+class, reported index]'})
    chk.notes['axes'] = [a for a, _ in axes]
    chk.notes['ulp_offsets'] = len(offs)
    chk.notes['distinct_tuples'] = len(tl)
    chk.exhaustive = False
    chk.assume('band below an edge = 16*eps(dtype)*(k+2)*max(|a0|,|v|,h); inside it either adjacent bin is accepted, '
               'everywhere else exactly one answer')
    chk.assume('closed mode: the last edge opens a bin of one spacing (pinned by the repository tests); beyond it -1')


def table_allowed(n, open_, pos):
    """Axis.Allowed for long axes (same definition as spec/Axis.tla; used only to bound histograms, verdicts on
    single values go through TLC)."""
    k, c = pos // S, pos % S

    def bi(k_):
        if k_ < 0:
            return -1
        if k_ >= n:
            return n - 1 if open_ else -1
        return k_
    return sorted({bi(k), bi(k + 1)}) if c == 5 else [bi(k)]
