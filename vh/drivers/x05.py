"""X05 (extension, not a listed property) - Kolmogorov-Smirnov distances: calibration_test and sup_dist_na.

spec/KS.tla   TLC: OneBounds (1/(2n) <= D <= 1), OneIgnoresInvalidAndOrder, TwoSymmetric, TwoBounds, TwoZeroIffSameLaw over
        all result lists / sample pairs of <= 3 entries (1.8 M states).
spec -> code   GenKS: every list of <= 4 evaluation results (quantile k/4, valid or not) with the exact numerator of the
        one-sample distance, every pair of samples of <= 4 lattice values with the exact two-sample numerator; the real
        calibration_test (both quantile choices) and sup_dist_na / sup_dist must return exactly those rationals (to rounding).
        The reported p-value is compared with the exact Kolmogorov distribution evaluated independently (Marsaglia-Tsang-Wang
        matrix form in rational arithmetic) for n <= 4.
"""
import random
from fractions import Fraction

from vh.core import MachineryError, guarded, Raised

M = 4


def ks_cdf_exact(n, d):
    """P(D_n < d) by the Marsaglia-Tsang-Wang (2003) algorithm in exact rational arithmetic (d a Fraction)."""
    k = int(n * d) + 1
    m = 2 * k - 1
    h = k - n * d
    H = [[Fraction(0)] * m for _ in range(m)]
    for i in range(m):
        for j in range(m):
            H[i][j] = Fraction(1) if i - j + 1 >= 0 else Fraction(0)
    for i in range(m):
        H[i][0] -= h ** (i + 1)
        H[m - 1][i] -= h ** (m - i)
    H[m - 1][0] += (2 * h - 1) ** m if 2 * h - 1 > 0 else 0
    import math
    for i in range(m):
        for j in range(m):
            if i - j + 1 > 0:
                H[i][j] /= math.factorial(i - j + 1)

    def matmul(A, B):
        return [[sum(A[i][t] * B[t][j] for t in range(m)) for j in range(m)] for i in range(m)]
    R = [[Fraction(int(i == j)) for j in range(m)] for i in range(m)]
    for _ in range(n):
        R = matmul(R, H)
    s = R[k - 1][k - 1]
    for i in range(1, n + 1):
        s = s * i / n
    return s


def run(chk, replay=None):
    import numpy
    from csep.core import catalog_evaluations as ce
    from csep.utils import stats
    from csep.models import EvaluationResult
    quick = chk.tier == 'quick'
    rng = random.Random(chk.seed + 505)
    chk.rule = ('cases = every list of <= 4 results (quantile k/4, valid / not valid) and every pair of samples of <= 4 values '
                'from TLC (quick: a third), plus random larger ones against the same definitions computed in rational arithmetic. '
                'non-trivial = distinct cases with a tie, an invalid result or unequal sample sizes')
    res = chk.tlc('KS', 'MC_KS.cfg', timeout=1800, workers=8)
    chk.require_coverage(res, ['AddRes', 'Add1', 'Add2'])
    res = chk.tlc('GenKS', 'Gen_KS.cfg', workers=1, coverage=False, count_states=False, timeout=1800)
    cases = res.tagged.get('CASE', [])
    if len(cases) < 20000:
        raise MachineryError('Gen produced %d cases' % len(cases))
    if quick:
        pick = random.Random(chk.seed * 7919 + 5)
        cases = [c for c in cases if pick.random() < 1.0 / 3]

    def make_result(k, valid, i):
        r = EvaluationResult()
        r.name, r.sim_name, r.obs_name = 'T', 'f', 'o'
        r.min_mw = 4.0
        r.status = 'normal' if valid else 'not-valid'
        # delta_1 = 1 - k/M (+ tie mass 0), delta_2 = k/M ; not-valid results carry junk
        r.quantile = (1.0 - k / M, k / M) if valid else (None, None)
        r.observed_statistic = float(i)
        r.test_distribution = [0.0, 1.0]
        return r

    def check_one(case):
        import contextlib
        import io
        rs = [make_result(e['k'], e['valid'], i) for i, e in enumerate(case['res'])]
        n = case['n']
        want = Fraction(case['dnum'], M * n)
        with contextlib.redirect_stdout(io.StringIO()):
            got = guarded(ce.calibration_test, rs)
        chk.count()
        if isinstance(got, Raised):
            # the name of the result is taken from the first entry whatever its status: no reason to fail
            return {'why': 'raised', 'err': repr(got)}
        if abs(float(got.observed_statistic) - float(want)) > 1e-12:
            return {'why': 'statistic', 'got': float(got.observed_statistic), 'expected': str(want)}
        if [float(x) for x in got.test_distribution] != [e['k'] / M for e in case['res'] if e['valid']]:
            return {'why': 'quantiles kept', 'got': [float(x) for x in got.test_distribution]}
        # p-value = P(D_n >= d) under the null, exact for small n
        p_want = 1 - ks_cdf_exact(n, want)
        if not (abs(float(got.quantile) - float(p_want)) <= 1e-9):
            return {'why': 'p-value', 'got': float(got.quantile), 'expected': float(p_want), 'n': n, 'd': str(want)}
        # the other quantile choice: delta_1 = 1 - k/M mirrors the sample, the distance is that of the mirrored sample
        with contextlib.redirect_stdout(io.StringIO()):
            got1 = guarded(ce.calibration_test, rs, delta_1=True)
        chk.count()
        ks1 = sorted(M - e['k'] for e in case['res'] if e['valid'])
        want1 = max(max(Fraction(i + 1, n) - Fraction(k, M), Fraction(k, M) - Fraction(i, n)) for i, k in enumerate(ks1))
        if isinstance(got1, Raised) or abs(float(got1.observed_statistic) - float(want1)) > 1e-12:
            return {'why': 'statistic (delta_1)', 'got': repr(got1) if isinstance(got1, Raised) else float(got1.observed_statistic), 'expected': str(want1)}
        return None

    def check_two(case):
        a, b = case['a'], case['b']
        want = Fraction(case['dnum'], len(a) * len(b))
        vals = {1: -2.5, 2: 0.0, 3: 7.25}
        xa, xb = [vals[x] for x in a], [vals[x] for x in b]
        rng.shuffle(xa)
        got = guarded(stats.sup_dist_na, xa if len(a) % 2 else numpy.array(xa), numpy.array(xb))
        chk.count()
        if isinstance(got, Raised) or abs(float(got) - float(want)) > 1e-12:
            return {'why': 'sup_dist_na', 'got': repr(got), 'expected': str(want)}
        return None

    if replay:
        d = replay['detail']
        bad = check_one(d['case']) if d['case']['kind'] == 'one' else check_two(d['case'])
        if bad:
            chk.violation(replay['signature'], dict(d, mismatch=bad))
        chk.sample({'replayed': d['case']})
        return

    ok = 0
    for ci, case in enumerate(cases):
        if case['kind'] == 'one':
            bad = check_one(case)
            ks = [e['k'] for e in case['res'] if e['valid']]
            if len(set(ks)) < len(ks) or any(not e['valid'] for e in case['res']):
                chk.nontrivial('one|%s' % [(e['k'], e['valid']) for e in case['res']])
            first_invalid = not case['res'][0]['valid']
        else:
            bad = check_two(case)
            if len(case['a']) != len(case['b']) or len(set(case['a'])) < len(case['a']):
                chk.nontrivial('two|%s|%s' % (case['a'], case['b']))
            first_invalid = False
        if bad:
            chk.violation('%s:%s%s' % (case['kind'], bad['why'], ':first-result-not-valid' if first_invalid else ''), {'case': case, 'mismatch': bad})
        else:
            ok += 1
        if ci in (10, 5000):
            chk.sample({'case': case})
    chk.traces += ok
    import copy
    ctl = copy.deepcopy(next(c for c in cases if c['kind'] == 'one' and c['n'] >= 2))
    ctl['dnum'] += 1
    chk.control('gen: expected numerator raised by one flagged', check_one(ctl) is not None)
    # random larger samples (definitions evaluated in rational arithmetic)
    for t in range(30 if quick else 400):
        n = rng.choice([5, 17, 100])
        den = rng.choice([10, 64, 1000])
        ks = [rng.randint(0, den) for _ in range(n)]
        rs = []
        for i, k in enumerate(ks):
            r = make_result(0, True, i)
            r.quantile = (1.0 - k / den, k / den)
            rs.append(r)
        sk = sorted(ks)
        want = max(max(Fraction(i + 1, n) - Fraction(k, den), Fraction(k, den) - Fraction(i, n)) for i, k in enumerate(sk))
        got = guarded(ce.calibration_test, rs)
        chk.count()
        if isinstance(got, Raised) or abs(float(got.observed_statistic) - float(want)) > 1e-12 or not (0.0 <= float(got.quantile) <= 1.0):
            chk.violation('random:one-sample', {'n': n, 'den': den, 'ks_head': ks[:8], 'got': repr(got) if isinstance(got, Raised) else float(got.observed_statistic), 'expected': float(want)})
        a = [rng.randint(0, 20) for _ in range(rng.choice([3, 40, 300]))]
        b = [rng.randint(0, 20) for _ in range(rng.choice([3, 40, 300]))]
        pts = sorted(set(a) | set(b))
        want2 = max(abs(Fraction(sum(1 for x in a if x <= p), len(a)) - Fraction(sum(1 for x in b if x <= p), len(b))) for p in pts)
        got2 = guarded(stats.sup_dist_na, a, b)
        chk.count()
        if isinstance(got2, Raised) or abs(float(got2) - float(want2)) > 1e-12:
            chk.violation('random:two-sample', {'na': len(a), 'nb': len(b), 'got': repr(got2), 'expected': float(want2)})
        else:
            chk.traces += 1
        chk.nontrivial('rand|%d' % t)
    chk.exhaustive = True
    chk.assume('the p-value is compared for n <= 4 only (exact rational evaluation of the Kolmogorov distribution)')
