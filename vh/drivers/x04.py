"""X04 (extension, not a listed property) - whole sessions of the catalog API as single traces.

spec/PyCSEP.tla     TLC: FilterConjunction, SnapshotsToo, GriddableAfterFilters, CountsBounded, FullGridConserves,
        NTestSeesEverything, ObservationsArePure, FiltersOnlyRemove, FilterIdempotent, RoundTrip over all sessions of
        4 operations from 8 starting catalogs (18 operations: filters, region binding, gridding, four evaluations,
        dict and ASCII persistence).  MCbug_PyCSEP.cfg (a load that keeps the replaced object's statements) must be refuted.
spec -> code  GenPyCSEP: every session of 2 (thorough 3) operations exhaustively and long random sessions from TLC's
        simulator; each is executed on a real CSEPCatalog / GriddedForecast.
code -> spec  TracePyCSEP: after every call the real object is projected (event identities in order, region bound, outcome
        of the call) and TLC checks that the recorded session is a behaviour of PyCSEP.tla, step by step.  The evaluation
        statistics themselves (L, S, M observed log-likelihoods, N-test tail probabilities) are compared by the harness with
        the exact value computed from the counts the specification predicts.
"""
import datetime
import json
import os
import random

from vh.core import MachineryError, guarded, guarded_timeout, Raised

CELL = [1, 2, 0, 1, 2, 2]
BIN = [1, 2, 1, 0, 1, 2]
TIME = [1, 2, 2, 3, 3, 1]
# concrete attributes: two unit cells [0,1)x[0,1) and [1,2)x[0,1); magnitude edges 4.0, 5.0 (top open); times 1000/2000/3000 ms
LON = {1: 0.25, 2: 1.5, 0: 7.0}
MAG = {1: 4.5, 2: 6.25, 0: 3.5}
STMT = {'f_m1': 'magnitude >= 4.0', 'f_m2': 'magnitude >= 5.0', 'f_t2': 'origin_time >= 2000', 'f_tlt3': 'origin_time < 3000'}
RATES = [[0.7, 0.05], [1.3, 0.2]]


def run(chk, replay=None):
    import numpy
    import mpmath
    import csep
    from csep.core.catalogs import CSEPCatalog
    from csep.core.regions import CartesianGrid2D
    from csep.core.forecasts import GriddedForecast
    from csep.core import poisson_evaluations as pe
    quick = chk.tier == 'quick'
    rng = random.Random(chk.seed + 404)
    chk.rule = ('sessions = every sequence of 2 (thorough 3) API calls from 8 starting catalogs plus long random sessions from '
                'the TLC simulator, each executed on the real objects and validated step by step. non-trivial = distinct '
                'sessions containing a load after a save, a filter after a load, or an evaluation after a filter')
    res = chk.tlc('PyCSEP', 'MC_PyCSEP.cfg', timeout=1800)
    chk.require_coverage(res, ['Do'])
    r = chk.tlc('PyCSEP', 'MCbug_PyCSEP.cfg', expect='any', coverage=False, count_states=False)
    chk.control('model MCbug_PyCSEP.cfg refuted', r.violated == 'FilterConjunction')
    res = chk.tlc('GenPyCSEP', 'Gen_PyCSEP.cfg' if quick else 'GenT_PyCSEP.cfg', workers=1, coverage=False, count_states=False,
                  timeout=1800)
    cases = list(res.tagged.get('CASE', []))
    n_ex = len(cases)
    res = chk.tlc('GenPyCSEP', 'Sim_PyCSEP.cfg', workers=1, coverage=False, count_states=False, timeout=1800,
                  simulate='num=%d' % (400 if quick else 6000), depth=10, expect='any')
    cases += res.tagged.get('CASE', [])
    if n_ex < 2000 or len(cases) - n_ex < 300:
        raise MachineryError('Gen produced %d + %d sessions' % (n_ex, len(cases) - n_ex))
    chk.log('Gen: %d exhaustive + %d simulated sessions' % (n_ex, len(cases) - n_ex))

    mags = numpy.array([4.0, 5.0])

    def make_region():
        reg = CartesianGrid2D.from_origins(numpy.array([[0.0, 0.0], [1.0, 0.0]]), dh=1.0)
        reg.magnitudes = mags
        return reg
    fc = GriddedForecast(region=make_region(), magnitudes=mags, data=numpy.array(RATES, dtype=float), name='fc')
    fc.start_time, fc.end_time = datetime.datetime(2010, 1, 1), datetime.datetime(2011, 1, 1)
    path = os.path.join(chk.tmp, 'session.csv')

    def event(e, k):
        c, b, t = CELL[e - 1], BIN[e - 1], TIME[e - 1]
        # (id, origin_time, lat, lon, depth, mag); k disambiguates repeated identities
        return ('ev%d' % e, 1000 * t, 0.5, LON[c], 10.0, MAG[b])

    def project(cat):
        ids = []
        for row in cat.catalog.tolist():
            s = row[0].decode() if isinstance(row[0], bytes) else str(row[0])
            e = int(s[2:]) if s.startswith('ev') and s[2:].isdigit() else 0
            if e and (int(row[1]) != 1000 * TIME[e - 1] or float(row[3]) != LON[CELL[e - 1]] or float(row[5]) != MAG[BIN[e - 1]]):
                e = 0
            ids.append(e)
        return ids

    def exact_ll(counts, rates):
        tot = mpmath.mpf(0)
        for w, lam in zip(counts, rates):
            lam = mpmath.mpf(lam)
            tot += -lam + w * mpmath.log(lam) - mpmath.loggamma(w + 1)
        return float(tot)

    flat_rates = [x for row in RATES for x in row]
    sp_rates = [sum(row) for row in RATES]
    mg_rates = [RATES[0][0] + RATES[1][0], RATES[0][1] + RATES[1][1]]

    base_total = float(numpy.array(RATES).sum())

    def read_fscale():
        """the forecast's scale factor in halves, read back from the object (0 = none of 1/2, 1, 2)"""
        tot = guarded(lambda: float(fc.sum()))
        dat = guarded(lambda: numpy.array(fc.data, dtype=float))
        for h in (1, 2, 4):
            if not isinstance(tot, Raised) and not isinstance(dat, Raised) and abs(tot - base_total * h / 2) <= 1e-12 * base_total and \
                    numpy.allclose(dat, numpy.array(RATES) * h / 2, rtol=1e-13, atol=0):
                return h
        return 0

    def run_session(case):
        fc.scale(1.0)
        init = list(case['init'])
        cat = CSEPCatalog(data=[event(e, k) for k, e in enumerate(init)], name='s')
        doc = None
        steps, numeric = [], []
        for si, op in enumerate(case['hist']):
            last = {'k': 'none', 'v': []}
            r = None
            if op in STMT:
                # alternate the two ways of filtering: in place, or a filtered copy that replaces the object
                if (si + len(init)) % 2:
                    r = guarded(cat.filter, STMT[op], in_place=True)
                else:
                    r = guarded(cat.filter, STMT[op], in_place=False)
                    if not isinstance(r, Raised):
                        cat = r
            elif op == 'f_list':
                r = guarded(cat.filter, [STMT['f_m1'], STMT['f_tlt3']])
            elif op == 'filter_spatial':
                r = guarded(cat.filter_spatial)
            elif op == 'bind_region':
                cat.region = make_region()
            elif op in ('sc', 'mc', 'smc'):
                fn = {'sc': cat.spatial_counts, 'mc': cat.magnitude_counts, 'smc': cat.spatial_magnitude_counts}[op]
                r = guarded(fn)
                if not isinstance(r, Raised):
                    a = numpy.asarray(r)
                    ok = a.shape == {'sc': (2,), 'mc': (2,), 'smc': (2, 2)}[op] and numpy.all(a == numpy.round(a))
                    last = {'k': op, 'v': [int(x) for x in a.reshape(-1)]} if ok else {'k': 'malformed', 'v': []}
            elif op == 'ntest':
                r = guarded(pe.number_test, fc, cat)
                if not isinstance(r, Raised):
                    n = r.observed_statistic
                    last = {'k': 'n', 'v': [int(n), read_fscale()]} if float(n) == int(n) else {'k': 'malformed', 'v': []}
                    numeric.append((si, 'ntest', [int(n), read_fscale()], tuple(float(x) for x in r.quantile), True))
            elif op in ('ltest', 'stest', 'mtest'):
                fn = {'ltest': pe.likelihood_test, 'stest': pe.spatial_test, 'mtest': pe.magnitude_test}[op]
                had_region = cat.region is not None
                r = guarded_timeout(30, fn, fc, cat, num_simulations=3, seed=5)
                if not isinstance(r, Raised):
                    # the counts the evaluation saw are recovered through the public counting call (the specification
                    # predicts them); the statistic is then compared with the exact value for those counts
                    kind = {'ltest': 'smc', 'stest': 'sc', 'mtest': 'mc'}[op]
                    cfn = {'smc': cat.spatial_magnitude_counts, 'sc': cat.spatial_counts,
                           'mc': lambda: cat.magnitude_counts(mag_bins=mags)}[kind]
                    a = guarded(cfn)
                    if isinstance(a, Raised):
                        last = {'k': 'malformed', 'v': []}
                    else:
                        v = [int(x) for x in numpy.asarray(a).reshape(-1)]
                        last = {'k': kind, 'v': v}
                        numeric.append((si, op, v + [read_fscale()], float(r.observed_statistic), had_region))
            elif op == 'deepcopy':
                import copy as _copy
                r = guarded(_copy.deepcopy, cat)
                if not isinstance(r, Raised):
                    cat = r
            elif op == 'pickle':
                import pickle
                r = guarded(lambda: pickle.loads(pickle.dumps(cat)))
                if not isinstance(r, Raised):
                    cat = r
            elif op in ('scale_half', 'scale_one', 'scale_two'):
                r = guarded(fc.scale, {'scale_half': 0.5, 'scale_one': 1.0, 'scale_two': 2.0}[op])
            elif op == 'to_dict':
                r = guarded(cat.to_dict)
                if not isinstance(r, Raised):
                    # through JSON text every other time
                    doc = r if si % 2 else json.loads(json.dumps(r, default=str))
            elif op == 'from_dict':
                r = guarded(CSEPCatalog.from_dict, doc) if doc is not None else Raised(ValueError('nothing stored'))
                if not isinstance(r, Raised):
                    cat = r
            elif op == 'write_ascii':
                r = guarded(cat.write_ascii, path)
            elif op == 'load_ascii':
                r = guarded(csep.load_catalog, path) if os.path.exists(path) else Raised(ValueError('nothing stored'))
                if not isinstance(r, Raised):
                    cat = r
            chk.count()
            if isinstance(r, Raised):
                last = {'k': 'raised', 'v': []}
            steps.append({'op': op, 'cat': project(cat), 'region': cat.region is not None, 'last': last, 'fscale': read_fscale(),
                          'note': r.text if isinstance(r, Raised) else ''})
        if os.path.exists(path):
            os.remove(path)
        return steps, numeric

    def check_numeric(numeric):
        bad = []
        for si, op, v, got, had_region in numeric:
            v, h = v[:-1], v[-1]
            if h == 0:
                bad.append({'step': si, 'op': op, 'why': 'forecast scale is none of 1/2, 1, 2'})
                continue
            f = h / 2.0
            if op == 'ntest':
                # exact Poisson tails for the scaled total
                mean = mpmath.mpf(base_total) * h / 2
                n_ = v[0]
                pmf = [mpmath.exp(-mean + k * mpmath.log(mean) - mpmath.loggamma(k + 1)) for k in range(n_ + 1)]
                d2 = float(sum(pmf))
                d1 = float(1 - sum(pmf[:-1])) if n_ > 0 else 1.0
                chk.count()
                if abs(got[0] - d1) > 1e-9 or abs(got[1] - d2) > 1e-9:
                    bad.append({'step': si, 'op': op, 'n': n_, 'scale': f, 'got': list(got), 'expected': [d1, d2]})
                continue
            n = sum(v)
            if op == 'ltest':
                want = exact_ll(v, [x * f for x in flat_rates])
            elif n == 0:
                continue
            elif op == 'stest':
                want = exact_ll(v, [x * n / sum(sp_rates) for x in sp_rates])
            else:
                want = exact_ll(v, [x * n / sum(mg_rates) for x in mg_rates])
            chk.count()
            if not abs(got - want) <= 1e-9 * max(1.0, abs(want)):
                bad.append({'step': si, 'op': op, 'counts': v, 'got': got, 'expected': want})
        return bad

    if replay:
        d = replay['detail']
        steps, numeric = run_session(d['session'])
        chk.sample({'replayed': d['session'], 'steps': steps})
        bad = check_numeric(numeric)
        tr = {'init': d['session']['init'], 'steps': [{k: s[k] for k in ('op', 'cat', 'region', 'last', 'fscale')} for s in steps]}
        acc, rej = chk.validate_traces('TracePyCSEP', 'Trace_PyCSEP.cfg', [tr], chunk=10)
        if rej or bad:
            chk.violation(replay['signature'], dict(d, steps=steps, numeric=bad))
        return

    traces, metas = [], []
    for case in cases:
        steps, numeric = run_session(case)
        traces.append({'init': list(case['init']), 'steps': [{k: s[k] for k in ('op', 'cat', 'region', 'last', 'fscale')} for s in steps]})
        metas.append((case, steps))
        h = case['hist']
        if any(a in ('to_dict', 'write_ascii') and b in ('from_dict', 'load_ascii') for a, b in zip(h, h[1:])) or \
           any(a.startswith('f') and b.endswith('test') for a, b in zip(h, h[1:])):
            chk.nontrivial('%s|%s' % (case['init'], h))
        for b in check_numeric(numeric):
            chk.violation('numeric:%s' % b['op'], {'session': case, 'mismatch': b})
    import copy
    src = next(i for i, t in enumerate(traces) if len(t['steps']) >= 2 and len(t['steps'][-1]['cat']) >= 2)
    bad = copy.deepcopy(traces[src])
    bad['steps'][-1]['cat'] = bad['steps'][-1]['cat'][:-1]
    src2 = next(i for i, t in enumerate(traces) if any(s['last']['k'] == 'smc' and sum(s['last']['v']) > 0 for s in t['steps']))
    bad2 = copy.deepcopy(traces[src2])
    st = next(s for s in bad2['steps'] if s['last']['k'] == 'smc' and sum(s['last']['v']) > 0)
    j = next(i for i, x in enumerate(st['last']['v']) if x > 0)
    st['last']['v'][j] -= 1
    st['last']['v'][(j + 1) % 4] += 1
    acc, rej = chk.validate_traces('TracePyCSEP', 'Trace_PyCSEP.cfg', traces + [bad, bad2], chunk=400, parallel=14, timeout=1800)
    chk.traces -= len([i for i in acc if i >= len(traces)])
    rej_idx = {i for i, _ in rej}
    chk.control('trace: session whose last catalog lost an event rejected', len(traces) in rej_idx)
    chk.control('trace: session with one count moved to the neighbouring bin rejected', len(traces) + 1 in rej_idx)
    for i, diag in rej:
        if i >= len(traces):
            continue
        case, steps = metas[i]
        k = diag[-1]['explained_events'] if diag else 0
        st = steps[min(k, len(steps) - 1)]
        chk.violation('session:%s:%s' % (st['op'], st['last']['k']),
                      {'session': case, 'first_unexplained_step': st, 'index': k})
    chk.sample({'session': metas[7][0], 'steps': traces[7]['steps']})
    chk.sample({'long_session': metas[-1][0], 'last_step': traces[-1]['steps'][-1]})
    chk.notes['sessions_exhaustive'] = n_ex
    chk.notes['sessions_simulated'] = len(cases) - n_ex
    chk.assume('event identities are carried by the event id; a loaded event whose time, longitude or magnitude differs from its identity is projected to 0')
