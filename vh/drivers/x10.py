"""X10 (extension, not a listed property) - the summary statistics of a catalog object.

spec/CatalogStats.tla   the statistic attributes (min / max magnitude, latitude, longitude, start / end time) as a cache
        with explicit refresh points, next to the observers computed from the current events (event_count, get_bbox,
        length_in_seconds, get_bvalue, get_cumulative_number_of_events); TLC: StaleStatsStillBound, BoundsHold, StrIsFresh,
        BValueDefined, ObserversArePure, OnlyRemoves over all sessions of 4 calls from 7 starting catalogs with and without
        initial statistics (579 194 states).  MCbug (str() shows stale attributes) must be refuted.
spec -> code   GenCatalogStats: every session of 2 calls exhaustively (2 744) and long random sessions from TLC's simulator,
        each with the predicted outcome after every call; executed on a real CSEPCatalog: after every call the event
        identities in storage order, whether the attributes are those of the current events, and the value the call returned
        (statistics as ranks mapped back from the concrete values, the b-value against its closed form) are compared.
"""
import copy
import datetime
import math
import random

from vh.core import MachineryError, guarded, Raised, spell_flag

MAGK = [0, 2, 2, 5, 1]
TIMER = [1, 2, 3, 4, 5]
LONR = [3, 1, 5, 2, 4]
LATR = [2, 2, 4, 1, 3]
CELL = [1, 0, 1, 1, 0]
T0 = 1262304000000


def run(chk, replay=None):
    import numpy
    from csep.core.catalogs import CSEPCatalog
    from csep.core.regions import CartesianGrid2D
    quick = chk.tier == 'quick'
    chk.rule = ('sessions = every sequence of 2 calls from 7 starting catalogs (with / without initial statistics) exhaustively plus '
                'long random sessions from the TLC simulator, executed on a real CSEPCatalog and compared after every call. '
                'non-trivial = distinct sessions in which an observation follows a mutation')
    res = chk.tlc('CatalogStats', 'MC_CatalogStats.cfg', timeout=1800)
    chk.require_coverage(res, ['Do'])
    r = chk.tlc('CatalogStats', 'MCbug_CatalogStats.cfg', expect='any', coverage=False, count_states=False)
    chk.control('model MCbug_CatalogStats.cfg refuted', r.violated == 'StrIsFresh')
    res = chk.tlc('GenCatalogStats', 'Gen_CatalogStats.cfg', workers=1, coverage=False, count_states=False, timeout=1800)
    cases = list(res.tagged.get('CASE', []))
    n_ex = len(cases)
    res = chk.tlc('GenCatalogStats', 'Sim_CatalogStats.cfg', workers=1, coverage=False, count_states=False, timeout=1800,
                  simulate='num=%d' % (500 if quick else 8000), depth=10, expect='any')
    cases += res.tagged.get('CASE', [])
    if n_ex < 2500 or len(cases) - n_ex < 300:
        raise MachineryError('Gen produced %d + %d sessions' % (n_ex, len(cases) - n_ex))
    chk.log('Gen: %d exhaustive + %d simulated sessions' % (n_ex, len(cases) - n_ex))

    # concrete world: every rank has one concrete value per attribute; the region is a 20 x 10 lattice of 0.1-degree cells from
    # which the cells holding the events with Cell = 0 are left out (so 'outside the region' does not disturb the ranks)
    def concrete(e):
        i = e - 1
        lon = {1: 0.15, 2: 0.45, 3: 0.65, 4: 1.25, 5: 1.95}[LONR[i]]
        lat = {1: 0.15, 2: 0.35, 3: 0.55, 4: 0.85}[LATR[i]]
        mag = 4.0 + 0.5 * MAGK[i] + [0.0, 0.2, 0.49, 0.3, 0.1][i]
        return ('e%d' % e, T0 + 86400000 * TIMER[i] + 1000 * e, lat, lon, 5.0 + e, mag)

    def region():
        org = []
        for ix in range(20):
            for iy in range(10):
                org.append((round(0.1 * ix, 1), round(0.1 * iy, 1)))
        out_cells = {(round(math.floor(concrete(e)[3] * 10) / 10, 1), round(math.floor(concrete(e)[2] * 10) / 10, 1)) for e in range(1, 6) if not CELL[e - 1]}
        org = [o for o in org if o not in out_cells]
        return CartesianGrid2D.from_origins(numpy.array(org), dh=0.1, magnitudes=numpy.array([4.0 + 0.5 * k for k in range(8)]))

    REG = region()
    ID_OF = {('e%d' % e).encode(): e for e in range(1, 6)}
    VAL = {e: concrete(e) for e in range(1, 6)}

    def rank_back(field, value):
        """concrete statistic -> abstract rank (-1 for None, -9 if it is none of the events' values)"""
        if value is None:
            return -1
        table = {'mag': (5, MAGK), 'lat': (2, LATR), 'lon': (3, LONR), 'time': (1, TIMER)}
        col, ranks = table[field]
        for e in range(1, 6):
            v = VAL[e][col]
            if field == 'time':
                if isinstance(value, datetime.datetime):
                    ms = (value - datetime.datetime(1970, 1, 1, tzinfo=datetime.timezone.utc)) // datetime.timedelta(milliseconds=1)
                else:
                    ms = int(value)
                if ms == v:
                    return ranks[e - 1]
            elif abs(float(value) - v) < 1e-6:
                return ranks[e - 1]
        return -9

    def ids_of(cat):
        return [ID_OF.get(bytes(x), 0) for x in cat.get_event_ids()] if cat.event_count else []

    def attrs(cat):
        try:
            return [rank_back('mag', cat.min_magnitude), rank_back('mag', cat.max_magnitude), rank_back('lat', cat.min_latitude),
                    rank_back('lat', cat.max_latitude), rank_back('lon', cat.min_longitude), rank_back('lon', cat.max_longitude),
                    rank_back('time', cat.start_time), rank_back('time', cat.end_time)]
        except AttributeError:
            return None

    def stats_of(ids):
        if not ids:
            return [-1] * 8
        f = lambda tab: [tab[e - 1] for e in ids]      # noqa
        return [min(f(MAGK)), max(f(MAGK)), min(f(LATR)), max(f(LATR)), min(f(LONR)), max(f(LONR)), min(f(TIMER)), max(f(TIMER))]

    def run_session(case, si):
        start = case['start']
        data = [VAL[e] for e in start['cat']]
        cat = CSEPCatalog(data=data, region=REG if si % 2 else None, compute_stats=spell_flag(start['stats'], si))
        for step, (op, out) in enumerate(zip(case['hist'], case['outs'])):
            got = None
            if op == 'f_m':
                got = guarded(cat.filter, 'magnitude >= 5.0')
            elif op == 'f_t':
                got = guarded(cat.filter, ['origin_time >= %d' % (T0 + 86400000 * 3)])
            elif op in ('f_sp', 'f_sp0'):
                got = guarded(cat.filter_spatial, region=REG, update_stats=spell_flag(op == 'f_sp', si + step))
            elif op == 'copy_f':
                got = guarded(cat.filter, 'magnitude >= 4.5', in_place=spell_flag(False, si + step))
                if not isinstance(got, Raised):
                    if got is cat:
                        return [(step, op, 'filter(in_place=False) returned the same object', '', '')]
                    cat = got
            elif op == 'update':
                got = guarded(cat.update_catalog_stats)
            elif op == 'str':
                got = guarded(str, cat)
            elif op == 'set_rev':
                cat.catalog = cat.catalog[::-1]
            elif op == 'stats':
                a = attrs(cat)
                got = Raised(AttributeError('statistics never computed')) if a is None else a
            elif op == 'count':
                got = [cat.event_count if step % 2 else cat.get_number_of_events()]
            elif op == 'bbox':
                got = guarded(cat.get_bbox)
            elif op == 'length':
                got = guarded(cat.length_in_seconds)
            elif op == 'bvalue':
                got = guarded(cat.get_bvalue, mag_bins=[4.0 + 0.5 * k for k in range(8)], return_error=bool(step % 2))
            elif op == 'cum':
                got = guarded(cat.get_cumulative_number_of_events)
            else:
                raise MachineryError(op)
            chk.count()
            exp = out['last']
            ids = ids_of(cat)
            if ids != out['cat']:
                return [(step, op, 'events after the call', ids, out['cat'])]
            if exp['k'] == 'raised':
                if not isinstance(got, Raised):
                    return [(step, op, 'expected the call to raise', repr(got)[:200], '')]
            elif isinstance(got, Raised):
                return [(step, op, 'raised', got.text, exp)]
            elif exp['k'] == 'stats':
                if got != exp['v']:
                    return [(step, op, 'attributes', got, exp['v'])]
            elif exp['k'] == 'str':
                a = attrs(cat)
                if a != exp['v'][:8] or ('Event Count: %d' % exp['v'][8]) not in got:
                    return [(step, op, 'str()', [a, got[-40:]], exp['v'])]
            elif exp['k'] == 'count':
                if [int(got[0])] != exp['v']:
                    return [(step, op, 'count', got, exp['v'])]
            elif exp['k'] == 'bbox':
                g = [rank_back('lon', got[0]), rank_back('lon', got[1]), rank_back('lat', got[2]), rank_back('lat', got[3])]
                if g != exp['v']:
                    return [(step, op, 'bounding box', g, exp['v'])]
            elif exp['k'] == 'length':
                t_last, t_first = [next(VAL[e][1] for e in range(1, 6) if TIMER[e - 1] == r_) for r_ in exp['v']]
                if abs(float(got) - (t_last - t_first) / 1000.0) > 1e-9:
                    return [(step, op, 'length in seconds', float(got), (t_last - t_first) / 1000.0)]
            elif exp['k'] == 'bvalue':
                n, d = exp['v']
                if n == 0:
                    if got is not None:
                        return [(step, op, 'b-value should be undefined', repr(got), None)]
                else:
                    p = 1.0 + n / d
                    want = math.log(p) / (math.log(10) * 0.5)
                    b = got[0] if isinstance(got, tuple) else got
                    if b is None or abs(float(b) - want) > 1e-12 * max(1.0, want):
                        return [(step, op, 'b-value', repr(got), want)]
                    if isinstance(got, tuple):
                        err = (1 - p) / (math.log(10) * 0.5 * math.sqrt(len(ids) * p))
                        if abs(float(got[1]) - err) > 1e-12:
                            return [(step, op, 'b-value error', repr(got), err)]
            elif exp['k'] == 'cum':
                if [int(x) for x in got] != exp['v']:
                    return [(step, op, 'cumulative numbers', list(got)[:8], exp['v'])]
            # freshness of the attributes, judged from outside: fresh means they are those of the current events
            a = attrs(cat)
            if a is not None and out['fresh'] and a != stats_of(ids):
                return [(step, op, 'attributes are not those of the current events although the call refreshes them', a, stats_of(ids))]
        return []

    if replay:
        d = replay['detail']
        bad = run_session(d['case'], d['si'])
        if bad:
            chk.violation(replay['signature'], dict(d, mismatch=bad))
        chk.sample({'replayed': d['case']['hist']})
        return

    ok = 0
    muts = {'f_m', 'f_t', 'f_sp', 'f_sp0', 'copy_f', 'set_rev'}
    for si, case in enumerate(cases):
        bad = run_session(case, si)
        h = case['hist']
        if any(a in muts and b not in muts for a, b in zip(h, h[1:])):
            chk.nontrivial('%s|%s|%s' % (case['start']['cat'], case['start']['stats'], h))
        if bad:
            step, op = bad[0][0], bad[0][1]
            chk.violation('session:%s:%s:after %s%s' % (op, bad[0][2], h[step - 1] if step else 'start', '' if case['start']['cat'] else ':empty-start'),
                          {'case': case, 'si': si, 'mismatch': bad})
        else:
            ok += 1
        if si in (50, n_ex + 3):
            chk.sample({'start': case['start'], 'session': h, 'predicted': [o['last'] for o in case['outs']][:6]})
    chk.traces += ok
    ctl = copy.deepcopy(next(c for c in cases if c['hist'][-1] == 'bvalue' and c['outs'][-1]['last']['v'][0] > 0))
    ctl['outs'][-1]['last']['v'][1] += 1
    chk.control('gen: b-value prediction with another denominator flagged', bool(run_session(ctl, 0)))
    chk.exhaustive = True
    chk.notes['sessions_exhaustive'] = n_ex
    chk.notes['sessions_simulated'] = len(cases) - n_ex
    chk.assume('statistics are compared as ranks (each concrete value belongs to exactly one event per attribute, ties share a rank)')
