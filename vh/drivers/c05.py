"""C05 - Poisson L / CL / S / M statistics equal the Poisson joint log-likelihood.

spec/XR.tla, spec/PoissonLL.tla   TLC decides the STRUCTURE of each statistic (which bins, which marginal, which
        normalisation, ln-factorial terms, the count term, -inf iff an event sits in a zero-rate bin) for every 2x2
        rate-id matrix x every observation of <= 3 events x 4 kinds; invariants NegInfIff, LEqualsCL,
        MarginalsConsistent, Shape.
gen -> code   every case built as GriddedForecast + CSEPCatalog for several rate tables (1e-12..1e3) and evaluated by the
        four public tests; observed_statistic compared with the interpreted XR (mpmath, 50 digits).
code -> spec  random forecasts (up to 40x8 bins, zero rates, hundreds of events): TLC (TracePoissonLL) returns the XR of the
        observed statistic and of every simulated catalog (counts derived from injected uniform numbers by exact
        inverse-CDF placement); the library's observed_statistic and test_distribution must match.
"""
import random
from fractions import Fraction

from vh.core import MachineryError, guarded, Raised, same_evaluation
from vh import xr
from vh.invcdf import Cdf

RATE_TABLES = [
    {1: 0.5, 2: 2.0},
    {1: 1e-12, 2: 1e3},
    {1: 0.1, 2: 0.7},
    {1: 3.3e-7, 2: 12.25},
    {1: 1e3, 2: 1e-5},
    {1: 0.30000000000000004, 2: 0.1},
]
# whole-number rates: exactly representable as float32 and as integers (the rate array's dtype is the caller's)
INT_TABLE = {1: 2.0, 2: 5.0}


class Builder:
    def __init__(self):
        import numpy
        from csep.core.regions import CartesianGrid2D
        from csep.core.forecasts import GriddedForecast
        from csep.core.catalogs import CSEPCatalog
        self.numpy = numpy
        self.Grid = CartesianGrid2D
        self.GF = GriddedForecast
        self.Cat = CSEPCatalog
        self._regions = {}

    def region(self, nc):
        if nc not in self._regions:
            org = self.numpy.array([[float(i % 50), float(i // 50)] for i in range(nc)])
            self._regions[nc] = (org, None)
        org, _ = self._regions[nc]
        return self.Grid.from_origins(org, dh=1.0)

    def forecast(self, data, name='f', layout='C', dtype=None):
        """layout: 'C' contiguous, 'F' Fortran-ordered, 'T' a transposed view of a (magnitude, cell) table - the rate
        of (cell, bin) is the same in all three, only the memory order differs"""
        numpy = self.numpy
        nc, nb = data.shape
        mags = numpy.array([4.0 + b for b in range(nb)])
        arr = numpy.array(data, dtype=float)
        if layout == 'F':
            arr = numpy.asfortranarray(arr)
        elif layout == 'T':
            arr = numpy.ascontiguousarray(arr.T).T
        if dtype is not None:
            # rate arrays arrive as whatever the caller built: float32, integer ...
            arr = arr.astype(dtype)
        return self.GF(region=self.region(nc), magnitudes=mags, data=arr, name=name)

    def catalog(self, w, nc, nb, rng=None):
        data = []
        k = 0
        ev = []
        for c in range(nc):
            for b in range(nb):
                for _ in range(int(w[c][b])):
                    ev.append((c, b))
        if rng is not None:
            rng.shuffle(ev)
        for (c, b) in ev:
            k += 1
            lon = (c % 50) + [0.5, 0.0, 0.25, 0.9][k % 4]
            lat = (c // 50) + [0.5, 0.0, 0.75, 0.1][k % 4]
            mag = 4.0 + b + [0.5, 0.0, 0.99][k % 3]
            if b == nb - 1 and k % 4 == 3:
                mag += 2.6          # (the top bin is open-ended: an event far above its lower edge belongs to it)
            data.append(('e%d' % k, 1000 * k, lat, lon, 5.0, mag))
        mags = self.numpy.array([4.0 + b for b in range(nb)])
        reg = self.region(nc)
        reg.magnitudes = mags
        return self.Cat(data=data, region=reg, name='obs')


def call_test(pe, kind, fc, cat, nsim, random_numbers=None, seed=7):
    fn = {'L': pe.likelihood_test, 'CL': pe.conditional_likelihood_test, 'S': pe.spatial_test, 'M': pe.magnitude_test}[kind]
    if kind == 'L' or random_numbers is None:
        return guarded(fn, fc, cat, num_simulations=nsim, seed=seed)
    return guarded(fn, fc, cat, num_simulations=nsim, random_numbers=random_numbers)


def run(chk, replay=None):
    import numpy
    from csep.core import poisson_evaluations as pe
    if not xr.HAVE_MP:
        raise MachineryError('mpmath not available (run bin/setup)')
    quick = chk.tier == 'quick'
    rng = random.Random(chk.seed + 505)
    B = Builder()
    chk.rule = ('cases = every 2x2 rate-id matrix (ids 0..2, 0 = zero rate) x every observation of <=3 events x {L,CL,S,M} '
                'from TLC, evaluated for several rate tables; traces = random forecasts up to 40x8 with simulated catalogs. '
                'non-trivial = distinct (kind, rate-ids, counts) with a multi-event bin, a zero-rate bin or N_obs != 1')

    def check_case(case, table, dtype=None):
        kind, rid, w = case['kind'], case['rid'], case['w']
        nc, nb = len(rid), len(rid[0])
        data = numpy.array([[table.get(rid[c][b], 0.0) for b in range(nb)] for c in range(nc)], dtype=float)
        fc = B.forecast(data, dtype=dtype)
        cat = B.catalog(w, nc, nb)
        res = call_test(pe, kind, fc, cat, 2)
        chk.count()
        rates = {i: Fraction(float(v)) for i, v in table.items()}
        exp = xr.evaluate(case['stat'], rates)
        if isinstance(res, Raised):
            return {'why': 'raised', 'err': repr(res)}
        # a single-precision rate array is summed and log-transformed in single precision
        # (numpy also computes the logarithm of a 16-bit integer array in single precision)
        tol = {'rtol': 2e-6, 'atol': 2e-6} if dtype in ('float32', 'uint16') else {}
        if not xr.close(res.observed_statistic, exp, **tol):
            return {'why': 'observed_statistic', 'got': float(res.observed_statistic), 'expected': str(exp)}
        return None

    if replay:
        d = replay['detail']
        bad = check_case(d['case'], {int(k): v for k, v in d['table'].items()}, d.get('dtype'))
        if bad:
            chk.violation(replay['signature'], dict(d, mismatch=bad))
        chk.sample({'replayed': d['case']['rid']})
        chk.states = chk.transitions = 1
        return

    res = chk.tlc('PoissonLL', 'MC_PoissonLL.cfg', timeout=900)
    res = chk.tlc('GenPoissonLL', 'Gen_PoissonLL.cfg', workers=1, coverage=False, count_states=False, timeout=900)
    cases = res.tagged.get('CASE', [])
    if len(cases) < 10000:
        raise MachineryError('Gen produced %d cases' % len(cases))
    chk.log('Gen: %d cases' % len(cases))
    tables = RATE_TABLES[:2] if quick else RATE_TABLES
    nbad = 0
    pick_dt = random.Random(chk.seed * 7919 + 5)
    for ci, case in enumerate(cases):
        w = case['w']
        n = sum(map(sum, w))
        if n != 1 or any(x > 1 for r in w for x in r) or any(i == 0 for r in case['rid'] for i in r):
            chk.nontrivial('%s|%s|%s' % (case['kind'], case['rid'], w))
        for ti, table in enumerate(tables if not quick else [tables[ci % 2]] + ([tables[(ci + 1) % 2]] if ci % 5 == 0 else [])):
            bad = check_case(case, table)
            if bad:
                nbad += 1
                shape = ('neginf' if case['stat']['op'] == 'neginf' else
                         ('multi-event-bin' if any(x > 1 for r in w for x in r) else ('empty' if n == 0 else 'simple')))
                chk.violation('gen:%s:%s:%s' % (case['kind'], bad['why'], shape),
                              {'case': case, 'table': {str(k): v for k, v in table.items()}, 'mismatch': bad})
        if pick_dt.random() < 0.25:
            dt = pick_dt.choice(['float32', 'int64', 'int32', 'uint16'])
            bad = check_case(case, INT_TABLE, dt)
            if bad:
                nbad += 1
                chk.violation('gen:%s:%s:dtype-%s' % (case['kind'], bad['why'], dt),
                              {'case': case, 'table': {str(k): v for k, v in INT_TABLE.items()}, 'dtype': dt, 'mismatch': bad})
        if ci in (100, 7000):
            chk.sample({'case': {'kind': case['kind'], 'rid': case['rid'], 'w': w}, 'xr_stat': case['stat']})
    if nbad == 0:
        chk.traces += len(cases)
    # gen negative control: an XR with one coefficient perturbed must be flagged
    ctl = next(c for c in cases if c['stat']['op'] == 'sum' and len(c['stat']['kids']) >= 3 and c['kind'] == 'L')
    import copy
    badc = copy.deepcopy(ctl)
    badc['stat']['kids'][0]['cn'] += 1
    chk.control('gen: perturbed XR coefficient flagged', check_case(badc, RATE_TABLES[0]) is not None)

    # ---------------------------------------------------------------- code -> spec: random forecasts with simulations
    traces, results, metas = [], [], []
    n_tr = 40 if quick else 1500
    for t in range(n_tr):
        nc = rng.choice([2, 3, 7, 20, 40])
        nb = rng.choice([1, 2, 5, 8])
        kind = ['CL', 'S', 'M', 'L'][t % 4]
        # distinct rates, some zero; ids: equal floats share an id
        data = numpy.zeros((nc, nb))
        for c in range(nc):
            for b in range(nb):
                if rng.random() > 0.15:
                    data[c, b] = 10 ** rng.uniform(-8, 1.5)
        if data.sum() == 0:
            data[0, 0] = 1.0
        # every fifth forecast is held in single precision, with a few dominant bins in front of many small ones (a
        # total accumulated naively in float32 loses the small rates); the rates are then exactly the float32 values
        f32 = (t % 5 == 4)
        if f32:
            nc, nb = 150, 8
            data = numpy.array([[10 ** rng.uniform(-6, -3) for _ in range(nb)] for _ in range(nc)])
            data[0, 0] = 10 ** rng.uniform(2.5, 3)
            data = numpy.array(numpy.asarray(data, dtype=numpy.float32), dtype=float)
        if kind == 'L' and (t // 4) % 2 == 1 and not f32:
            # a forecast expecting about one event: the L-test then also simulates empty catalogs (statistic -N_fore)
            data = data * (rng.choice([0.7, 1.3]) / data.sum())
        near = t in (9, 10, 13) and not f32
        if near:
            # a forecast whose total is ALMOST the observed number (a relative 6e-6 away): the S- and M-test still rescale it
            data = data * (240 * (1 + [6.25e-6, -4e-6, 9e-6][t % 3]) / data.sum())
        ids = {}
        rid = [[0] * nb for _ in range(nc)]
        for c in range(nc):
            for b in range(nb):
                if data[c, b] > 0:
                    rid[c][b] = ids.setdefault(float(data[c, b]), len(ids) + 1)
        rates = {i: Fraction(v) for v, i in ids.items()}
        # observed catalog: events only in positive-rate bins mostly; sometimes in a zero-rate bin
        n_obs = rng.choice([0, 1, 2, 5, 30, 150 if not quick else 60])
        if near:
            n_obs = 240
        w = [[0] * nb for _ in range(nc)]
        pos = [(c, b) for c in range(nc) for b in range(nb) if data[c, b] > 0]
        zer = [(c, b) for c in range(nc) for b in range(nb) if data[c, b] == 0]
        crowd = t in (5, 6, 8) and not f32       # S-, M- and CL-test on a catalog that puts hundreds of events into one or two bins
        if crowd:
            n_obs = 400
        for _ in range(n_obs):
            c, b = rng.choice(zer) if (zer and rng.random() < 0.02 and not crowd) else rng.choice(
                pos[:2] if crowd else (pos[: max(1, len(pos) // 3)] if rng.random() < 0.6 else pos))
            w[c][b] += 1
        fc = B.forecast(data, layout=['C', 'F', 'T'][(t // 4) % 3], dtype=('float32' if f32 else None))
        if t % 7 in (3, 5) and not f32:
            # the same rates held as stored rates x an array scale factor (one factor per cell, or per bin; powers of two, so
            # the product is exactly `data`): the tests are functions of the rates the forecast reports
            sc = numpy.array([[2.0 ** rng.choice([-2, -1, 1, 3])] for _ in range(nc)])
            if t % 7 == 5 and t % 2:
                sc = sc * numpy.array([[2.0 ** rng.choice([-1, 0, 2]) for _ in range(nb)]])
            fc = B.forecast(data / sc, layout=['C', 'F', 'T'][(t // 4) % 3])
            fc.scale(sc)
            if numpy.array(fc.data, dtype=float).tobytes() != numpy.ascontiguousarray(data).tobytes():
                # (an answer of the library, not an input of the harness: reported, and the case is evaluated as it stands)
                chk.violation('trace:%s:array-scaled forecast does not report stored rates x factor' % kind, {'shape': [nc, nb], 't': t})
            chk.nontrivial('array-scale|%s|%d' % (kind, t))
        cat = B.catalog(w, nc, nb, rng)
        nsim = 3 if kind != 'L' else 12
        sims = []
        rn = None
        if kind != 'L':
            # the marginal the test simulates from
            if kind == 'CL':
                flat = [float(x) for x in data.ravel()]
            elif kind == 'S':
                flat = [float(x) for x in data.sum(axis=1)]
            else:
                flat = [float(x) for x in data.sum(axis=0)]
            cdf = Cdf(flat)
            rn = numpy.zeros((nsim, n_obs))
            for s in range(nsim):
                m = [[0] * nb for _ in range(nc)]
                for e in range(n_obs):
                    u, k = cdf.safe_draw(rng, margin=Fraction(1, 10 ** 4) if f32 else Fraction(1, 10 ** 9))
                    rn[s, e] = u
                    if kind == 'CL':
                        m[k // nb][k % nb] += 1
                    elif kind == 'S':
                        m[k][0] += 1
                    else:
                        m[0][k] += 1
                sims.append(m)
        if kind == 'L':
            # the L-test draws its own numbers: capture the catalogs its sampler returns (harness-side wrapper)
            from vh.drivers.c06 import Capture
            with Capture(numpy, {'poisson': pe}) as cap:
                res = call_test(pe, kind, fc, cat, nsim, rn, seed=chk.seed + t)
            if cap.incomplete:
                continue          # the sampler's numbers could not be observed: this L-test is not replayed
            for (_n, tgt, _w, _d, out) in cap.calls:
                a = numpy.asarray(out).reshape(nc, nb)
                if int(a.sum()) != int(tgt):
                    chk.violation('trace:L:simulated catalog does not hold the drawn number of events',
                                  {'shape': [nc, nb], 'drawn': int(tgt), 'events_in_catalog': int(a.sum()), 'total_rate': float(data.sum())})
                if int(tgt) == 0:
                    chk.nontrivial('L-empty-simulation|%d' % t)
                sims.append([[int(a[c, b]) for b in range(nb)] for c in range(nc)])
        else:
            res = call_test(pe, kind, fc, cat, nsim, rn, seed=chk.seed + t)
        chk.count()
        if t % 3 == 0 and not isinstance(res, Raised):
            # evaluating is an observation: the same call on the same forecast and catalog objects, after the other
            # tests ran on them, returns the same result, and the forecast's rates are untouched
            before = numpy.array(fc.data, dtype=float).tobytes()
            for other in ('S', 'M', 'CL', 'L'):
                if other != kind:
                    call_test(pe, other, fc, cat, 2, None, seed=1)
            again = call_test(pe, kind, fc, cat, nsim, rn, seed=chk.seed + t)
            chk.count(4)
            if not same_evaluation(res, again) or numpy.array(fc.data, dtype=float).tobytes() != before:
                chk.violation('trace:%s:re-evaluation on the same objects differs' % kind,
                              {'shape': [nc, nb], 'n_obs': n_obs, 'first': float(res.observed_statistic),
                               'again': repr(again) if isinstance(again, Raised) else float(again.observed_statistic),
                               'rates_changed': numpy.array(fc.data, dtype=float).tobytes() != before})
        traces.append({'kind': kind, 'rid': rid, 'w': w, 'sims': sims})
        results.append(res)
        metas.append({'kind': kind, 'shape': [nc, nb], 'n_obs': n_obs, 'rates': rates, 'data': data, 'f32': f32})
        chk.nontrivial('tr|%s|%d|%d|%d|%d' % (kind, nc, nb, n_obs, t))
    # TLC computes the expected XR for each trace
    import json
    import os
    path = os.path.join(chk.tmp, 'pll.json')
    with open(path, 'w') as f:
        json.dump(traces, f)
    r = chk.tlc('TracePoissonLL', 'Trace_PoissonLL.cfg', workers=1, env={'TRACE_FILE': path}, coverage=False, timeout=1800)
    exps = {e['tid']: e for e in r.tagged.get('EXPECT', [])}
    if len(exps) != len(traces):
        raise MachineryError('TLC returned %d EXPECT lines for %d traces' % (len(exps), len(traces)))
    ok_traces = 0
    ctl_done = False
    for i, tr in enumerate(traces):
        e = exps[i + 1]
        res = results[i]
        m = metas[i]
        if isinstance(res, Raised):
            chk.violation('trace:%s:raised' % tr['kind'], {'shape': m['shape'], 'n_obs': m['n_obs'], 'err': repr(res)})
            continue
        exp_obs = xr.evaluate(e['obs'], m['rates'])
        good = True
        # a single-precision forecast is summed and log-transformed in single precision by numpy: pairwise summation keeps
        # the total within a few float32 ulps (sequential accumulation would not)
        tol = {} if not m['f32'] else {'rtol': 3e-6, 'atol': 1e-6 * float(m['data'].sum()) + 2e-6 * m['n_obs']}
        if not xr.close(res.observed_statistic, exp_obs, **tol):
            good = False
            chk.violation('trace:%s:observed_statistic:%s' % (tr['kind'], 'neginf' if e['obs']['op'] == 'neginf' else 'finite'),
                          {'shape': m['shape'], 'n_obs': m['n_obs'], 'got': float(res.observed_statistic), 'expected': str(exp_obs)})
        for s, ex in enumerate(e['sims']):
            ev = xr.evaluate(ex, m['rates'])
            if not xr.close(res.test_distribution[s], ev, **tol):
                good = False
                chk.violation('trace:%s:test_distribution' % tr['kind'],
                              {'shape': m['shape'], 'n_obs': m['n_obs'], 'sim': s, 'got': float(res.test_distribution[s]), 'expected': str(ev)})
                break
            if not ctl_done and isinstance(ev, type(exp_obs)) and ev == ev and abs(float(ev)) > 1e-6 and ev != xr.NEG_INF:
                chk.control('trace: perturbed simulated statistic flagged',
                            not xr.close(float(res.test_distribution[s]) * (1 + 1e-6), ev))
                ctl_done = True
        # quantile score = fraction of simulated statistics not exceeding the observed one
        td = [float(x) for x in res.test_distribution]
        q_exp = sum(1 for x in td if x <= float(res.observed_statistic)) / len(td)
        if float(res.quantile) != q_exp:
            good = False
            chk.violation('trace:%s:quantile' % tr['kind'], {'got': float(res.quantile), 'expected': q_exp})
        ok_traces += 1 if good else 0
    chk.traces += ok_traces
    chk.sample({'trace': {'kind': traces[1]['kind'], 'rid_head': traces[1]['rid'][:2], 'w_head': traces[1]['w'][:2],
                          'code_observed_statistic': float(results[1].observed_statistic) if not isinstance(results[1], Raised) else None}})
    chk.exhaustive = True
    chk.notes['rate_tables'] = [{str(k): v for k, v in t.items()} for t in tables]
    chk.notes['tolerance'] = 'rtol 1e-9, atol 1e-11 against 50-digit evaluation'
    chk.assume('forecasts have at least one positive rate; observed events lie inside the region and magnitude range')
    chk.assume('injected uniform numbers are kept 1e-9 away from cumulative boundaries here (boundary placement is C06)')
