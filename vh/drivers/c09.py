"""C09 - empirical quantiles treat ties and out-of-range observations exactly.

spec/Ecdf.tla   TLC: the library's computation (sorted sample, searchsorted on the reversed ecdf, short-circuits)
                equals #{x>=v}/n and #{x<=v}/n for EVERY multiset of size <= 7 over 6 letters and every query on /
                between / outside the letters (22 295 states); SumIdentity, Bounds, Monotone.
gen -> code     every one of those cases in several concretisations and container types; returned float == count/n.
code -> trace   large samples with heavy ties; rank histogram + returned numerators checked by TLC (TraceEcdf).
"""
import copy
import random

from vh.core import MachineryError, guarded, Raised

A = 6


def letter_maps(numpy):
    eps = 2.0 ** -52
    return {
        'int': [2, 4, 6, 8, 10, 12],
        'float': [0.1, 0.2, 0.30000000000000004, 0.4, 0.5, 0.6],
        'neg': [-7.5, -3.25, -1.0, 0.0, 2.5, 1e9],
        'tiny': [1.0, 1.0 + eps, 1.0 + 2 * eps, 1.0 + 3 * eps, 1.0 + 4 * eps, 1.0 + 5 * eps],
        'large': [1e15, 1e15 + 1, 1e15 + 2, 1e15 + 3, 1e15 + 4, 1e15 + 5],
        'counts': [0, 1, 2, 3, 5, 8],
        'negint': [-7, -4, -3, -1, 0, 2],        # whole numbers around zero: half-integer queries are negative
        'bigcount': [99999, 100000, 100001, 100002, 2500000, 10 ** 9],      # event counts of large catalogs: neighbours differ by 1
        # whole numbers beyond 2**53 (nanosecond time stamps, 64-bit identifiers): neighbours are not distinguishable as doubles
        'hugeint': [2 ** 53, 2 ** 53 + 1, 2 ** 53 + 2, 2 ** 53 + 3, 2 ** 60 + 1, 2 ** 62 + 1],
        'withinf': [float('-inf'), -2.0, -1.0, 0.5, 3.5, float('inf')],      # log-likelihoods of impossible catalogs are -inf
    }


INTKINDS = ('int', 'counts', 'negint', 'bigcount', 'hugeint')


def query_value(vals, q, kind):
    """q in 1..2A+1 -> concrete value: even = letter q/2, odd = strictly between neighbours / outside."""
    import math
    if q % 2 == 0:
        return vals[q // 2 - 1]
    i = q // 2          # between letter i and i+1 (1-based); i = 0 below all, i = A above all
    if kind == 'withinf':
        if i == 0 or i == len(vals):
            return None             # nothing lies below -inf / above +inf
        lo, hi = vals[i - 1], vals[i]
        return -1e300 if lo == -math.inf else (1e300 if hi == math.inf else lo + (hi - lo) / 2)
    if i == 0:
        return vals[0] - 1 if kind in INTKINDS else (math.nextafter(vals[0], -math.inf))
    if i == len(vals):
        return vals[-1] + 1 if kind in INTKINDS else (math.nextafter(vals[-1], math.inf))
    lo, hi = vals[i - 1], vals[i]
    if kind == 'hugeint':
        return (lo + hi) // 2 if hi - lo >= 2 else None       # (a half is not representable next to such numbers)
    if kind in INTKINDS:
        return lo + 0.5 if hi - lo >= 1 else None
    mid = lo + (hi - lo) / 2
    if lo < mid < hi:
        return mid
    return None   # adjacent floats: nothing strictly between


def numerator(x, n):
    """alpha: exact recovery of k from the float k/n the library returned (None if not of that form)."""
    if x is None:
        return None
    import math
    if not math.isfinite(float(x)):
        return None
    k = int(round(float(x) * n))
    if 0 <= k <= n and k / n == float(x):
        return k
    return None


def run(chk, replay=None):
    import numpy
    from csep.utils import stats
    quick = chk.tier == 'quick'
    chk.rule = ('cases = every non-empty multiset of size <= 7 over a 6-letter alphabet x 13 queries (TLC enumerates; '
                'exhaustive), each in several value maps (ints, floats, negatives, adjacent floats, 1e15) and containers; '
                'traces = random samples of 1e3..1e5 values with heavy ties. non-trivial = distinct (multiset, query) '
                'with a tie at the query or the query outside the sample range')
    maps = letter_maps(numpy)
    DTYPES = {'npuint8': numpy.uint8, 'npuint64': numpy.uint64, 'npint32': numpy.int32, 'npint8': numpy.int8,
              'npfloat32': numpy.float32, 'npuint16': numpy.uint16}

    def eval_case(cnt, n, ge, le, kind, container):
        vals = maps[kind]
        sample = []
        for i, c in enumerate(cnt):
            sample += [vals[i]] * c
        rng.shuffle(sample)
        if container == 'list':
            x = list(sample)
        elif container == 'nparray':
            x = numpy.array(sample)
        elif container == 'npint' and kind in INTKINDS:
            x = numpy.array(sample, dtype=numpy.int64)
        elif container in DTYPES and kind == 'negint' and 'uint' in container:
            x = numpy.array(sample, dtype=numpy.int64)        # (negative values: signed storage)
        elif kind == 'hugeint':
            x = list(sample) if container == 'list' else numpy.array(sample, dtype=(numpy.uint64 if container == 'npuint64' else numpy.int64))
        elif container in DTYPES and kind == 'bigcount':
            x = numpy.array(sample, dtype=(numpy.uint64 if container == 'npuint64' else (numpy.int32 if container == 'npint32' else numpy.int64)))
        elif container in DTYPES and kind in INTKINDS:
            # event counts arrive in whatever integer / float dtype the caller's arrays have
            x = numpy.array(sample, dtype=DTYPES[container])
        else:
            x = numpy.array(sample, dtype=float)
        bad = []
        for q in range(1, 2 * A + 2):
            val = query_value(vals, q, kind)
            if val is None:
                continue
            g = guarded(stats.greater_equal_ecdf, x, val)
            l = guarded(stats.less_equal_ecdf, x, val)
            dd = guarded(stats.get_quantiles, x, val)
            chk.count(3)
            if isinstance(g, Raised) or float(g) != ge[q - 1] / n:
                bad.append(('greater_equal_ecdf', q, val, repr(g), ge[q - 1], n))
            if isinstance(l, Raised) or float(l) != le[q - 1] / n:
                bad.append(('less_equal_ecdf', q, val, repr(l), le[q - 1], n))
            if isinstance(dd, Raised) or tuple(dd) != (g, l):
                bad.append(('get_quantiles', q, val, repr(dd), (ge[q - 1], le[q - 1]), n))
            if container != 'list' and q % 3 == 0:
                # the same two calls with the precomputed cdf pair the library offers for repeated queries
                pre = guarded(stats.ecdf, x)
                g2 = pre if isinstance(pre, Raised) else guarded(stats.greater_equal_ecdf, x, val, cdf=pre)
                l2 = pre if isinstance(pre, Raised) else guarded(stats.less_equal_ecdf, x, val, cdf=pre)
                chk.count(2)
                if isinstance(g2, Raised) or float(g2) != ge[q - 1] / n:
                    bad.append(('greater_equal_ecdf(cdf=)', q, val, repr(g2), ge[q - 1], n))
                if isinstance(l2, Raised) or float(l2) != le[q - 1] / n:
                    bad.append(('less_equal_ecdf(cdf=)', q, val, repr(l2), le[q - 1], n))
                if not isinstance(pre, Raised) and q % 6 == 0:
                    # the pair ecdf() hands out belongs to the caller (levels are turned into per cent for a plot): a later
                    # query on the sample is not affected by what the caller does with it
                    try:
                        pre[1][...] = pre[1] * 100.0
                        pre[0][...] = 0
                    except (ValueError, TypeError, IndexError):
                        pass
                    dd2 = guarded(stats.get_quantiles, x, val)
                    chk.count()
                    if isinstance(dd2, Raised) or (float(dd2[0]), float(dd2[1])) != (ge[q - 1] / n, le[q - 1] / n):
                        bad.append(('get_quantiles after the caller edited the arrays returned by ecdf()', q, val, repr(dd2), (ge[q - 1], le[q - 1]), n))
        return bad

    rng = random.Random(chk.seed + 909)
    if replay:
        d = replay['detail']
        bad = eval_case(d['cnt'], d['n'], d['ge'], d['le'], d['kind'], d['container'])
        if bad:
            chk.violation(replay['signature'], dict(d, mismatches=bad[:5]))
        chk.sample({'replayed': d['cnt']})
        chk.states = chk.transitions = 1
        return

    res = chk.tlc('Ecdf', 'MC_Ecdf.cfg', timeout=900)
    chk.require_coverage(res, ['Next'])
    if res.distinct != 22295:
        raise MachineryError('expected 22295 states (1715 multisets x 13 queries), got %d' % res.distinct)
    res = chk.tlc('GenEcdf', 'Gen_Ecdf.cfg', workers=1, coverage=False, timeout=900, count_states=False)
    cases = res.tagged.get('CASE', [])
    if len(cases) != 1715:
        raise MachineryError('Gen emitted %d multisets, expected 1715' % len(cases))
    kinds = ['int', 'float', 'neg', 'tiny'] if quick else list(maps)
    containers = ['list', 'nparray', 'npint', 'npuint8', 'npfloat32', 'npuint64', 'npint32', 'npint8', 'npuint16']
    if 'counts' not in kinds:
        kinds = kinds + ['counts']
    if 'negint' not in kinds:
        kinds = kinds + ['negint']
    if 'withinf' not in kinds:
        kinds = kinds + ['withinf']
    if 'bigcount' not in kinds:
        kinds = kinds + ['bigcount']
    if 'hugeint' not in kinds:
        kinds = kinds + ['hugeint']
    nb = 0
    for ci, case in enumerate(cases):
        cnt, n, ge, le = case['cnt'], case['n'], case['ge'], case['le']
        for q in range(1, 2 * A + 2):
            if (q % 2 == 0 and cnt[q // 2 - 1] >= 2) or ge[q - 1] in (0, n) or le[q - 1] in (0, n):
                chk.nontrivial('%s|%d' % (cnt, q))
        for ki, kind in enumerate(kinds):
            cont = rng.choice(containers)
            bad = eval_case(cnt, n, ge, le, kind, cont)
            if bad:
                fn = bad[0][0]
                q = bad[0][1]
                cls = 'on-tie' if q % 2 == 0 and cnt[q // 2 - 1] >= 2 else ('on-value' if q % 2 == 0 else (
                    'below-all' if q == 1 else ('above-all' if q == 2 * A + 1 else 'between')))
                # (unsigned 64-bit samples beyond 2**53 queried with a Python int are a finding of their own: numpy compares the
                #  two through float64)
                special = ':uint64-beyond-2**53' if (kind == 'hugeint' and cont == 'npuint64') else ''
                if chk.violation('gen:%s:%s%s' % (fn if not special else 'ecdf', cls if not special else 'query', special),
                                 {'cnt': cnt, 'n': n, 'ge': ge, 'le': le, 'kind': kind, 'container': cont, 'mismatches': bad[:5]}):
                    nb += 1
        if ci < 2:
            chk.sample({'multiset_counts': cnt, 'n': n, 'expected_ge_numerators': ge, 'expected_le_numerators': le})
    if nb == 0:
        chk.traces += len(cases)
    # gen negative control
    c0 = cases[100]
    perturbed = list(c0['ge'])
    perturbed[3] += 1
    chk.control('gen: perturbed expected numerator flagged',
                bool(eval_case(c0['cnt'], c0['n'], perturbed, c0['le'], 'int', 'list')))

    # binned_ecdf == less_equal at each val
    for _ in range(50 if quick else 5000):
        n = rng.randint(1, 30)
        x = [rng.randint(0, 8) for _ in range(n)]
        vals = sorted(set(rng.randint(-1, 9) for _ in range(6)))
        out = guarded(stats.binned_ecdf, x, vals)
        chk.count()
        exp = [sum(1 for a in x if a <= vv) / n for vv in vals]
        if isinstance(out, Raised) or [float(a) for a in out[1]] != exp:
            chk.violation('binned_ecdf', {'x': x, 'vals': vals, 'got': repr(out), 'exp': exp})

    # queries at the ends of the float range (below / above every sample value whatever the sample), with and without a
    # precomputed (sorted values, cumulative fractions) pair passed as cdf
    for t in range(40 if quick else 400):
        n = rng.randint(1, 12)
        x = [rng.choice([-3, 0, 0, 2, 7, 7.5, 1e300, -1e300]) for _ in range(n)]
        xs = numpy.array(x, dtype=float)
        for val, want_ge, want_le in ((float('inf'), sum(1 for a in x if a >= float('inf')), n), (float('-inf'), n, 0),
                                      (1.7976931348623157e308, 0, n), (-1.7976931348623157e308, n, 0)):
            for style in ('list', 'array', 'cdf'):
                kw = {}
                arg = x if style == 'list' else xs
                if style == 'cdf':
                    pre = guarded(stats.ecdf, xs)
                    if isinstance(pre, Raised):
                        chk.violation('ecdf raised', {'x': x, 'err': repr(pre)})
                        continue
                    kw = {'cdf': pre}
                g = guarded(stats.greater_equal_ecdf, arg, val, **kw)
                l = guarded(stats.less_equal_ecdf, arg, val, **kw)
                chk.count(2)
                if isinstance(g, Raised) or isinstance(l, Raised) or float(g) != want_ge / n or float(l) != want_le / n:
                    chk.violation('extreme query:%s' % style, {'x': x, 'val': val, 'ge': repr(g), 'le': repr(l), 'expected': [want_ge / n, want_le / n]})
        chk.nontrivial('extreme|%d' % t)

    # the same array object queried, overwritten in place with another sample (a reused buffer) and queried again: the
    # answer is a function of the current contents
    for t in range(30 if quick else 300):
        n = rng.randint(1, 9)
        buf = numpy.zeros(n)
        for rep in range(3):
            sample = [float(rng.randint(0, 6)) for _ in range(n)]
            buf[:] = sample
            v = float(rng.randint(-1, 7))
            g = guarded(stats.greater_equal_ecdf, buf, v)
            l = guarded(stats.less_equal_ecdf, buf, v)
            dd = guarded(stats.get_quantiles, buf, v)
            be_ = guarded(stats.binned_ecdf, buf, [v])
            chk.count(4)
            wg, wl = sum(1 for a in sample if a >= v) / n, sum(1 for a in sample if a <= v) / n
            if isinstance(g, Raised) or isinstance(l, Raised) or isinstance(dd, Raised) or isinstance(be_, Raised) or \
                    float(g) != wg or float(l) != wl or tuple(float(x) for x in dd) != (wg, wl) or float(be_[1][0]) != wl:
                chk.violation('reused buffer', {'sample': sample, 'v': v, 'round': rep, 'ge': repr(g), 'le': repr(l), 'quantiles': repr(dd),
                                                'expected': [wg, wl]})
                break
        chk.nontrivial('buffer|%d' % t)

    # code -> trace: large samples, heavy ties
    traces = []
    n_tr = 60 if quick else 2500
    for t in range(n_tr):
        K = rng.randint(1, 40)
        base = sorted(rng.sample(range(-500, 500), K))
        if rng.random() < 0.5:
            base = [b * 0.37 for b in base]
        n = rng.choice([1, 2, 10, 1000, 20000, 100000] if not quick else [1, 2, 10, 1000, 20000])
        idx = numpy.random.default_rng(chk.seed * 1000 + t).integers(0, K, size=n)
        x = numpy.array(base)[idx]
        present = sorted(set(idx.tolist()))
        distinct = [base[i] for i in present]
        cnt = [int((idx == i).sum()) for i in present] + [0] * (40 - len(present))
        qs = []
        ok_alpha = True
        for _ in range(25):
            q = rng.randint(1, 2 * len(distinct) + 1)
            val = query_value(distinct, q, 'floatish')
            if val is None:
                continue
            g = guarded(stats.greater_equal_ecdf, x, val)
            l = guarded(stats.less_equal_ecdf, x, val)
            chk.count(2)
            kg = None if isinstance(g, Raised) else numerator(g, n)
            kl = None if isinstance(l, Raised) else numerator(l, n)
            if kg is None or kl is None:
                chk.violation('trace:not-a-multiple-of-1/n', {'n': n, 'q': q, 'ge': repr(g), 'le': repr(l)})
                continue
            qs.append([q, kg, kl])
            if q % 2 == 0:
                chk.nontrivial('tr|%d|%d|%d' % (t, q, n))
        traces.append({'cnt': cnt, 'n': n, 'qs': qs})
    bad = copy.deepcopy(next(t for t in traces if t['qs']))
    bad['qs'][0][1] += 1
    acc, rej = chk.validate_traces('TraceEcdf', 'Trace_Ecdf.cfg', traces + [bad], chunk=500)
    chk.traces -= len([i for i in acc if i >= len(traces)])
    chk.control('trace: corrupted numerator rejected', len(traces) in {i for i, _ in rej})
    for i, _ in rej:
        if i < len(traces):
            chk.violation('trace:sample-%d-distinct' % sum(1 for c in traces[i]['cnt'] if c), traces[i])
    chk.sample({'trace': {'cnt': traces[0]['cnt'][:8], 'n': traces[0]['n'], 'qs': traces[0]['qs'][:3]}})
    chk.exhaustive = True
    chk.notes['constants'] = {'A': 6, 'MaxN': 7, 'value_maps': kinds}
    chk.assume('returned probabilities are compared bit-exactly with the correctly rounded quotient count/n')
