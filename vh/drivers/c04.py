"""C04 - catalog filtering keeps exactly the events that satisfy every statement.

spec/Filter.tla   TLC: ExactSelection (the current catalog = the source events satisfying EVERY statement issued so far, in
        order and unchanged - which gives order / grouping independence and idempotence), OrderPreserved, NonMutating,
        over all catalogs of <=1 (quick) / <=2 (thorough) events on a 3-point domain x all histories of 2 calls
        (single statement, statement pair, spatial; both in_place modes).
gen -> code   every 2-call history on three fixed rich catalogs (44 652 histories) replayed on real CSEPCatalog objects for
        rotating attribute pairs / value triples (ties with the threshold, negative depths, pre-1970 times, datetime form).
code -> spec  random catalogs (0..200 events, heavy ties) and random call histories; exact per-event comparison classes;
        TLC replays the object model (TraceFilter).
"""
import calendar
import datetime
import os
import random

from vh.core import MachineryError, guarded, Raised, spell_flag

ATTRS = ['origin_time', 'latitude', 'longitude', 'depth', 'magnitude']
# (below, threshold, above) triples per attribute
TRIPLES = {
    'magnitude': [(3.95, 4.0, 4.05), (4.0, 4.05, 5.0), (5.949999999999999, 5.95, 5.950000000000001)],
    'depth': [(-1.5, 0.0, 10.0), (9.9, 30.0, 30.5), (29.999999999999996, 30.0, 30.000000000000004)],
    'latitude': [(-33.05, -33.0, -32.95), (0.25, 0.5, 0.75)],
    'longitude': [(-117.05, -117.0, -116.95), (179.25, 179.5, 179.75)],
    'origin_time': [(946684799999, 946684800000, 946684800001), (-86400001, -86400000, -86399999),
                    (1262304000122, 1262304000123, 1262304000124), (-1, 0, 1)],
}


def fmt_dt(ms):
    d = datetime.datetime(1970, 1, 1) + datetime.timedelta(milliseconds=ms)
    return d.strftime('%Y-%m-%d %H:%M:%S.%f')


def spell(thr, style):
    """one of several spellings of the same number (all of them parse back to exactly thr)"""
    cands = [repr(thr), '%.17g' % thr, '%.16e' % thr, '%.17e' % thr, ('%.16e' % thr).replace('e+', 'E+').replace('e-', 'E-')]
    if float(thr).is_integer() and abs(thr) < 1e15:
        cands += ['%d' % int(thr), '%d.0' % int(thr), '%.1f' % thr]
        m, e = ('%e' % thr).split('e')
        if float(m.rstrip('0').rstrip('.') + 'e' + e) == thr:
            cands.append(m.rstrip('0').rstrip('.') + 'e' + str(int(e)))      # e.g. 3e1, 9.466848e11
    s_ = cands[style % len(cands)]
    return s_ if float(s_) == float(thr) else repr(thr)


def statement(attr, op, thr, use_datetime, style=0):
    if attr == 'origin_time' and use_datetime:
        return 'datetime %s %s' % (op, fmt_dt(thr))
    return '%s %s %s' % (attr, op, spell(thr, style))


class Realisation:
    """Concrete meaning of the abstract attributes a, b and of the inside flag."""

    def __init__(self, numpy, attr_a, attr_b, ta, tb, use_datetime):
        from csep.core.regions import CartesianGrid2D
        self.attr = {'a': attr_a, 'b': attr_b}
        self.tri = {'a': ta, 'b': tb}
        self.use_datetime = use_datetime
        lat_vals = ta if attr_a == 'latitude' else (tb if attr_b == 'latitude' else (0.5, 0.5, 0.5))
        lon_vals = ta if attr_a == 'longitude' else (tb if attr_b == 'longitude' else (0.5, 0.5, 0.5))
        self.lat_default, self.lon_default = lat_vals[1], lon_vals[1]
        y0 = float(int(min(lat_vals)) - 1)
        x0 = float(int(min(lon_vals)) - 1)
        self.region = CartesianGrid2D.from_origins(numpy.array([[x0, y0], [x0 + 2.0, y0]]), dh=2.0)
        self.lat_free = 'latitude' not in (attr_a, attr_b)
        self.lon_free = 'longitude' not in (attr_a, attr_b)
        self.spatial_ok = self.lat_free or self.lon_free

    def event(self, e, t):
        f = {'origin_time': 1000000000000 + t, 'latitude': self.lat_default, 'longitude': self.lon_default,
             'depth': 10.0, 'magnitude': 5.0}
        f[self.attr['a']] = self.tri['a'][e['a']]
        f[self.attr['b']] = self.tri['b'][e['b']]
        if not e['s']:
            if self.lon_free:
                f['longitude'] = self.lon_default + 50.0
            else:
                f['latitude'] = self.lat_default + 50.0
        return ('u%d' % e['u'], f['origin_time'], f['latitude'], f['longitude'], f['depth'], f['magnitude'])

    def stmt(self, st):
        return statement(self.attr[st['attr']], st['op'], self.tri[st['attr']][1], self.use_datetime)


def ids_of(cat):
    return [int(x.decode()[1:]) for x in cat.get_event_ids()] if cat.event_count else []


def full_rows(cat):
    return [tuple(r) for r in cat.catalog.tolist()]


def run_history(real, src, hist, numpy, check_fields=True):
    """Drive a real catalog along hist; returns (list of id lists of all objects, index of current, problems)."""
    from csep.core.catalogs import CSEPCatalog
    rows = [real.event(e, i) for i, e in enumerate(src)]
    cat = CSEPCatalog(data=list(rows))
    byid = {r[0]: r for r in rows}
    objs = [cat]
    cur = 0
    problems = []
    for hi, c in enumerate(hist):
        oi = c.get('o', cur + 1) - 1          # the object the call is made on (any existing object)
        o = objs[oi]
        flag = spell_flag(c['inplace'], hi + len(src))      # True / False, numpy.bool_, 1 / 0
        if c['k'] == 'spatial':
            r = guarded(o.filter_spatial, real.region, in_place=flag)
        elif c['k'] == 'one':
            r = guarded(o.filter, real.stmt(c['sts'][0]), in_place=flag)
        else:
            r = guarded(o.filter, [real.stmt(s) for s in c['sts']], in_place=flag)
        if isinstance(r, Raised):
            problems.append('raised: %r' % r)
            break
        if c['inplace']:
            if r is not o:
                problems.append('in_place call returned a different object')
                objs[oi] = r
            cur = oi
        else:
            if r is o:
                problems.append('in_place=False returned the same object')
            objs.append(r)
            cur = len(objs) - 1
    if check_fields and not problems:
        for ob in objs:
            for row in full_rows(ob):
                key = row[0].decode()
                if (key,) + tuple(row[1:]) != byid[key]:
                    problems.append('fields of event %s changed' % key)
                    break
    return [ids_of(ob) for ob in objs], cur, problems


def run(chk, replay=None):
    import numpy
    from csep.core.catalogs import CSEPCatalog
    quick = chk.tier == 'quick'
    rng = random.Random(chk.seed + 404)
    chk.rule = ('histories = every sequence of 2 filter calls (single statement / statement pair / spatial; in_place on and off) '
                'from TLC on three fixed catalogs, realised for rotating attribute pairs and value triples; traces = random '
                'catalogs of 0..200 events with ties at the thresholds and random histories of 1..5 calls. non-trivial = distinct '
                '(attribute pair, history) whose statements hit an event equal to the threshold or a mixed in_place sequence')
    res = chk.tlc('Filter', 'MC_Filter.cfg' if quick else 'MCT_Filter.cfg', timeout=2400)
    chk.tlc('Filter', 'MCG_Filter.cfg', timeout=1200)
    res = chk.tlc('GenFilter', 'Gen_Filter.cfg' if quick else 'GenT_Filter.cfg', workers=1, coverage=False, count_states=False, timeout=2400)
    cases = res.tagged.get('CASE', [])
    if len(cases) < 60000:
        raise MachineryError('Gen produced %d histories' % len(cases))
    chk.log('Gen: %d histories' % len(cases))
    pairs = [(a, b) for a in ATTRS for b in ATTRS if a != b]
    reals = {}

    def realisation(i):
        a, b = pairs[i % len(pairs)]
        ta = TRIPLES[a][(i // len(pairs)) % len(TRIPLES[a])]
        tb = TRIPLES[b][(i // (2 * len(pairs))) % len(TRIPLES[b])]
        key = (a, b, ta, tb, i % 2 == 1)
        if key not in reals:
            reals[key] = Realisation(numpy, a, b, ta, tb, i % 2 == 1)
        return reals[key], key

    def check_case(case, ri):
        real, key = realisation(ri)
        src = case['src']
        hist = case['hist']
        if not real.spatial_ok and (any(c['k'] == 'spatial' for c in hist) or any(not e['s'] for e in src)):
            return None, key      # inside-ness cannot be varied independently of a (lat, lon) pair
        got, cur, problems = run_history(real, src, hist, numpy)
        chk.count(len(hist))
        if problems:
            return {'why': problems[0]}, key
        if got != case['objs'] or cur + 1 != case['cur']:
            return {'why': 'catalog contents', 'got': got, 'expected': case['objs']}, key
        return None, key

    if replay:
        d = replay['detail']
        bad, key = check_case(d['case'], d['ri'])
        if bad:
            chk.violation(replay['signature'], dict(d, mismatch=bad))
        chk.sample({'replayed': d['case']['hist']})
        return

    step = 4 if quick else 1
    okc = 0
    # the quick tier replays a quarter of the histories, drawn pseudo-randomly (a stride would pick the same combination
    # of in_place flags / call kinds every time: TLC emits them in a regular order)
    pick = random.Random(chk.seed * 7919 + 4)
    for ci in range(0, len(cases), 1):
        if quick and pick.random() >= 1.0 / step:
            continue
        case = cases[ci]
        bad, key = check_case(case, ci)
        hist = case['hist']
        if len({c['inplace'] for c in hist}) == 2 or any(c.get('o', 1) != i + 1 for i, c in enumerate(hist)) or any(st['op'] in ('==', '<=', '>=') for c in hist for st in c['sts']):
            chk.nontrivial('%s|%s|%s' % (key[0], key[1], hist))
        if bad:
            kinds = '+'.join(c['k'] + ('!' if c['inplace'] else '') + '@%d' % c.get('o', 0) for c in hist)
            ops = '+'.join(st['op'] for c in hist for st in c['sts'])
            chk.violation('gen:%s:%s:%s' % (bad['why'].split(':')[0], kinds, ops),
                          {'case': case, 'ri': ci, 'attrs': key[:2], 'triples': key[2:4], 'datetime_form': key[4], 'mismatch': bad})
        else:
            okc += 1
        if ci in (11, 20011):
            chk.sample({'history': hist, 'source': case['src'], 'expected_objects': case['objs'],
                        'statements': [realisation(ci)[0].stmt(st) for c in hist for st in c['sts']]})
    chk.traces += okc
    import copy
    ctl = copy.deepcopy(next(c for c in cases if len(c['objs'][-1]) >= 2 and c['hist'][0]['k'] != 'spatial' and c['hist'][1]['k'] != 'spatial'))
    ctl['objs'][-1] = ctl['objs'][-1][:-1]
    chk.control('gen: expected catalog with one event removed flagged', check_case(ctl, 0)[0] is not None)

    # ---------------------------------------------------------------- random traces
    def region_of(kind):
        from csep.core.regions import CartesianGrid2D, QuadtreeGrid2D, compute_vertices
        from csep.models import Polygon
        if kind == 'cart2':
            return (CartesianGrid2D.from_origins(numpy.array([[-118.0, -34.0], [-116.0, -34.0]]), dh=2.0),
                    lambda lon, lat: (-118.0 <= lon < -114.0) and (-34.0 <= lat < -32.0))
        if kind == 'cart-edge':
            return (CartesianGrid2D.from_origins(numpy.array([[-117.0, -33.0], [-115.0, -33.0]]), dh=2.0),
                    lambda lon, lat: (-117.0 <= lon < -113.0) and (-33.0 <= lat < -31.0))
        if kind == 'cart-flag':
            # two cells of one degree; the second is flagged out and holds pool values (-117, -116.95): events there
            # are outside the region although a polygon exists at their place
            org = numpy.array([[-118.0, -34.0], [-117.0, -34.0]])
            reg = CartesianGrid2D([Polygon(b) for b in compute_vertices(org, 1.0)], 1.0, mask=numpy.array([1.0, 0.0]))
            return reg, (lambda lon, lat: (-118.0 <= lon < -117.0) and (-34.0 <= lat < -33.0))
        reg = QuadtreeGrid2D.from_quadkeys(['2', '1'])
        return reg, (lambda lon, lat: (lon < 0 and lat < 0) or (lon >= 0 and lat >= 0))

    traces, metas = [], []
    OPS = ['<', '<=', '>', '>=', '==']
    for t in range(60 if quick else 600):
        n = rng.choice([0, 1, 3, 20, 200])
        m = rng.randint(1, 5)
        st_attrs = [rng.choice(ATTRS) for _ in range(m)]
        st_ops = [rng.choice(OPS) for _ in range(m)]
        # the first traces are dedicated: statement 1 is each operator once on each attribute, on origin_time with a
        # threshold between two whole milliseconds, and the catalog is large enough to hold both neighbours
        dedicated = t < 5 * (len(ATTRS) + 1)
        if dedicated:
            st_attrs[0] = (ATTRS + ['origin_time'])[t // 5]
            st_ops[0] = OPS[t % 5]
            n = max(n, 20)
        thr = []
        for j_, a in enumerate(st_attrs):
            tri = rng.choice(TRIPLES[a])
            v = tri[1]
            if a == 'origin_time' and (rng.random() < 0.4 or (dedicated and j_ == 0 and t // 5 == len(ATTRS))):
                v = v + rng.choice([0.5, -0.5, 0.25])        # thresholds need not be whole milliseconds
            thr.append(v)
        use_dt = [rng.random() < 0.5 and float(thr[j]).is_integer() for j in range(m)]
        pool = {a: sorted({v for tri in TRIPLES[a] for v in tri} | {thr[j] for j in range(m) if st_attrs[j] == a}) for a in ATTRS}
        # origin times are whole milliseconds: around a fractional threshold use its two integer neighbours
        pool['origin_time'] = sorted({int(v // 1) for v in pool['origin_time']} | {int(v // 1) + 1 for v in pool['origin_time'] if not float(v).is_integer()})
        # the region of the spatial filter: two cells, one cell whose origin is a pool value (edge-inclusive), a lattice
        # with a flagged-out cell, a quadtree grid made of two of the four zoom-1 tiles
        region_kind = ['cart2', 'cart-edge', 'cart-flag', 'quadtree'][t % 4]
        region, inside_fn = region_of(region_kind)
        if region_kind == 'quadtree':
            # events exactly on the edges of the two tiles: their west / south edges belong to them, their east / north edges
            # (the prime meridian south of the equator, the equator west of it) to the tiles that are not part of the region
            pool['longitude'] = sorted(set(pool['longitude']) | {0.0, -45.0, 45.0})
            pool['latitude'] = sorted(set(pool['latitude']) | {0.0, -20.0, 30.0})
        rows, events = [], []
        for i in range(n):
            f = {a: rng.choice(pool[a]) for a in ATTRS}
            if dedicated and i < 4:
                # the values just below, on and just above the first statement's threshold are all present
                a0, v0 = st_attrs[0], thr[0]
                near = sorted(pool[a0], key=lambda x: (abs(x - v0), x))[:4]
                f[a0] = near[i % len(near)]
            if not dedicated and i < 2 and region_kind in ('cart-flag', 'quadtree'):
                # two events are always where the region's answer is the interesting one: in the flagged-out cell / on an edge
                # whose tile is not part of the region (chance placement would make the check depend on the seed)
                if region_kind == 'cart-flag':
                    f['longitude'], f['latitude'] = [-117.0, -116.95][i], -33.05
                else:
                    f['longitude'], f['latitude'] = [(0.0, -20.0), (-45.0, 0.0)][i]
            inside = inside_fn(f['longitude'], f['latitude'])
            rows.append(('u%d' % (i + 1), f['origin_time'], f['latitude'], f['longitude'], f['depth'], f['magnitude']))
            cm = []
            for j in range(m):
                v = f[st_attrs[j]]
                cm.append(-1 if v < thr[j] else (0 if v == thr[j] else 1))
            events.append([i + 1, 1 if inside else 0] + cm)
        cat = CSEPCatalog(data=list(rows))
        objs = [cat]
        calls = []
        failed = None
        scripted = (not dedicated) and t % 8 == 1
        for _ in range(rng.randint(1, 5) if not scripted else rng.randint(2, 5)):
            oi = rng.randrange(len(objs))
            inplace = rng.random() < 0.5
            k = rng.choice(['one', 'list', 'list', 'spatial', 'stored', 'load', 'empty'])
            if scripted and len(calls) < 2:
                # a filtered COPY is taken first, then the original is filtered with the empty statement list (in place): the
                # original must still hold every event
                oi, inplace, k = 0, bool(len(calls)), ['one', 'empty'][len(calls)]
            first_dedicated = dedicated and not calls
            if first_dedicated:
                k = ['one', 'list', 'stored', 'load'][t % 4]
            if not dedicated and not calls and region_kind in ('cart-flag', 'quadtree') and t % 8 >= 4:
                k = 'spatial'          # (... and every other such trace starts with the spatial filter)
            if k == 'load':
                inplace = False
            idx = [rng.randrange(m) + 1] if k == 'one' else ([] if k in ('spatial', 'empty') else [rng.randrange(m) + 1 for _ in range(rng.randint(1, 3))])
            if first_dedicated:
                idx = [1] + (idx[1:] if k != 'one' else [])
            strs = [statement(st_attrs[j - 1], st_ops[j - 1], thr[j - 1], use_dt[j - 1], style=t + j + len(calls)) for j in idx]
            o = objs[oi]
            inplace_arg = spell_flag(inplace, t + len(calls))
            if k == 'spatial':
                r = guarded(o.filter_spatial, region, in_place=inplace_arg, update_stats=spell_flag(len(calls) % 2 == 1, t))
            elif k == 'one':
                r = guarded(o.filter, strs[0], in_place=inplace_arg)
            elif k == 'list':
                r = guarded(o.filter, strs if rng.random() < 0.5 else tuple(strs), in_place=inplace_arg)
            elif k == 'empty':
                # the smallest statement list: all of no statements are true, every event stays (whatever an earlier call recorded)
                r = guarded(o.filter, [] if len(calls) % 2 else (), in_place=inplace_arg)
            elif k == 'load':
                # the loader's own filtering: the object is written out and read back with apply_filters=True
                import csep as _csep
                lp = os.path.join(chk.tmp, 'filt.csv')
                w_ = guarded(o.write_ascii, lp)
                r = w_ if isinstance(w_, Raised) else guarded(_csep.load_catalog, lp, apply_filters=True, filters=list(strs))
            else:
                o.filters = strs
                r = guarded(o.filter, in_place=inplace_arg)
            chk.count()
            if isinstance(r, Raised):
                failed = repr(r)
                calls.append({'k': 'list' if k in ('stored', 'load', 'empty') else k, 'idx': idx, 'inplace': inplace, 'obj': oi + 1, 'ret': [-1],
                              'objs': [ids_of(x) for x in objs]})
                break
            if not inplace:
                objs.append(r)
            elif r is not o:
                objs[oi] = r
            calls.append({'k': 'list' if k in ('stored', 'load', 'empty') else k, 'idx': idx, 'inplace': inplace, 'obj': oi + 1, 'ret': ids_of(r),
                          'objs': [ids_of(x) for x in objs]})
        traces.append({'stmts': st_ops, 'events': events, 'calls': calls})
        metas.append({'n': n, 'region': region_kind, 'statements': [statement(st_attrs[j], st_ops[j], thr[j], use_dt[j]) for j in range(m)],
                      'calls': [(c['k'], c['idx'], c['inplace']) for c in calls], 'failed': failed})
        chk.nontrivial('tr|%d|%s|%d' % (n, st_ops, t))
    bad = copy.deepcopy(next(tr for tr in traces if tr['calls'] and len(tr['calls'][0]['ret']) >= 1 and tr['calls'][0]['ret'] != [-1]))
    bad['calls'][0]['ret'] = bad['calls'][0]['ret'][:-1]
    acc, rej = chk.validate_traces('TraceFilter', 'Trace_Filter.cfg', traces + [bad], chunk=100, timeout=1800)
    chk.traces -= len([i for i in acc if i >= len(traces)])
    chk.control('trace: returned catalog with one event removed rejected', len(traces) in {i for i, _ in rej})
    for i, diag in rej:
        if i >= len(traces):
            continue
        m_ = metas[i]
        k = diag[-1]['explained_events'] if diag else 0
        c = traces[i]['calls'][min(k, len(traces[i]['calls']) - 1)]
        ops = '+'.join(traces[i]['stmts'][j - 1] for j in c['idx'])
        chk.violation('trace:%s%s:%s%s' % (c['k'], '!' if c['inplace'] else '', ops, ':raised' if m_['failed'] else ''),
                      dict(m_, first_unexplained_call=c))
    chk.sample({'trace': {'stmts': traces[3]['stmts'], 'events_head': traces[3]['events'][:3], 'calls': traces[3]['calls'][:1],
                          'statements': metas[3]['statements']}})
    chk.exhaustive = True
    chk.notes['attribute_pairs'] = len(pairs)
    chk.assume('thresholds are written with repr(); datetime statements use "%Y-%m-%d %H:%M:%S.%f"')
    chk.assume('for the (latitude, longitude) pair inside-ness is not varied independently (those cases are skipped)')
