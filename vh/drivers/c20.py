"""C20 - evaluation outcomes do not depend on storage order.

spec/PermutePoisson.tla, spec/PermuteCatEval.tla   TLC: swapping adjacent cells (rate rows together with count rows) leaves every
        gridded statistic the same bag of terms (StatInvariant); swapping adjacent synthetic catalogs leaves every catalog-test
        result the same (status, statistic, distribution as a bag) (ResultsInvariant); event order does not reach the
        statistics at all (Gridding.tla: OrderIrrelevant).
code -> spec (TracePermute)  every public gridded and catalog-based test is run on X and on pi(X) for re-ordered observed events,
        re-ordered synthetic catalogs and consistently re-ordered cells + rates; statistic / analytic quantiles / simulation-free
        distributions (as sorted multisets) must agree to rounding, and with a fixed seed re-ordering the observed events must
        leave the whole result bit-for-bit identical (IEEE hex strings compared by TLC).
"""
import io
import contextlib
import math
import os
import random

from vh.core import MachineryError, guarded, guarded_timeout, Raised


def hexes(res):
    import numpy
    out = []
    st = res.observed_statistic
    out.append('none' if st is None else float(st).hex())
    q = res.quantile if isinstance(res.quantile, (tuple, list)) else [res.quantile]
    out += ['none' if x is None else float(x).hex() for x in q]
    td = res.test_distribution
    if isinstance(td, str):
        out.append(td)
    else:
        for x in td:
            out.append(x if isinstance(x, str) else float(x).hex())
    return out


def approx(a, b, rtol=1e-9, atol=1e-12):
    if a is None or b is None:
        return a is None and b is None
    a, b = float(a), float(b)
    if math.isnan(a) or math.isnan(b):
        return math.isnan(a) and math.isnan(b)
    if math.isinf(a) or math.isinf(b):
        return a == b
    return abs(a - b) <= atol + rtol * max(abs(a), abs(b))


def run(chk, replay=None):
    import numpy
    import datetime
    from csep.core import poisson_evaluations as pe, binomial_evaluations as be, brier_evaluations as br, catalog_evaluations as ce
    from csep.core.regions import CartesianGrid2D
    from csep.core.forecasts import GriddedForecast
    from csep.core.catalogs import CSEPCatalog
    from vh.drivers.c13 import World, build_forecast
    quick = chk.tier == 'quick'
    rng = random.Random(chk.seed + 2020)
    world = World()
    path = os.path.join(chk.tmp, 'fc.csv')
    chk.rule = ('pairs = (test, input, permutation): 12 gridded tests and 6 catalog-based tests on random forecasts / catalogs with random '
                're-orderings of observed events, synthetic catalogs and cells+rates. non-trivial = distinct (test, permutation kind, '
                'input) whose permutation is not the identity')
    chk.tlc('PermutePoisson', 'MC_PermutePoisson.cfg', timeout=900)
    chk.tlc('PermutePoisson', 'MC2_PermutePoisson.cfg', timeout=900)
    chk.tlc('PermuteCatEval', 'MC_PermuteCatEval.cfg', timeout=900)

    records, metas = [], []

    def add(perm, test, ra, rb, bits, analytic_quant, simfree_dist, info):
        if isinstance(ra, Raised) or isinstance(rb, Raised) or ra is None or rb is None:
            same_fail = (isinstance(ra, Raised) and isinstance(rb, Raised)) or (ra is None and rb is None)
            records.append({'perm': perm, 'test': test, 'stat': 1 if same_fail else 0, 'quant': 1, 'dist': 1, 'bits': 0, 'a': [], 'b': []})
            metas.append(dict(info, a=repr(ra)[:100], b=repr(rb)[:100]))
            return
        st = 1 if approx(ra.observed_statistic, rb.observed_statistic) and ra.status == rb.status else 0
        qa = ra.quantile if isinstance(ra.quantile, (tuple, list)) else [ra.quantile]
        qb = rb.quantile if isinstance(rb.quantile, (tuple, list)) else [rb.quantile]
        qt = 1
        if analytic_quant:
            qt = 1 if len(qa) == len(qb) and all(approx(x, y, 1e-9, 1e-12) for x, y in zip(qa, qb)) else 0
            if qt == 0 and simfree_dist and not isinstance(ra.test_distribution, str):
                # rank-based quantiles may legitimately move when a distribution value ties with the statistic to rounding
                s0 = ra.observed_statistic
                if s0 is not None and any(approx(x, s0, 1e-9, 1e-12) and float(x) != float(s0) for x in ra.test_distribution):
                    qt = 1
        ds = 1
        if simfree_dist and not isinstance(ra.test_distribution, str):
            da = sorted(float(x) for x in ra.test_distribution if not isinstance(x, str))
            db = sorted(float(x) for x in rb.test_distribution if not isinstance(x, str))
            ds = 1 if len(da) == len(db) and all(approx(x, y) for x, y in zip(da, db)) else 0
        records.append({'perm': perm, 'test': test, 'stat': st, 'quant': qt, 'dist': ds, 'bits': 1 if bits else 0,
                        'a': hexes(ra) if bits else [], 'b': hexes(rb) if bits else []})
        metas.append(dict(info, stat=[ra.observed_statistic, rb.observed_statistic], quantile=[list(qa), list(qb)]))
        chk.nontrivial('%s|%s|%s' % (perm, test, info.get('id')))

    # ---------------------------------------------------------------- gridded tests
    start, end = datetime.datetime(2010, 1, 1), datetime.datetime(2011, 1, 1)

    def gridded_world(nc, nb, perm=None, seed=0, via_file=False, mirror=False, quiet=False):
        r = random.Random(seed)
        org = [[float(i % 4), float(i // 4)] for i in range(nc)]
        data = [[10 ** r.uniform(-3, 0.5) for _ in range(nb)] for _ in range(nc)]
        data2 = [[10 ** r.uniform(-3, 0.5) for _ in range(nb)] for _ in range(nc)]
        if mirror:
            # forecast B is forecast A with the rates of neighbouring bins exchanged (rates are multiples of 1/64, totals
            # identical): events in the two bins of a pair have exactly opposite log-rate differences - ties across signs,
            # the case in which a rank statistic can come to depend on the order of the events
            ks = r.sample(range(3, 400), nc * nb)
            flat = [k / 64.0 for k in ks]
            flat2 = list(flat)
            for q in range(0, nc * nb - 1, 2):
                flat2[q], flat2[q + 1] = flat[q + 1], flat[q]
            data = [flat[c * nb:(c + 1) * nb] for c in range(nc)]
            data2 = [flat2[c * nb:(c + 1) * nb] for c in range(nc)]
        if quiet:
            # one bin carries 1e-12 of the rate of the others (and holds an observed event): wherever it is stored
            data[0][0] = data2[0][0] = 1e-12
        if perm is None:
            perm = list(range(nc))
        mags = numpy.array([4.0 + b for b in range(nb)])

        def fc(d, name):
            if via_file:
                # the same re-ordering expressed as a forecast file whose cells are listed in the permuted order
                path = os.path.join(chk.tmp, 'perm_%s.dat' % name)
                with open(path, 'w') as fh:
                    for i in perm:
                        for b in range(nb):
                            fh.write('%r %r %r %r 0.0 30.0 %r %r %r 1\n' % (org[i][0], org[i][0] + 1.0, org[i][1], org[i][1] + 1.0,
                                                                             4.0 + b, 5.0 + b, d[i][b]))
                f = GriddedForecast.load_ascii(path, start_date=start, end_date=end, name=name)
                return f
            region = CartesianGrid2D.from_origins(numpy.array([org[i] for i in perm]), dh=1.0)
            f = GriddedForecast(region=region, magnitudes=mags, data=numpy.array([d[i] for i in perm], dtype=float), name=name)
            f.start_time, f.end_time = start, end
            return f
        return org, fc(data, 'A'), fc(data2, 'B'), mags

    def gridded_catalog(org, events, order, region, mags):
        data = []
        for j in order:
            c, b, k = events[j]
            data.append(('e%d' % j, 1000 * j, org[c][1] + [0.5, 0.0, 0.75][k % 3], org[c][0] + [0.5, 0.0, 0.25][k % 3], 5.0, 4.0 + b + [0.5, 0.0][k % 2]))
        region.magnitudes = mags
        return CSEPCatalog(data=data, region=region, name='obs')

    GT = [('poisson.number_test', lambda fa, fb, c: pe.number_test(fa, c), True, False),
          ('poisson.likelihood_test', lambda fa, fb, c: pe.likelihood_test(fa, c, num_simulations=8, seed=3), False, False),
          ('poisson.conditional_likelihood_test', lambda fa, fb, c: pe.conditional_likelihood_test(fa, c, num_simulations=8, seed=3), False, False),
          ('poisson.spatial_test', lambda fa, fb, c: pe.spatial_test(fa, c, num_simulations=8, seed=3), False, False),
          ('poisson.magnitude_test', lambda fa, fb, c: pe.magnitude_test(fa, c, num_simulations=8, seed=3), False, False),
          ('poisson.paired_t_test', lambda fa, fb, c: pe.paired_t_test(fa, fb, c), True, False),
          ('poisson.w_test', lambda fa, fb, c: pe.w_test(fa, fb, c), True, False),
          ('binomial.negative_binomial_number_test', lambda fa, fb, c: be.negative_binomial_number_test(fa, c, 50.0), True, False),
          ('binomial.binary_spatial_test', lambda fa, fb, c: be.binary_spatial_test(fa, c, num_simulations=8, seed=3), False, False),
          ('binomial.binary_conditional_likelihood_test', lambda fa, fb, c: be.binary_conditional_likelihood_test(fa, c, num_simulations=8, seed=3), False, False),
          ('binomial.binary_paired_t_test', lambda fa, fb, c: be.binary_paired_t_test(fa, fb, c), True, False),
          ('brier.brier_score_test', lambda fa, fb, c: br.brier_score_test(fa, c, num_simulations=8, seed=3), False, False)]
    n_in = 9 if quick else 240
    for t in range(n_in):
        nc, nb = rng.choice([(4, 1), (6, 2), (8, 3)])
        if t in (0, 2, 4):
            nc, nb = 8, 3          # (the complete lattice with its three orderly re-orderings is always among the inputs)
        n_ev = rng.choice([2, 3, 6, 20])
        events = [(rng.randrange(nc), rng.randrange(nb), rng.randrange(6)) for _ in range(n_ev)]
        if len({(c, b) for c, b, _ in events}) < 2:
            events[0] = ((events[1][0] + 1) % nc, events[1][1], 0)
        mirror = (t % 3 == 2)
        if mirror:
            # events in both bins of the first two exchanged pairs, several each
            pairs_ = [(q // nb, q % nb, rng.randrange(6)) for q in (0, 1, 1, 0, 2, 3, 0) if q < nc * nb]
            events = (pairs_ + events)[:max(n_ev, len(pairs_))]
            n_ev = len(events)
        quiet = t in (1, 3, 7) and not mirror
        if quiet:
            events[0] = (0, 0, 0)
        org, fa, fb, mags = gridded_world(nc, nb, seed=chk.seed * 100 + t, mirror=mirror, quiet=quiet)
        ident = list(range(n_ev))
        p_ev = ident[:]
        while p_ev == ident:
            rng.shuffle(p_ev)
        p_cell = list(range(nc))
        while p_cell == list(range(nc)):
            rng.shuffle(p_cell)
        if nc == 8 and t % 2 == 0:
            # orderly re-orderings of the complete 4 x 2 lattice: column by column, each column north to south / south to north
            # (a random shuffle practically never lists a complete grid in such an order)
            p_cell = [[4, 0, 5, 1, 6, 2, 7, 3], [0, 4, 1, 5, 2, 6, 3, 7], [7, 3, 6, 2, 5, 1, 4, 0]][(t // 2) % 3]
        _, fa_p, fb_p, _ = gridded_world(nc, nb, perm=p_cell, seed=chk.seed * 100 + t, via_file=(t % 2 == 1), mirror=mirror, quiet=quiet)
        for name, fn, analytic, simfree in GT:
            if quiet and not name.startswith('poisson'):
                continue      # (the binary samplers draw until the quiet bin is hit: about 1e12 draws)
            base = guarded_timeout(30, fn, fa, fb, gridded_catalog(org, events, ident, fa.region, mags))
            if t % 2 == 0:
                # the re-ordering done on a catalog object that was evaluated before (events re-stored through the public
                # attribute, or sorted in place), then evaluated again
                cat_ = gridded_catalog(org, events, ident, fa.region, mags)
                guarded_timeout(30, fn, fa, fb, cat_)
                if t % 4 == 0:
                    cat_.catalog = cat_.catalog[numpy.array(p_ev)]
                else:
                    cat_.catalog[:] = cat_.catalog[numpy.array(p_ev)]
                perm_ev = guarded_timeout(30, fn, fa, fb, cat_)
            else:
                perm_ev = guarded_timeout(30, fn, fa, fb, gridded_catalog(org, events, p_ev, fa.region, mags))
            perm_cell = guarded_timeout(30, fn, fa_p, fb_p, gridded_catalog(org, events, ident, fa_p.region, mags))
            chk.count(3)
            # bit-for-bit identity is required of the simulation-based tests (those taking a seed); the analytic ones to rounding
            add('events', name, base, perm_ev, not analytic, True, True, {'id': t, 'shape': [nc, nb], 'events': events[:8], 'perm': p_ev[:12],
                                                                           'same_catalog_object_evaluated_before': t % 2 == 0})
            add('cells', name, base, perm_cell, False, analytic, False, {'id': t, 'shape': [nc, nb], 'events': events[:8], 'perm': p_cell, 'via_file': t % 2 == 1})
            if 'paired_t_test' in name or 'w_test' in name:
                # only ONE of the two forecasts of a comparison lists its cells (with their rates) in another order - the two were
                # loaded from files with different row orders
                one = guarded_timeout(30, fn, fa, fb_p, gridded_catalog(org, events, ident, fa.region, mags))
                other = guarded_timeout(30, fn, fa_p, fb, gridded_catalog(org, events, ident, fa_p.region, mags))
                chk.count(2)
                add('cells', name + '[benchmark only]', base, one, False, analytic, False,
                    {'id': t, 'shape': [nc, nb], 'events': events[:8], 'perm': p_cell, 'which': 'benchmark forecast only', 'via_file': t % 2 == 1})
                add('cells', name + '[first forecast only]', base, other, False, analytic, False,
                    {'id': t, 'shape': [nc, nb], 'events': events[:8], 'perm': p_cell, 'which': 'first forecast only', 'via_file': t % 2 == 1})

    # ---------------------------------------------------------------- gridded tests on quadtree regions (cells re-ordered)
    import mercantile
    from csep.core.regions import QuadtreeGrid2D
    for t in range(3 if quick else 90):
        qks = [a + b for a in '0123' for b in '0123'] if t % 2 == 0 else ['0', '1', '20', '21', '22', '23', '30', '31', '32', '33']
        nb = 2
        mags = numpy.array([4.0, 5.0])
        r = random.Random(chk.seed * 77 + t)
        rate = {q: [10 ** r.uniform(-2, 0.5) for _ in range(nb)] for q in qks}
        rate2 = {q: [10 ** r.uniform(-2, 0.5) for _ in range(nb)] for q in qks}

        def qfc(order, table, name):
            region = QuadtreeGrid2D.from_quadkeys(list(order), magnitudes=mags)
            f = GriddedForecast(region=region, magnitudes=mags, data=numpy.array([table[q] for q in order], dtype=float), name=name)
            f.start_time, f.end_time = start, end
            return f
        # events on tile corners / edges (the equator and the prime meridian are edges at every zoom) and inside tiles
        pts = []
        for _ in range(r.choice([4, 9, 15])):
            q = r.choice(qks)
            b_ = mercantile.bounds(mercantile.quadkey_to_tile(q))
            fx, fy = r.choice([(0.0, 0.0), (0.5, 0.0), (0.0, 0.5), (0.5, 0.5), (0.3, 0.8)])
            lat = b_.south if fy == 0.0 else b_.south + fy * (b_.north - b_.south)
            pts.append((b_.west + fx * (b_.east - b_.west), lat, 4.0 + r.choice([0.0, 0.5, 1.0, 1.7])))

        def qcat(region):
            c = CSEPCatalog(data=[('e%d' % i, 1000 * i, float(la), float(lo), 5.0, float(m_)) for i, (lo, la, m_) in enumerate(pts)], region=region, name='obs')
            return c
        order = list(qks)
        p_order = list(qks)
        while p_order == order:
            r.shuffle(p_order)
        fa, fb = qfc(order, rate, 'A'), qfc(order, rate2, 'B')
        fa_p, fb_p = qfc(p_order, rate, 'A'), qfc(p_order, rate2, 'B')
        for name, fn, analytic, simfree in GT:
            if name.startswith('binomial.binary_paired') or name.startswith('brier') or name.startswith('binomial.binary'):
                continue
            base = guarded_timeout(30, fn, fa, fb, qcat(fa.region))
            perm_cell = guarded_timeout(30, fn, fa_p, fb_p, qcat(fa_p.region))
            chk.count(2)
            add('cells', name + '[quadtree]', base, perm_cell, False, analytic, False,
                {'id': 'q%d' % t, 'quadkeys': order[:6], 'perm': p_order[:6], 'events': pts[:5]})

    # ---------------------------------------------------------------- catalog-based tests
    CT = [('catalog.number_test', lambda f, o: ce.number_test(f, o, verbose=False), True),
          ('catalog.spatial_test', lambda f, o: ce.spatial_test(f, o, verbose=False), True),
          ('catalog.pseudolikelihood_test', lambda f, o: ce.pseudolikelihood_test(f, o, verbose=False), True),
          ('catalog.magnitude_test', lambda f, o: ce.magnitude_test(f, o, verbose=False), True),
          ('catalog.resampled_magnitude_test', lambda f, o: ce.resampled_magnitude_test(f, o, seed=4), False),
          ('catalog.MLL_magnitude_test', lambda f, o: ce.MLL_magnitude_test(f, o, seed=4), False)]

    def obs_cat(evs, order, region=None):
        data = []
        for j in order:
            e = world.event_tuple({'u': 900 + j, 'b': evs[j], 'm': True, 's': True}, 7000 + j)
            data.append(('o%d' % j,) + tuple(e[1:]))
        return CSEPCatalog(data=data, region=region if region is not None else world.make_region(), name='obs')

    def reversed_region():
        """the cells of the catalog world's region in the opposite storage order"""
        from csep.core import regions as _regions
        r0 = world.make_region()
        org = numpy.asarray(r0.origins())[::-1]
        return _regions.create_space_magnitude_region(CartesianGrid2D.from_origins(org, dh=float(r0.dh)), numpy.array(world.mags))

    for t in range(6 if quick else 240):
        J = rng.choice([3, 6, 25])
        u = 0
        cats = []
        for _ in range(J):
            c = []
            for _ in range(rng.choice([0, 1, 2, 4])):
                u += 1
                c.append({'u': u, 'b': rng.randint(1, 4), 'm': True, 's': True})
            cats.append(c)
        if u == 0:
            cats[0] = [{'u': 1, 'b': 1, 'm': True, 's': True}]
        obs_evs = [rng.randint(1, 4) for _ in range(rng.choice([2, 3, 7]))]
        ident = list(range(len(obs_evs)))
        p_ev = ident[:]
        while p_ev == ident and len(set(obs_evs)) > 0:
            rng.shuffle(p_ev)
        p_cat = list(range(J))
        while p_cat == list(range(J)):
            rng.shuffle(p_cat)
        src = ['list', 'store', 'nostore'][t % 3]
        for name, fn, simfree in CT:
            def runit(cs, order):
                f = build_forecast(world, {'src': src, 'filt': False, 'spat': False}, cs, path)
                with contextlib.redirect_stdout(io.StringIO()):
                    return guarded_timeout(30, fn, f, obs_cat(obs_evs, order))
            base = runit(cats, ident)
            pe_ = runit(cats, p_ev)
            pc_ = runit([cats[i] for i in p_cat], ident)
            chk.count(3)
            if src == 'list' and simfree:
                # cells re-ordered: the very catalog objects a first forecast has evaluated (they are bound to its region by
                # then) are handed to a second forecast on the region with the cells stored in the opposite order
                from csep.core.forecasts import CatalogForecast
                f1 = build_forecast(world, {'src': 'list', 'filt': False, 'spat': False}, cats, path)
                with contextlib.redirect_stdout(io.StringIO()):
                    guarded_timeout(30, fn, f1, obs_cat(obs_evs, ident))
                    f2 = CatalogForecast(catalogs=list(f1.catalogs), region=reversed_region(), name='f', n_cat=len(cats))
                    pcell = guarded_timeout(30, fn, f2, obs_cat(obs_evs, ident, region=reversed_region()))
                chk.count(2)
                add('cells', name, base, pcell, False, True, True, {'id': 'c%d' % t, 'J': J, 'obs': obs_evs, 'perm': 'cells reversed, catalogs re-used'})
            add('events', name, base, pe_, not simfree, True, True, {'id': 'c%d' % t, 'J': J, 'obs': obs_evs, 'perm': p_ev})
            add('catalogs', name, base, pc_, False, simfree, simfree, {'id': 'c%d' % t, 'J': J, 'obs': obs_evs, 'perm': p_cat[:12], 'src': src})

    import copy
    src_i = next(i for i, r in enumerate(records) if r['bits'] and len(r['a']) > 3)
    bad = copy.deepcopy(records[src_i])
    bad['b'][-1] = (float.fromhex(bad['b'][-1]) * (1 + 2 ** -52)).hex() if bad['b'][-1] not in ('none',) else '0x0p+0'
    bad2 = copy.deepcopy(records[0])
    bad2['stat'] = 0
    acc, rej = chk.validate_traces('TracePermute', 'Trace_Permute.cfg', records + [bad, bad2], chunk=2000)
    chk.traces -= len([i for i in acc if i >= len(records)])
    rej_idx = {i for i, _ in rej}
    chk.control('trace: one-ulp difference in a fixed-seed result rejected', len(records) in rej_idx)
    chk.control('trace: differing statistic rejected', len(records) + 1 in rej_idx)
    for i, _ in rej:
        if i >= len(records):
            continue
        r, m = records[i], metas[i]
        why = 'statistic' if r['stat'] == 0 else ('quantile' if r['quant'] == 0 else ('distribution multiset' if r['dist'] == 0 else 'not bit-identical'))
        chk.violation('%s:%s:%s' % (r['perm'], r['test'], why), m)
    chk.sample({'record': {k: (v if k not in ('a', 'b') else v[:3]) for k, v in records[0].items()}, 'input': metas[0]})
    chk.sample({'record': {k: (v if k not in ('a', 'b') else v[:3]) for k, v in records[-1].items()}})
    chk.notes['pairs'] = len(records)
    chk.assume('"to rounding" = rtol 1e-9 / atol 1e-12; rank-based quantiles may move when a distribution value ties with the statistic to rounding')
    chk.assume('simulation-based distributions are only compared under re-ordering of the observed events (fixed seed, bit-for-bit)')
