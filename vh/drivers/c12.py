"""C12 - catalog-forecast files decode to exactly the catalogs they encode.

spec/CatForecastDecoder.tla   TLC: DecodeCorrect, IdsContiguous, PrefixOfTruth, NeverRejectsWellFormed,
                              RejectsDecreasing, YieldedIsFinal  (exhaustive for MaxCat x MaxEv)
gen  -> code : every terminal state (file, truth, status) rendered as CSV and loaded by the real loaders
code -> trace: random large forecasts; recorded (lines consumed, id, events) per yield validated by TLC
"""
import calendar
import csv
import datetime
import io
import os
import random

from vh.core import MachineryError, other_surroundings

HEADER = 'lon,lat,mag,time_string,depth,catalog_id,event_id'


def concrete_event(e, style):
    """Distinct concrete fields for abstract event id e (>0)."""
    r = random.Random(e * 7919 + 13)
    lon = round(-125 + r.random() * 12, r.choice([1, 2, 3, 4, 6]))
    lat = round(31 + r.random() * 12, r.choice([1, 2, 3, 4, 6]))
    mag = round(2.5 + r.random() * 5.5, r.choice([1, 2]))
    depth = round(r.random() * 40, r.choice([0, 1, 3]))
    if e % 6 == 0:
        # the ends of the coordinate ranges (the date line written as +180 and as -180, the poles)
        lon = 180.0 if e % 12 else -180.0
        lat = 90.0 if e % 12 else -90.0
    if e % 6 == 2:
        # an epicentre within metres of the equator / the prime meridian, a depth of a centimetre: repr() writes such values
        # in exponent notation (2.5e-05), like every general float writer
        lon = (1 + e % 7) * 1.25e-05 * (-1 if e % 4 == 2 else 1)
        lat = -(1 + e % 5) * 3.5e-06
        depth = 1e-05 * (1 + e % 3)
    # time: 1950..2100, all millisecond phases, pre-1970 included
    day = datetime.date(1950, 1, 1).toordinal() + r.randrange(0, 365 * 150)
    d = datetime.date.fromordinal(day)
    h, mi, s = r.randrange(24), r.randrange(60), r.randrange(60)
    ms = r.randrange(1000)
    if style == 'nofrac' or (style == 'mixed' and e % 2 == 0):
        ms = 0
        tstr = '%04d-%02d-%02dT%02d:%02d:%02d' % (d.year, d.month, d.day, h, mi, s)
    elif style == 'frac12' or (style == 'mixed' and e % 7 == 3):
        # one or two fractional digits, as a '%.1f' / '%.2f' writer produces: .5 is 500 ms, .75 is 750 ms
        if e % 2:
            ms = (ms // 100) * 100
            tstr = '%04d-%02d-%02dT%02d:%02d:%02d.%d' % (d.year, d.month, d.day, h, mi, s, ms // 100)
        else:
            ms = (ms // 10) * 10
            tstr = '%04d-%02d-%02dT%02d:%02d:%02d.%02d' % (d.year, d.month, d.day, h, mi, s, ms // 10)
    elif style == 'ms3' or (style == 'mixed' and e % 3 == 0):
        tstr = '%04d-%02d-%02dT%02d:%02d:%02d.%03d' % (d.year, d.month, d.day, h, mi, s, ms)
    else:
        tstr = '%04d-%02d-%02dT%02d:%02d:%02d.%06d' % (d.year, d.month, d.day, h, mi, s, ms * 1000)
    if e in (5, 11):
        # an event all of whose numbers are zero (the epoch instant, on the equator at the prime meridian, at the surface,
        # magnitude 0): a row of zeros is an event, only a row of blanks is a placeholder
        lon = lat = mag = depth = 0.0
        d, h, mi, s, ms = datetime.date(1970, 1, 1), 0, 0, 0, 0
        tstr = '1970-01-01T00:00:00' if style in ('nofrac', 'mixed') else ('1970-01-01T00:00:00.0' if style == 'frac12' else (
            '1970-01-01T00:00:00.000' if style == 'ms3' else '1970-01-01T00:00:00.000000'))
    epoch_ms = calendar.timegm((d.year, d.month, d.day, h, mi, s)) * 1000 + ms
    eid = 'ev%d' % e if style != 'mixed' or e % 5 else 'ci%d-%d' % (e, e * 3)
    if style == 'mixed' and e % 4 == 1:
        eid = ''            # the event id column may be left blank; the row is still an event
    return {'lon': lon, 'lat': lat, 'mag': mag, 'depth': depth, 'tstr': tstr, 'ms': epoch_ms, 'id': eid}


def render(file_lines, style):
    rows = []
    for l in file_lines:
        if l['k'] == 'hdr':
            rows.append(HEADER)
        elif l['k'] == 'ph':
            rows.append(',,,,,%d,' % l['cid'])
        else:
            c = concrete_event(l['e'], style)
            rows.append('%r,%r,%r,%s,%r,%d,%s' % (c['lon'], c['lat'], c['mag'], c['tstr'], c['depth'], l['cid'], c['id']))
    # (the last row need not be followed by a line break)
    # (... and lines may end in CR LF, as in files written on Windows)
    nl = '\r\n' if (len(rows) + len(style)) % 4 == 2 else '\n'
    return nl.join(rows) + ('' if (len(rows) + len(style)) % 3 == 1 and rows else nl)


def observe_catalog(cat):
    """Project a real CSEPCatalog to (catalog_id, [(id, ms, lat, lon, depth, mag)...])."""
    evs = []
    arr = cat.catalog
    for i in range(len(arr)):
        row = arr[i]
        evs.append((row['id'].decode('utf-8'), int(row['origin_time']), float(row['latitude']),
                    float(row['longitude']), float(row['depth']), float(row['magnitude'])))
    return cat.catalog_id, evs


def expected_events(evs, style):
    out = []
    for e in evs:
        c = concrete_event(e, style)
        out.append((c['id'], c['ms'], c['lat'], c['lon'], c['depth'], c['mag']))
    return out


class CountingFile:
    """File wrapper counting the lines handed to csv.reader (harness-side observation, no source change)."""

    def __init__(self, f, counter):
        self._f = f
        self._c = counter

    def __iter__(self):
        return self

    def __next__(self):
        line = next(self._f)
        self._c[0] += 1
        return line

    def __enter__(self):
        return self

    def __exit__(self, *a):
        self._f.close()
        return False


def load_with(api, path, counter=None):
    """Yield real catalogs through one of the three public entry points."""
    import csep
    from csep.core import catalogs as cmod
    if api == 'classmethod':
        if counter is not None:
            # the loader looks up open() through its module globals first: shadow it for this call only
            def counting_open(fn, *a, **k):
                return CountingFile(open(fn, *a, **k), counter)
            cmod.open = counting_open
            try:
                for c in cmod.CSEPCatalog.load_ascii_catalogs(path):
                    yield c
            finally:
                del cmod.open
        else:
            for c in cmod.CSEPCatalog.load_ascii_catalogs(path):
                yield c
    elif api == 'ses':
        for c in csep.load_stochastic_event_sets(path):
            yield c
    elif api == 'forecast':
        f = csep.load_catalog_forecast(path)
        for c in f:
            yield c
    elif api == 'forecast_nostore':
        f = csep.load_catalog_forecast(path, store=False)
        for c in f:
            yield c
    else:
        raise MachineryError('unknown api ' + api)


def run_case(chk, case, style, api, path):
    """Replay one TLC case on the real code; returns mismatch description or None."""
    with open(path, 'w', newline='') as f:
        f.write(render(case['file'], style))
    got = []
    status = 'done'
    err = None
    try:
        # the file is named by a str, by a pathlib.Path, or relative to the working directory of a program that changed its
        # process-wide settings (decimal context, numpy print options)
        how = (len(case['file']) + len(style)) % 4
        if how == 1 and api != 'classmethod':
            import pathlib
            for c in load_with(api, pathlib.Path(path)):
                got.append(observe_catalog(c))
        elif how == 2:
            import os
            with other_surroundings(cwd=os.path.dirname(path)):
                for c in load_with(api, os.path.basename(path)):
                    got.append(observe_catalog(c))
        else:
            for c in load_with(api, path):
                got.append(observe_catalog(c))
    except ValueError as ex:
        status = 'rejected'
        err = str(ex)
    except Exception as ex:   # any other exception on a well-formed file is a failure to decode
        status = 'error:%s' % type(ex).__name__
        err = str(ex)
    chk.count()
    if case['mode'] == 'dec':
        if status != 'rejected':
            return {'why': 'file with decreasing catalog ids not rejected', 'status': status, 'n': len(got)}
        return None
    if status != 'done':
        return {'why': 'well-formed file not decoded', 'status': status, 'err': err}
    truth = case['truth']
    if len(got) != len(truth):
        return {'why': 'number of catalogs', 'expected': len(truth), 'got': len(got)}
    for i, (cid, evs) in enumerate(got):
        if cid != i:
            return {'why': 'catalog id', 'position': i, 'got': cid}
        exp = expected_events(truth[i], style)
        if evs != exp:
            return {'why': 'events of catalog %d' % i, 'expected': exp[:4], 'got': evs[:4]}
    return None


def case_signature(case):
    f = case['file']
    kinds = ''.join({'hdr': 'H', 'ev': 'e', 'ph': 'p'}[l['k']] + (str(l['cid']) if l['k'] != 'hdr' else '') for l in f)
    return kinds


# ------------------------------------------------------------------------------------------------ traces
def random_forecast(rng, n_cat, max_ev, p_empty, p_ph, header):
    """Random well-formed abstract file + truth (event ids unique)."""
    file, truth = [], []
    if header:
        file.append({'k': 'hdr', 'cid': -1, 'e': 0})
    e = 0
    for cid in range(n_cat):
        empty = rng.random() < p_empty
        if empty:
            truth.append([])
            if cid == n_cat - 1 or rng.random() < p_ph:
                file.append({'k': 'ph', 'cid': cid, 'e': 0})
        else:
            n = rng.randint(1, max_ev)
            evs = []
            for _ in range(n):
                e += 1
                evs.append(e)
                file.append({'k': 'ev', 'cid': cid, 'e': e})
            truth.append(evs)
    return file, truth


def record_trace(chk, file, truth, mode, style, path, api='classmethod'):
    with open(path, 'w', newline='') as f:
        f.write(render(file, style))
    counter = [0]
    yields = []
    status = 'done'
    # map concrete ids back to abstract ids (alpha): exact comparison of every field
    back = {}
    for l in file:
        if l['k'] == 'ev':
            c = concrete_event(l['e'], style)
            back[(c['id'], c['ms'], c['lat'], c['lon'], c['depth'], c['mag'])] = l['e']
    try:
        for c in load_with(api, path, counter):
            cid, evs = observe_catalog(c)
            yields.append({'consumed': counter[0], 'cid': cid if cid is not None else -99,
                           'evs': [back.get(ev, -1) for ev in evs]})
    except ValueError:
        status = 'rejected'
    except Exception as ex:
        status = 'error'
    chk.count()
    return {'file': file, 'truth': truth, 'mode': mode, 'yields': yields, 'status': status}


def run(chk, replay=None):
    import csep  # noqa: F401  (fresh import of /repo's working tree)
    quick = chk.tier == 'quick'
    chk.rule = ('cases = terminal states of CatForecastDecoder (every admissible encoding of every catalog list within '
                'the bound, plus every adjacent-id-swap of it), each rendered in several text styles and loaded through '
                'the public loaders; traces = random forecasts (<=400 catalogs) recorded per yield. non-trivial = '
                'distinct line-kind/id patterns containing a gap, a placeholder, a header or a swap')
    scratch = os.path.join(chk.tmp, 'f.csv')

    if replay:
        d = replay['detail']
        r = run_case(chk, d['case'], d['style'], d['api'], scratch)
        if r:
            chk.violation(replay['signature'], dict(d, mismatch=r))
        chk.sample({'replayed': d['case']['file'][:6]})
        chk.states = chk.states or 1
        chk.transitions = chk.transitions or 1
        return

    # 1. model checking
    mc_cfg = 'MC_CatForecastDecoder.cfg' if quick else 'MC5_CatForecastDecoder.cfg'
    res = chk.tlc('CatForecastDecoder', mc_cfg, timeout=1200)
    chk.require_coverage(res, ['SkipHeader', 'FirstZero', 'FirstGap', 'Same', 'NextId', 'Gap', 'Reject', 'Finish'])
    chk.log('MC %s: %d distinct states, %.1fs' % (mc_cfg, res.distinct, res.wall))

    # 2. spec -> code
    gen_cfg = 'Gen_CatForecastDecoder.cfg' if quick else 'Gen5_CatForecastDecoder.cfg'
    res = chk.tlc('GenCatForecastDecoder', gen_cfg, workers=1, coverage=False, timeout=1200)
    cases = res.tagged.get('CASE', [])
    if len(cases) < 100:
        raise MachineryError('Gen produced only %d cases' % len(cases))
    chk.log('Gen: %d cases' % len(cases))
    styles = ['us6', 'nofrac', 'frac12', 'mixed'] if quick else ['us6', 'nofrac', 'ms3', 'frac12', 'mixed']
    apis = ['classmethod', 'ses', 'forecast'] if quick else ['classmethod', 'ses', 'forecast', 'forecast_nostore']
    nbad = 0
    for ci, case in enumerate(cases):
        sig0 = case_signature(case)
        if any(ch in sig0 for ch in 'Hp') or case['mode'] == 'dec' or len(case['truth']) > len({l['cid'] for l in case['file'] if l['k'] != 'hdr'}):
            chk.nontrivial(sig0 + case['mode'])
        for si, style in enumerate(styles):
            # all apis on the first style, rotating api on the others
            for api in (apis if si == 0 else [apis[(ci + si) % len(apis)]]):
                r = run_case(chk, case, style, api, scratch)
                if r:
                    nbad += 1
                    chk.violation('gen:%s:%s:%s' % (case['mode'], sig0, r['why'].split(' of ')[0]),
                                  {'case': case, 'style': style, 'api': api, 'mismatch': r})
        if ci < 3:
            chk.sample({'gen_case': {'file': case['file'], 'truth': case['truth'], 'mode': case['mode'],
                                     'expected_status': case['status']}})
    chk.traces += len(cases) if nbad == 0 else 0
    # gen-side negative control: a perturbed expectation must be flagged by the comparator
    ctl = next(c for c in cases if c['mode'] == 'wf' and any(len(t) for t in c['truth']))
    bad = dict(ctl, truth=[list(t) for t in ctl['truth']])
    for t in bad['truth']:
        if t:
            t[0] += 1000
            break
    chk.control('gen: perturbed expected event must be flagged', run_case(chk, bad, 'us6', 'classmethod', scratch) is not None)

    # 3. code -> trace
    rng = random.Random(chk.seed * 1000003 + 12)
    traces = []
    n_tr = 150 if quick else 1500
    for t in range(n_tr):
        big = rng.random() < 0.15
        n_cat = rng.randint(1, 400 if big else 25)
        file, truth = random_forecast(rng, n_cat, rng.choice([1, 2, 5]), rng.choice([0.0, 0.3, 0.7, 0.95]),
                                      rng.choice([0.0, 0.5, 1.0]), rng.random() < 0.5)
        mode = 'wf'
        if rng.random() < 0.2:
            body0 = 1 if file and file[0]['k'] == 'hdr' else 0
            cand = [i for i in range(body0, len(file) - 1) if file[i]['cid'] != file[i + 1]['cid']]
            if cand:
                i = rng.choice(cand)
                file[i], file[i + 1] = file[i + 1], file[i]
                mode = 'dec'
        style = rng.choice(['us6', 'nofrac', 'ms3', 'frac12', 'mixed'])
        tr = record_trace(chk, file, truth, mode, style, scratch)
        traces.append(tr)
        chk.nontrivial('trace:%d:%s:%d:%s' % (n_cat, mode, len(file), style))
    # trace-side negative control: one recorded field corrupted must be rejected, and only that trace
    src = next(t for t in traces if t['mode'] == 'wf' and len(t['yields']) >= 2)
    import copy
    bad = copy.deepcopy(src)
    bad['yields'][1]['consumed'] += 1
    bad2 = copy.deepcopy(src)
    bad2['yields'][0]['cid'] += 1
    all_tr = traces + [bad, bad2]
    acc, rej = chk.validate_traces('TraceCatForecastDecoder', 'Trace_CatForecastDecoder.cfg', all_tr,
                                   diag_cfg='TraceDiag_CatForecastDecoder.cfg', chunk=400)
    chk.traces -= len([i for i in acc if i >= len(traces)])
    rej_idx = {i for i, _ in rej}
    chk.control('trace: corrupted consumed-lines field rejected', len(traces) in rej_idx)
    chk.control('trace: corrupted yielded id rejected', len(traces) + 1 in rej_idx)
    for i, diag in rej:
        if i >= len(traces):
            continue
        tr = traces[i]
        chk.violation('trace:%s:%s' % (tr['mode'], case_signature({'file': tr['file'][:12]})),
                      {'trace_index': i, 'status': tr['status'], 'mode': tr['mode'], 'file_head': tr['file'][:12],
                       'yields_head': tr['yields'][:6], 'longest_explained_prefix': diag})
    chk.sample({'trace': {'file_head': traces[0]['file'][:5], 'yields_head': traces[0]['yields'][:3],
                          'status': traces[0]['status'], 'mode': traces[0]['mode']}})
    chk.exhaustive = True
    chk.notes['constants'] = {'MaxCat': 4 if quick else 5, 'MaxEv': 2}
    chk.notes['styles'] = styles
    chk.notes['apis'] = apis
    chk.assume('files are well-formed in the sense of the property: ids non-decreasing, final id present, placeholder rows only for empty catalogs')
    chk.assume('float fields are written with repr(); equality after loading is exact')
