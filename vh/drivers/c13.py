"""C13 - a catalog forecast is a stable, re-iterable collection.

spec/CatForecastAbs.tla    property-level machine (what every operation must return)
spec/CatForecastImpl.tla   mechanism-level model of CatalogForecast (idx, cache, apply_filters, n_cat, counts,
                           expected rates), TLC: ResOk, PassStable, CacheFiltered, RatesStable for all histories
                           up to MaxHist on all configurations; two constants re-create the repaired defects and
                           must make TLC produce a counterexample (non-vacuity control)
spec -> code : TLC emits every (configuration, forecast, history) of the bounded model; the harness drives a real
               CatalogForecast along it
code -> spec : what the real object did (every pass, internal ones included, and every client-visible result) is
               validated by TLC against CatForecastAbs (TraceCatForecast.tla)
"""
import copy
import io
import os
import random
import contextlib

from vh.core import MachineryError

EVAL_NAMES = ['number_test', 'spatial_test', 'magnitude_test', 'pseudolikelihood_test',
              'resampled_magnitude_test', 'MLL_magnitude_test']


MAIN_MS = 1000000000000 - 86400000 + 500      # origin time of the mainshock of the completeness filter: a fractional second


class World:
    """Concrete realisation of the abstract forecast world: 2 cells x 2 magnitude bins."""

    def __init__(self, ncell=2):
        import numpy
        from csep.core import regions
        self.numpy = numpy
        origins = numpy.array([[float(i), 0.0] for i in range(ncell)])
        self.mags = numpy.array([4.0, 5.0])
        self.make_region = lambda: regions.create_space_magnitude_region(
            regions.CartesianGrid2D.from_origins(origins, dh=1.0), self.mags)
        self.nbins = 2 * ncell

    def event_tuple(self, e, t):
        """abstract event -> (id, origin_time, lat, lon, depth, mag)"""
        b = e['b'] - 1
        cell, k = divmod(b, 2)
        lon = 0.25 + cell + 0.5 * ((e['u'] * 7) % 2)
        lat = 0.25 + 0.5 * ((e['u'] * 3) % 2)
        mag = 4.2 + k + 0.1 * (e['u'] % 5)
        if not e['m']:
            mag = 3.1 + 0.1 * (e['u'] % 5)      # below the minimum magnitude; removed by 'magnitude >= 4.0'
            if getattr(self, 'near_completeness', False):
                # ... or only just below the completeness magnitude at the event's time (mainshock MAIN_MS, magnitude 8.5):
                # 5e-7 below it, while half a second more or less since the mainshock moves the threshold by 2e-6
                import math
                days = (1000000000000 + 1000 * t - MAIN_MS) / 86400000.0
                mag = 8.5 - 4.5 - 0.75 * math.log10(days) - 5e-7
        if not e['s']:
            lon = 5.5                           # outside the region; removed by the spatial filter
        return ('u%d' % e['u'], 1000000000000 + 1000 * t, lat, lon, 10.0, mag)

    def csv_line(self, tup, cid):
        import datetime
        dt = datetime.datetime(1970, 1, 1) + datetime.timedelta(milliseconds=tup[1])
        return '%r,%r,%r,%s,%r,%d,%s' % (tup[3], tup[2], tup[5], dt.strftime('%Y-%m-%dT%H:%M:%S.%f'), tup[4], cid, tup[0])


class Recorder:
    def __init__(self):
        self.passes = []
        self.cur = []

    def reset(self):
        self.passes, self.cur = [], []


def install_wrapper(rec):
    """Harness-side observation of every pass (no source change)."""
    from csep.core.forecasts import CatalogForecast
    if getattr(CatalogForecast, '_verif_wrapped', False):
        CatalogForecast._verif_rec[0] = rec
        return
    orig = CatalogForecast.__next__
    holder = [rec]

    def wrapped(self):
        try:
            c = orig(self)
        except StopIteration:
            holder[0].passes.append(holder[0].cur)
            holder[0].cur = []
            raise
        r = holder[0]
        ids = [int(x.decode()[1:]) for x in c.get_event_ids()] if c.event_count else []
        r.cur.append([c.catalog_id if c.catalog_id is not None else -1] + ids)
        return c
    CatalogForecast.__next__ = wrapped
    CatalogForecast._verif_wrapped = True
    CatalogForecast._verif_rec = holder


def build_forecast(world, conf, cats, path, ncat_given=True):
    import csep
    from csep.core.catalogs import CSEPCatalog
    from csep.core.forecasts import CatalogForecast
    region = world.make_region()
    if conf.get('magdtype'):
        # the magnitude bin edges arrive in single precision (4.0 and 5.0 are exact in it): the rates are the same numbers
        from csep.core import regions as _regions
        region = _regions.create_space_magnitude_region(region, world.mags.astype(conf['magdtype']))
    kw = {}
    if conf['filt']:
        # three realisations of "the configured attribute filters": a statement, the time-dependent completeness
        # magnitude after a mainshock (one day before the events, magnitude 8.5: completeness just below 4.0 at their
        # times, so it removes exactly the events the statement removes), or both
        real = conf.get('real', 'stmt')
        if real in ('stmt', 'both'):
            kw['filters'] = ['magnitude >= 4.0']
        if real in ('mct', 'both'):
            import datetime
            import types
            kw['apply_mct'] = True
            kw['event'] = types.SimpleNamespace(magnitude=8.5, time=datetime.datetime(1970, 1, 1, tzinfo=datetime.timezone.utc) +
                                                datetime.timedelta(milliseconds=MAIN_MS))
            world.near_completeness = (real == 'mct')
    if conf['spat']:
        kw['filter_spatial'] = True
    if conf['filt'] or conf['spat']:
        kw['apply_filters'] = True
    t = 0
    if conf['src'] == 'list':
        lst = []
        for i, cat in enumerate(cats):
            data = []
            for e in cat:
                t += 1
                data.append(world.event_tuple(e, t))
            carry = conf.get('carry')
            if carry == 'region':
                # the catalogs come with a region of their own (a wider lattice in another cell order, finer magnitude
                # bins): the forecast's expected rates are on the forecast's region
                import numpy
                from csep.core import regions
                wide = regions.create_space_magnitude_region(
                    regions.CartesianGrid2D.from_origins(numpy.array([[float(i), 0.0] for i in (3, 2, 1, 0, -1)]), dh=1.0),
                    numpy.array([3.0, 3.5, 4.0, 4.5, 5.0, 5.5]))
                lst.append(CSEPCatalog(data=data, catalog_id=i, region=wide))
                continue
            if carry == 'ctor' and 'filters' in kw:
                # the catalog already names the statements in its `filters` attribute (set by the constructor: nothing was
                # filtered yet)
                lst.append(CSEPCatalog(data=data, catalog_id=i, filters=list(kw['filters'])))
            else:
                lst.append(CSEPCatalog(data=data, catalog_id=i))
                if carry == 'copy' and 'filters' in kw:
                    # a filtered copy was taken earlier; the catalog handed to the forecast is the untouched original
                    lst[-1].filter(list(kw['filters']), in_place=False)
        if ncat_given:
            kw['n_cat'] = len(lst)
        world.near_completeness = False
        return CatalogForecast(catalogs=lst, region=region, name='f', **kw)
    lines = []
    for i, cat in enumerate(cats):
        if not cat:
            lines.append(',,,,,%d,' % i)
        for e in cat:
            t += 1
            lines.append(world.csv_line(world.event_tuple(e, t), i))
    with open(path, 'w', newline='') as f:
        f.write('\n'.join(lines) + '\n')
    world.near_completeness = False
    return csep.load_catalog_forecast(path, region=region, store=(conf['src'] == 'store'), name='f', **kw)


def project_rates(world, gf, n_expected):
    """GriddedForecast of mean counts -> [k, v, n]; v = per-bin sums recovered exactly."""
    if gf is None:
        return {'k': 'none', 'v': [], 'n': 0}
    data = gf.data
    flat = [float(x) for x in data.reshape(-1)]
    return flat


def observed_catalog(world):
    from csep.core.catalogs import CSEPCatalog
    region = world.make_region()
    data = [('o1', 1000000500000, 0.5, 0.5, 5.0, 4.5), ('o2', 1000000600000, 0.5, 1.5, 5.0, 5.5)]
    return CSEPCatalog(data=data, region=region, name='obs')


def run_history(world, conf, cats, hist, path, rec, seed=1):
    """Drive a real forecast along hist; returns trace dict."""
    import numpy
    from csep.core import catalog_evaluations as ce
    rec.reset()
    events = []
    aborted = None
    try:
        fc = build_forecast(world, conf, cats, path, ncat_given=conf.get('ncat_given', True))
    except Exception as ex:
        return {'conf': conf, 'cats': cats, 'events': [], 'aborted': 'build: %r' % ex}
    obs = observed_catalog(world)
    n_view_events = sum(1 for c in cats for e in c if (e['m'] or not conf['filt']) and (e['s'] or not conf['spat']))
    for pos, op in enumerate(hist):
        rec.reset()
        ret = None
        try:
            with contextlib.redirect_stdout(io.StringIO()):
                if op == 'iter':
                    got = []
                    if (pos + seed) % 2:
                        # the forecast is its own iterator: a complete pass may be driven with next() alone
                        def passes_via_next():
                            while True:
                                try:
                                    yield next(fc)
                                except StopIteration:
                                    return
                        src_iter = passes_via_next()
                    else:
                        src_iter = fc
                    for c in src_iter:
                        ids = [int(x.decode()[1:]) for x in c.get_event_ids()] if c.event_count else []
                        got.append([c.catalog_id if c.catalog_id is not None else -1] + ids)
                    ret = {'k': 'cats', 'v': got, 'n': len(got)}
                elif op == 'counts':
                    v = [int(x) for x in fc.get_event_counts(verbose=False)]
                    ret = {'k': 'ints', 'v': v, 'n': len(v)}
                elif op == 'ncat':
                    ret = {'k': 'none', 'v': [], 'n': 0} if fc.n_cat is None else {'k': 'int', 'v': [], 'n': int(fc.n_cat)}
                elif op in ('rates', 'scounts', 'mcounts'):
                    if op == 'rates':
                        gf = fc.get_expected_rates()
                        arr = None if gf is None else gf.data
                    elif op == 'scounts':
                        arr = fc.spatial_counts()
                    else:
                        arr = fc.magnitude_counts()
                    if arr is None:
                        ret = {'k': 'none', 'v': [], 'n': 0}
                    else:
                        full = fc.expected_rates.data
                        n = len(cats)
                        # alpha: recover the integer per-bin sums exactly: value must equal sum / n in float division
                        sums = []
                        ok = True
                        for x in full.reshape(-1):
                            s = int(round(float(x) * n))
                            if float(numpy.float64(s) / numpy.float64(n)) != float(x):
                                ok = False
                            sums.append(s)
                        # marginals must be the marginals of the same array
                        if op == 'scounts' and [float(a) for a in arr] != [float(a) for a in full.sum(axis=1)]:
                            ok = False
                        if op == 'mcounts' and [float(a) for a in arr] != [float(a) for a in full.sum(axis=0)]:
                            ok = False
                        ret = {'k': 'rates' if ok else 'rates-inexact', 'v': sums, 'n': n}
                        # the arrays handed out belong to the caller: overwritten here, the next request must not see it
                        for a_ in (arr, full):
                            try:
                                a_[...] = -1.0
                            except (ValueError, TypeError):
                                pass
                else:  # eval
                    name = EVAL_NAMES[(pos + len(cats) + seed) % len(EVAL_NAMES)] if n_view_events > 0 else 'number_test'
                    fn = getattr(ce, name)
                    if name in ('resampled_magnitude_test', 'MLL_magnitude_test'):
                        fn(fc, obs, seed=seed + 1)
                    else:
                        fn(fc, obs, verbose=False)
                    ret = {'k': 'ok', 'v': [], 'n': 0}
        except StopIteration:
            raise
        except Exception as ex:
            if op == 'eval':
                aborted = 'eval %s raised %r' % (name, ex)
                break
            ret = {'k': 'raised:%s' % type(ex).__name__, 'v': [], 'n': 0}
            events.append({'op': op, 'passes': rec.passes, 'ret': ret})
            break
        events.append({'op': op, 'passes': rec.passes, 'ret': ret})
    tr = {'conf': {k: conf[k] for k in ('src', 'filt', 'spat')}, 'cats': cats, 'events': events}
    if aborted:
        tr['aborted'] = aborted
    return tr


def tla_cats(cats):
    return cats


def random_world_forecast(rng):
    n = rng.randint(1, 8)
    conf = {'src': rng.choice(['list', 'store', 'nostore']), 'filt': rng.random() < 0.5, 'spat': rng.random() < 0.5}
    cats, u = [], 0
    for _ in range(n):
        cat = []
        if rng.random() > 0.3:
            for _ in range(rng.randint(1, 5)):
                u += 1
                cat.append({'u': u, 'b': rng.randint(1, 4), 'm': (rng.random() > 0.3) if conf['filt'] else True,
                            's': (rng.random() > 0.3) if conf['spat'] else True})
        cats.append(cat)
    return conf, cats


def sig_of(tr, first_bad):
    hist = [e['op'] for e in tr['events']]
    c = tr['conf']
    return 'hist:%s:%s%s%s:%s' % (c['src'], 'F' if c['filt'] else '-', 'S' if c['spat'] else '-',
                                   '' if tr.get('ncat_given', True) else 'noncat', ','.join(hist[:first_bad + 1]))


def run(chk, replay=None):
    import csep  # noqa
    quick = chk.tier == 'quick'
    world = World()
    rec = Recorder()
    install_wrapper(rec)
    path = os.path.join(chk.tmp, 'fc.csv')
    chk.rule = ('histories = every sequence of client operations {iter, counts, ncat, rates, scounts, mcounts, eval} of '
                'length MaxHist emitted by TLC from CatForecastImpl for every configuration x forecast, driven on real '
                'CatalogForecast objects, plus random longer histories on random forecasts; non-trivial = distinct '
                '(configuration, history) with at least two pass-making operations')

    if replay:
        d = replay['detail']
        tr = run_history(world, dict(d['conf'], ncat_given=d.get('ncat_given', True)), d['cats'], d['hist'], path, rec)
        acc, rej = chk.validate_traces('TraceCatForecast', 'Trace_CatForecast.cfg', [tr],
                                       diag_cfg='TraceDiag_CatForecast.cfg')
        if rej:
            chk.violation(replay['signature'], dict(d, trace=tr['events'][-2:]))
        chk.sample({'replayed_history': d['hist']})
        return

    # 1. model checking of the mechanism model against the property-level module
    mc = 'MC3_CatForecastImpl.cfg' if quick else 'MC4_CatForecastImpl.cfg'
    res = chk.tlc('CatForecastImpl', mc, timeout=3000)
    chk.require_coverage(res, ['Call', 'NextListItem', 'NextGenItem', 'ListEnd', 'GenEnd', 'Return'])
    chk.log('MC %s: %d distinct states (%.1fs)' % (mc, res.distinct, res.wall))
    # non-vacuity: the two repaired defects, re-created in the model, must be found by TLC
    for cfg, inv in (('MCbug1_CatForecastImpl.cfg', 'ResOk'), ('MCbug2_CatForecastImpl.cfg', 'ResOk')):
        r = chk.tlc('CatForecastImpl', cfg, expect='any', coverage=False, count_states=False)
        chk.control('model %s must violate %s' % (cfg, inv), r.violated == inv)

    # 2. spec -> code -> spec on TLC-emitted histories
    gen = 'Gen2_CatForecastImpl.cfg' if quick else 'Gen3_CatForecastImpl.cfg'
    res = chk.tlc('GenCatForecastImpl', gen, workers=1, coverage=False, timeout=3000, count_states=False)
    cases = res.tagged.get('CASE', [])
    if len(cases) < 500:
        raise MachineryError('Gen produced only %d histories' % len(cases))
    chk.log('Gen %s: %d histories' % (gen, len(cases)))
    rng = random.Random(chk.seed * 7919 + 13)
    traces, meta = [], []
    aborted = 0
    for ci, case in enumerate(cases):
        conf = dict(case['conf'])
        cats = [[dict(e, b=e['b']) for e in cat] for cat in case['cats']]
        conf['ncat_given'] = not (conf['src'] == 'list' and rng.random() < 0.25)
        conf['real'] = rng.choice(['stmt', 'mct', 'both'])
        conf['carry'] = rng.choice([None, 'ctor', 'copy', 'region'])
        conf['magdtype'] = rng.choice([None, None, 'float32'])
        tr = run_history(world, conf, cats, case['hist'], path, rec, seed=ci)
        chk.count()
        if 'aborted' in tr:
            aborted += 1
        tr['ncat_given'] = conf['ncat_given']
        traces.append(tr)
        meta.append({'conf': conf, 'cats': cats, 'hist': case['hist'], 'ncat_given': conf['ncat_given']})
        if sum(1 for o in case['hist'] if o in ('iter', 'eval', 'counts', 'rates', 'scounts', 'mcounts')) >= 2:
            chk.nontrivial('%s|%s|%s' % (sorted(case['conf'].items()), len(cats), case['hist']))
    # 3. random longer histories
    n_rand = 150 if quick else 1500
    for t in range(n_rand):
        conf, cats = random_world_forecast(rng)
        conf['ncat_given'] = not (conf['src'] == 'list' and rng.random() < 0.25)
        conf['real'] = ['stmt', 'mct', 'both'][t % 3]
        conf['carry'] = [None, 'ctor', 'copy', 'region'][t % 4]
        conf['magdtype'] = [None, 'float32', None][t % 3]
        hist = [rng.choice(['iter', 'counts', 'ncat', 'rates', 'scounts', 'mcounts', 'eval']) for _ in range(rng.randint(5, 12))]
        tr = run_history(world, conf, cats, hist, path, rec, seed=t)
        chk.count()
        if 'aborted' in tr:
            aborted += 1
        tr['ncat_given'] = conf['ncat_given']
        traces.append(tr)
        meta.append({'conf': conf, 'cats': cats, 'hist': hist, 'ncat_given': conf['ncat_given']})
        chk.nontrivial('rand|%s|%s' % (sorted(conf.items()), hist))
    # negative controls: corrupt one logged field
    src_i = next(i for i, t in enumerate(traces) if len(t['events']) >= 2 and t['events'][1]['passes'] and t['events'][1]['passes'][0])
    bad1 = copy.deepcopy(traces[src_i])
    bad1['events'][1]['passes'][0][0][0] += 1       # a yielded catalog id
    src_j = next(i for i, t in enumerate(traces) if any(e['ret']['k'] == 'ints' and e['ret']['v'] for e in t['events']))
    bad2 = copy.deepcopy(traces[src_j])
    for e in bad2['events']:
        if e['ret']['k'] == 'ints' and e['ret']['v']:
            e['ret']['v'][0] += 1
            break
    allt = traces + [bad1, bad2]
    clean = [{'conf': t['conf'], 'cats': t['cats'], 'events': t['events']} for t in allt]
    acc, rej = chk.validate_traces('TraceCatForecast', 'Trace_CatForecast.cfg', clean,
                                   diag_cfg='TraceDiag_CatForecast.cfg', chunk=1500)
    chk.traces -= len([i for i in acc if i >= len(traces)])
    rej_idx = {i for i, _ in rej}
    chk.control('trace: corrupted yielded catalog id rejected', len(traces) in rej_idx)
    chk.control('trace: corrupted event count rejected', len(traces) + 1 in rej_idx)
    for i, diag in rej:
        if i >= len(traces):
            continue
        tr = traces[i]
        # first unexplained event: the one after the longest explained prefix (found by TLC for the first few;
        # otherwise reported as whole history)
        k = diag[-1]['explained_events'] if diag else len(tr['events']) - 1
        k = min(k, len(tr['events']) - 1) if tr['events'] else 0
        chk.violation(sig_of(tr, k), dict(meta[i], first_unexplained=tr['events'][k] if tr['events'] else tr.get('aborted'),
                                          explained_events=k))
    chk.sample({'history': meta[0]['hist'], 'conf': meta[0]['conf'], 'cats': meta[0]['cats'], 'trace_events': traces[0]['events']})
    chk.sample({'random_history': meta[-1]['hist'], 'conf': meta[-1]['conf']})
    chk.notes['aborted_histories'] = aborted
    chk.notes['constants'] = {'MaxHist_mc': 3 if quick else 4, 'NBins': 2, 'gen_hist_len': 2 if quick else 3}
    chk.exhaustive = True
    chk.assume('an evaluation that raises for reasons of its own (e.g. resampling from an all-empty forecast) ends the '
               'history; what was recorded up to that point is still validated')
    chk.assume('partial passes (a loop abandoned by break) are outside the property and are not driven')
