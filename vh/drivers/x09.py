"""X09 (extension, not a listed property) - dispatch of the top-level loading functions.

spec/Loaders.tla   the decision procedures of csep.load_catalog, load_stochastic_event_sets, load_gridded_forecast,
        load_catalog_forecast and load_evaluation_result transcribed as tables over their independent arguments (915 calls);
        TLC: Total, FiltersOnlyOnRequest, FiltersHonoured, CsepMeansCsep, MissingFileFirst, CustomLoaderUsed, GivenNameWins.
        MCbug (a spatial filter reported without a region) must be refuted.
spec -> code   GenLoaders: every call of the domain is performed on tiny real files (three events: one kept by every
        filter, one removed by the attribute filter, one outside the region; in every catalog format).
code -> spec   what each call returned or raised is projected (class, reader used - recognised by the event ids it produces -,
        which of the three events are left, number of catalogs, name / start time) and TLC judges every record against the
        tables (TraceLoaders): one implementation test per table row.
"""
import datetime
import gzip  # noqa
import json
import os
import random

from vh.core import MachineryError, guarded, Raised

EVENTS = [  # lon, lat, depth, magnitude; the attribute filter is 'depth < 50.0', the region one cell [10, 11) x [10, 11)
    (10.5, 10.5, 10.0, 5.0),
    (10.25, 10.75, 80.0, 5.5),
    (40.5, 10.5, 10.0, 6.0),
]
FILTER = ['depth < 50.0']


def recs():
    return [{'y': 2010, 'mo': 1, 'd': 2, 'h': 3, 'mi': 4, 's': 5 + i, 'ms': 0, 'off': 0, 'lon': e[0], 'lat': e[1], 'dep': e[2], 'mag': e[3]}
            for i, e in enumerate(EVENTS)]


def run(chk, replay=None):
    import numpy
    import csep
    from csep.core import catalogs, forecasts
    from csep.core.regions import CartesianGrid2D
    from csep.models import EvaluationResult
    from vh.drivers.c19 import render
    quick = chk.tier == 'quick'
    rng = random.Random(chk.seed + 909)
    chk.rule = ('calls = every argument combination of the five loading functions in the domain of Loaders.tla (915), each '
                'performed on real files. non-trivial = distinct calls that are accepted with a filter, a conversion or a custom reader')
    res = chk.tlc('Loaders', 'MC_Loaders.cfg', timeout=600)
    chk.require_coverage(res, ['Perform'])
    r = chk.tlc('Loaders', 'MCbug_Loaders.cfg', expect='any', coverage=False, count_states=False)
    chk.control('model MCbug_Loaders.cfg refuted', r.violated == 'FiltersOnlyOnRequest')
    res = chk.tlc('GenLoaders', 'Gen_Loaders.cfg', workers=1, coverage=False, count_states=False, timeout=600)
    cases = res.tagged.get('CASE', [])
    if len(cases) < 800:
        raise MachineryError('Gen produced %d calls' % len(cases))

    tmp = chk.tmp

    def region():
        return CartesianGrid2D.from_origins(numpy.array([[10.0, 10.0]]), dh=1.0, magnitudes=numpy.array([4.0, 5.0]))

    def which_left(cat):
        """indices of EVENTS still in the catalog (by depth and longitude)"""
        left = []
        for row in cat.catalog:
            lon, dep = float(row['longitude']), float(row['depth'])
            k = next((i for i, e in enumerate(EVENTS) if abs(e[0] - lon) < 1e-3 and abs(e[2] - dep) < 1e-3), None)
            left.append(k)
        return left

    # ------------------------------------------------------------------ files
    def write(path, text, mode='w'):
        with open(path, mode) as f:
            f.write(text)
        return path

    def emrcmt_text():
        lines = [','.join(['ev_id'] + ['c%d' % i for i in range(1, 70)])]
        for i, e in enumerate(EVENTS):
            cols = [''] * 70
            cols[0] = 'X%d' % i
            cols[1], cols[2], cols[3] = '2010-01-02', '03:04:%02d' % (5 + i), '0'
            cols[4], cols[5], cols[6] = repr(e[1]), repr(e[0]), repr(e[2])
            cols[61] = repr(e[3])
            lines.append(','.join(cols))
        return '\n'.join(lines) + '\n'

    def ucerf3_file(path):
        """a single UCERF3-ETAS catalog in the binary layout of UCERF3Catalog.load_catalog (version 1)"""
        cls = catalogs.UCERF3Catalog
        hd = cls._get_header_dtype(1)
        ev = cls._get_catalog_dtype(1)
        h = numpy.zeros(1, dtype=hd)
        h['file_version'] = 1
        h['catalog_size'] = len(EVENTS)
        a = numpy.zeros(len(EVENTS), dtype=ev)
        for i, e in enumerate(EVENTS):
            a[i]['longitude'], a[i]['latitude'], a[i]['depth'], a[i]['magnitude'] = e
            a[i]['origin_time'] = 1262401445000 + 1000 * i
        with open(path, 'wb') as f:
            f.write(h.tobytes())
            f.write(a.tobytes())
        return path

    def catalog_file(ctype, ext):
        path = os.path.join(tmp, 'cat_%s.%s' % (ctype.replace('-', '_'), ext))
        if ext == 'json':
            data = [('j%d' % i, 1262401445000 + 1000 * i, e[1], e[0], e[2], e[3]) for i, e in enumerate(EVENTS)]
            catalogs.CSEPCatalog(data=data).write_json(path)
            return path
        if ctype == 'ucerf3':
            return ucerf3_file(path)
        if ctype == 'ingv_emrcmt':
            return write(path, emrcmt_text())
        if ctype == 'bogus':
            return write(path, 'nothing\n')
        text, _ = render(ctype, recs(), random.Random(1))
        return write(path, text)

    def custom_reader(fname):
        return [('c%d' % i, 1262401445000 + 1000 * i, e[1], e[0], e[2], e[3]) for i, e in enumerate(EVENTS)]

    def project_err(r):
        return {'k': 'raised', 'err': r.text.split(':')[0].split('(')[0].strip().split('.')[-1], 'cls': 'none', 'route': 'none', 'attr': False,
                'spat': False, 'n': -1, 'name': 'none', 'st': False}

    def ok(cls, route, attr=False, spat=False, n=-1, name='none', st=False):
        return {'k': 'ok', 'err': 'none', 'cls': cls, 'route': route, 'attr': attr, 'spat': spat, 'n': n, 'name': name, 'st': st}

    # ------------------------------------------------------------------ the five functions
    def do_catalog(c):
        path = catalog_file(c['type'], 'json' if c['ext'] == 'json' else 'txt')
        kw = {}
        if c['filters']:
            kw['filters'] = list(FILTER)
        if c['region']:
            kw['region'] = region()
        if c['loader'] == 'ok':
            kw['loader'] = custom_reader
        r = guarded(csep.load_catalog, path, type=c['type'], format=c['format'], apply_filters=c['apply'], **kw)
        if isinstance(r, Raised):
            return project_err(r), None
        left = which_left(r)
        ids = [x.decode() if isinstance(x, bytes) else str(x) for x in r.get_event_ids()] if r.event_count else []
        route = 'json' if any(i.startswith('j') for i in ids) else ('custom' if any(i.startswith('c') for i in ids) else 'default')
        extra = None
        if None in left or len(set(left)) != len(left) or left != sorted(left):
            extra = 'events decoded wrongly or out of order: %r' % (left,)
        return ok(type(r).__name__, route, attr=1 not in left, spat=2 not in left), extra

    def sets_file(stype, ncat):
        path = os.path.join(tmp, 'sets_%s_%d.%s' % (stype, ncat, 'bin' if stype == 'ucerf3' else 'csv'))
        if stype == 'ucerf3':
            from vh.drivers.x02 import EV_V1, value
            import struct
            b = struct.pack('>i', ncat)
            for _ in range(ncat):
                b += struct.pack('>h', 1) + struct.pack('>i', 1)
                for i, (name, code) in enumerate(EV_V1, 1):
                    b += struct.pack('>' + code, value(i, code, 0))
            with open(path, 'wb') as f:
                f.write(b)
            return path
        lines = ['lon,lat,mag,time_string,depth,catalog_id,event_id']
        for cid in range(ncat):
            lines.append('10.5,10.5,5.0,2010-01-02T03:04:05.000000,10.0,%d,s%d' % (cid, cid))
        return write(path, '\n'.join(lines) + '\n')

    def do_sets(c):
        path = sets_file(c['type'] if c['type'] != 'bogus' else 'csv', c['ncat'])
        r = guarded(lambda: list(csep.load_stochastic_event_sets(path, type=c['type'], format=c['format'])))
        if isinstance(r, Raised):
            return project_err(r), None
        classes = {type(x).__name__ for x in r}
        extra = None
        if len(classes) > 1:
            extra = 'mixed classes %r' % (classes,)
        return ok(classes.pop() if classes else 'none', 'default', n=len(r)), extra

    def gridded_file(ext, exists):
        path = os.path.join(tmp, 'fc_%s.%s' % ('x' if exists else 'missing', ext))
        if exists:
            write(path, '10.0 11.0 10.0 11.0 0.0 30.0 4.0 5.0 0.25 1\n10.0 11.0 10.0 11.0 0.0 30.0 5.0 6.0 0.5 1\n')
        elif os.path.exists(path):
            os.remove(path)
        return path

    def do_gridded(c):
        path = gridded_file(c['ext'], c['exists'])
        made = {}

        def good(fname, **kw):
            made['called'] = True
            return forecasts.GriddedForecast(region=region(), magnitudes=numpy.array([4.0, 5.0]), data=numpy.array([[1.0, 2.0]]), name='custom')

        def other(fname, **kw):
            made['called'] = True
            return {'not': 'a forecast'}
        loader = {'none': None, 'ok': good, 'other': other, 'notcallable': 'load_ascii'}[c['loader']]
        r = guarded(csep.load_gridded_forecast, path, loader=loader)
        if isinstance(r, Raised):
            return project_err(r), None
        extra = None
        route = 'custom' if r.name == 'custom' else 'default'
        if route == 'default' and abs(float(r.event_count) - 0.75) > 1e-12:
            extra = 'default reader returned total %r' % float(r.event_count)
        return ok(type(r).__name__, route), extra

    def do_catfc(c):
        base = 'modelx_2010-01-02T03-04-05-0.csv' if c['fname'] == 'parse' else 'plainname.csv'
        d = os.path.join(tmp, 'cf_%s' % ('x' if c['exists'] else 'missing'))
        os.makedirs(d, exist_ok=True)
        path = os.path.join(d, base)
        if c['exists']:
            write(path, 'lon,lat,mag,time_string,depth,catalog_id,event_id\n10.5,10.5,5.0,2010-01-02T03:04:05.000000,10.0,0,s0\n')
        elif os.path.exists(path):
            os.remove(path)

        def reader(filename=None, **kw):
            return iter([])
        loader = {'none': None, 'ok': reader, 'notcallable': 42}[c['loader']]
        kw = {}
        if c['namekw']:
            kw['name'] = 'given-name'
        r = guarded(csep.load_catalog_forecast, path, catalog_loader=loader, format=c['format'], type=c['type'], **kw)
        if isinstance(r, Raised):
            return project_err(r), None
        name = 'given' if r.name == 'given-name' else ('parsed' if r.name == 'modelx' else ('none' if r.name is None else 'other:%r' % r.name))
        st = r.start_time == datetime.datetime(2010, 1, 2, 3, 4, 5, tzinfo=datetime.timezone.utc)
        extra = None
        if r.start_time is not None and not st:
            extra = 'start time %r' % (r.start_time,)
        route = 'custom' if r.loader is reader else 'default'
        return ok(type(r).__name__, route, name=name, st=bool(st)), extra

    def do_result(c):
        path = os.path.join(tmp, 'res_%s.json' % c['type'])
        d = EvaluationResult(test_distribution=[1.0, 2.0], name='T', observed_statistic=1.5, quantile=0.5, status='normal',
                             obs_catalog_repr='', sim_name='f', obs_name='o', min_mw=4.0).to_dict()
        if c['type'] == 'missing':
            d.pop('type', None)
        else:
            d['type'] = c['type']
        with open(path, 'w') as f:
            json.dump(d, f)
        r = guarded(csep.load_evaluation_result, path)
        if isinstance(r, Raised):
            return project_err(r), None
        extra = None
        if r.observed_statistic != 1.5 or r.sim_name != 'f':
            extra = 'fields lost'
        return ok(type(r).__name__, 'default'), extra

    DO = {'catalog': do_catalog, 'sets': do_sets, 'gridded': do_gridded, 'catfc': do_catfc, 'result': do_result}

    def perform(call):
        import contextlib
        import io
        import warnings
        with contextlib.redirect_stdout(io.StringIO()), warnings.catch_warnings():
            warnings.simplefilter('ignore')
            out, extra = DO[call['fn']](call)
        chk.count()
        return out, extra

    if replay:
        d = replay['detail']
        out, extra = perform(d['call'])
        acc, rej = chk.validate_traces('TraceLoaders', 'Trace_Loaders.cfg', [{'call': d['call'], 'out': out}], chunk=10)
        if rej or extra:
            chk.violation(replay['signature'], dict(d, got=out, extra=extra))
        chk.sample({'replayed': d['call']})
        return

    traces = []
    for ci, case in enumerate(cases):
        call = case['call']
        out, extra = perform(call)
        traces.append({'call': call, 'out': out})
        if extra:
            chk.violation('%s:content:%s' % (call['fn'], extra.split(':')[0].split(' %')[0][:40]), {'call': call, 'got': out, 'extra': extra})
        exp = case['out']
        if exp['k'] == 'ok' and (exp['attr'] or exp['route'] != 'default' or call['format'] == 'csep' or exp['name'] != 'none'):
            chk.nontrivial(json.dumps(call, sort_keys=True))
    import copy
    src = next(i for i, t in enumerate(traces) if t['out']['k'] == 'ok' and t['out']['attr'])
    bad = copy.deepcopy(traces[src])
    bad['out']['spat'] = not bad['out']['spat']
    acc, rej = chk.validate_traces('TraceLoaders', 'Trace_Loaders.cfg', traces + [bad], chunk=1000, parallel=2)
    chk.traces -= len([i for i in acc if i >= len(traces)])
    chk.control('trace: outcome with the spatial flag flipped rejected', len(traces) in {i for i, _ in rej})
    for i, diag in rej:
        if i >= len(traces):
            continue
        t = traces[i]
        exp = cases[i]['out']
        c = t['call']
        what = ('raised %s' % t['out']['err']) if t['out']['k'] == 'raised' else 'accepted'
        want = ('raises %s' % exp['err']) if exp['k'] == 'raised' else 'is accepted'
        key = {'catalog': '%s/%s/%s' % ('known-type' if c['type'] != 'bogus' else 'unknown-type', c['ext'], 'filtered' if c['apply'] else 'plain'),
               'sets': '%s/%s' % (c['type'], c['format']), 'gridded': '%s/%s' % (c['ext'], c['loader']),
               'catfc': '%s/%s' % (c['type'], c['loader']), 'result': c['type']}[c['fn']]
        chk.violation('%s:%s:%s where the table %s' % (c['fn'], key, what, want), {'call': c, 'got': t['out'], 'expected': exp})
    chk.sample({'call': traces[3]['call'], 'outcome': traces[3]['out']})
    chk.exhaustive = True
    chk.assume('csep.load_catalog is not explored for type ucerf3 (its single-catalog binary reader reads version, header and events from offset 0)')
