"""C10 - catalog-based consistency tests compute the documented statistics.

spec/CatEval.tla   every statistic as an XR over exact rationals (the forecast's rates are mean counts) and the control flow of
        each test (not-valid / no result for an empty observation, recomputation without never-sampled cells + status
        'undersampled', skipping of empty synthetic catalogs); TLC: NeverSilentInfinity, UnsampledFlagged,
        EmptyObservationSignalled, EmptyCatalogsSkipped, RatesAreMeanCounts over all forecasts of <= 2 (3) catalogs of <= 2
        events on 2 cells x 2 bins and all observations of <= 2 events.
gen -> code -> spec  every (forecast, observation) of the bounded model is built in memory and as a streamed CSV, the six tests
        are run (resampling draws recorded by a harness-side wrapper on numpy.random.choice), and TLC (TraceCatEval) states
        status, presence, observed statistic and every distribution entry, which the harness interprets at 50 digits; quantiles
        must follow the empirical rule of C09.  Random larger forecasts (up to 200 catalogs) go through the same path.
"""
import io
import contextlib
import math
import os
import random

from vh.core import MachineryError, guarded, guarded_timeout, Raised
from vh import xr


class ChoiceCapture:
    def __init__(self, numpy):
        self.numpy = numpy
        self.draws = []

    def __enter__(self):
        self._orig = self.numpy.random.choice
        cap = self

        def choice(*a, **k):
            v = cap._orig(*a, **k)
            cap.draws.append(cap.numpy.array(v, dtype=float).copy())
            return v
        self.numpy.random.choice = choice
        return self

    def __exit__(self, *a):
        self.numpy.random.choice = self._orig
        return False


def run(chk, replay=None):
    import numpy
    from csep.core import catalog_evaluations as ce
    from csep.core.catalogs import CSEPCatalog
    from vh.drivers.c13 import World, build_forecast
    if not xr.HAVE_MP:
        raise MachineryError('mpmath not available (run bin/setup)')
    quick = chk.tier == 'quick'
    rng = random.Random(chk.seed + 1010)
    world = World(ncell=3)       # 3 cells: sampled+observed, sampled+unobserved and never-sampled cells can coexist
    path = os.path.join(chk.tmp, 'fc.csv')
    chk.rule = ('cases = every forecast of <=2 (thorough 3) synthetic catalogs of <=2 events on 2 cells x 2 magnitude bins x every '
                'observation of <=2 events from TLC, in memory and streamed from file; plus random forecasts of up to 200 catalogs. '
                'non-trivial = distinct (forecast, observation) with an empty catalog, an empty observation, an observed event in a '
                'never-sampled cell, or several events per cell')
    res = chk.tlc('CatEval', 'MC_CatEval.cfg', timeout=1800)
    res = chk.tlc('GenCatEval', 'Gen_CatEval.cfg', workers=1, coverage=False, count_states=False, timeout=1800)
    cases = res.tagged.get('CASE', [])
    if len(cases) < 20000:
        raise MachineryError('Gen produced %d cases' % len(cases))
    if not quick:
        chk.tlc('CatEval', 'MCT_CatEval.cfg', timeout=1800)
        res = chk.tlc('GenCatEval', 'GenT_CatEval.cfg', workers=1, coverage=False, count_states=False, timeout=1800)
        more = res.tagged.get('CASE', [])
        pick_t = random.Random(chk.seed * 7919 + 110)
        cases = [c for c in cases if pick_t.random() < 0.5] + [c for c in more if pick_t.random() < 1.0 / 6]
    chk.log('Gen: %d cases to drive' % len(cases))

    TESTS = [('n', ce.number_test, {'verbose': False}), ('s', ce.spatial_test, {'verbose': False}),
             ('pl', ce.pseudolikelihood_test, {'verbose': False}), ('m', ce.magnitude_test, {'verbose': False}),
             ('rm', ce.resampled_magnitude_test, {'seed': 5}), ('mll', ce.MLL_magnitude_test, {'seed': 5})]

    def to_cats(abstract, noise=False):
        u = 0
        out = []
        for ci_, cat in enumerate(abstract):
            c = []
            for (cell, k) in cat:
                u += 1
                c.append({'u': u, 'b': (cell - 1) * 2 + k, 'm': True, 's': True})
            if noise:
                # events the forecast's configured filters remove (below the magnitude threshold / outside the region)
                u += 2
                c.insert(ci_ % (len(c) + 1), {'u': u - 1, 'b': 1 + (ci_ % 6), 'm': False, 's': True})
                if ci_ % 2:
                    c.append({'u': u, 'b': 1 + ((ci_ + 3) % 6), 'm': True, 's': False})
            out.append(c)
        return out

    def conf_of(src, noise):
        return {'src': src, 'filt': noise, 'spat': noise}

    def obs_catalog(abstract, below=False):
        data = []
        for i, (cell, k) in enumerate(abstract):
            e = world.event_tuple({'u': 900 + i, 'b': (cell - 1) * 2 + k, 'm': True, 's': True}, 5000 + i)
            data.append(('o%d' % i,) + tuple(e[1:]))
        if below and abstract:
            # the observed catalog was not cut at the forecast's lowest magnitude: two more events below it, which the magnitude
            # histograms of the magnitude tests do not hold
            for j in (0, 1):
                e = world.event_tuple({'u': 950 + j, 'b': 1 + j, 'm': False, 's': True}, 5900 + j)
                data.insert(j * len(data), ('low%d' % j,) + tuple(e[1:]))
        return CSEPCatalog(data=data, region=world.make_region(), name='obs')

    def evaluate(cats_abs, obs_abs, src, noise=False, strict=False):
        """run the six tests; returns dict key -> result/Raised/None and the recorded resampled histograms.  noise: the
        forecast's source holds additional events that its configured filters remove - the evaluated forecast is the same"""
        out, hists = {}, {'rm': [], 'mll': []}
        for key, fn, kw in TESTS:
            fcst = build_forecast(world, conf_of(src, noise), to_cats(cats_abs, noise), path)
            obs = obs_catalog(obs_abs, below=(strict and key in ('m', 'rm', 'mll')))
            # (every third record: the embedding program runs with numpy's division-by-zero state set to 'raise'; the tests
            # handle their own logarithms of zero and do not depend on the caller's error state)
            with ChoiceCapture(numpy) as cap, contextlib.redirect_stdout(io.StringIO()), \
                    numpy.errstate(divide=('raise' if strict else 'warn')):
                r = guarded_timeout(30, fn, fcst, obs, **kw)
            chk.count()
            out[key] = r
            if key in hists:
                for d in cap.draws:
                    hists[key].append([int((d < 5.0).sum()), int((d >= 5.0).sum())])
        return out, hists

    def evaluate_shared(cats_abs, obs_abs, src, order, noise=False):
        """the same tests, one after another on ONE forecast object (the order rotates): evaluating must not change what a
        later evaluation sees"""
        fcst = build_forecast(world, conf_of(src, noise), to_cats(cats_abs, noise), path)
        out = {}
        for key, fn, kw in order:
            obs = obs_catalog(obs_abs)
            with contextlib.redirect_stdout(io.StringIO()):
                out[key] = guarded_timeout(30, fn, fcst, obs, **kw)
            chk.count()
        return out

    def same_result(a, b):
        if isinstance(a, Raised) or isinstance(b, Raised):
            return isinstance(a, Raised) and isinstance(b, Raised)
        if a is None or b is None:
            return a is None and b is None

        def norm(x):
            if x is None:
                return None
            if isinstance(x, (tuple, list, numpy.ndarray)):
                return [norm(y) for y in x]
            x = float(x)
            return 'nan' if x != x else x
        return (a.status == b.status and norm(a.observed_statistic) == norm(b.observed_statistic) and
                norm(a.test_distribution) == norm(b.test_distribution) and norm(a.quantile) == norm(b.quantile))

    def quantile_rule(dist, stat):
        n = len(dist)
        return (sum(1 for x in dist if x >= stat) / n, sum(1 for x in dist if x <= stat) / n)

    def compare(key, exp, got):
        """TLC expectation (dict) vs library result; returns reason or None"""
        if isinstance(got, Raised):
            return 'raised %s' % got.text.split(':')[0]
        if not exp['present']:
            return None if got is None else 'a result where none is defined'
        if got is None:
            return 'no result'
        if got.status != exp['status']:
            return 'status %s, expected %s' % (got.status, exp['status'])
        want = xr.evaluate(exp['stat'], {})
        st = got.observed_statistic
        if want is None:
            if st is not None:
                return 'observed statistic where none is defined'
        elif isinstance(want, float) and math.isnan(want):
            if st is None or not math.isnan(float(st)):
                return 'observed statistic should be undefined (nan)'
        elif st is None or not xr.close(st, want, rtol=1e-9, atol=1e-12):
            return 'observed statistic %r, expected %s' % (st, want)
        dist = [float(x) for x in got.test_distribution]
        if exp['status'] == 'not-valid':
            exp = dict(exp, dist=[])
            dist_check = []
        if exp['status'] != 'not-valid' and len(dist) != len(exp['dist']):
            return 'test distribution has %d entries, expected %d' % (len(dist), len(exp['dist']))
        for i, node in enumerate(exp['dist']):
            w = xr.evaluate(node, {})
            if not xr.close(dist[i], w, rtol=1e-9, atol=1e-12):
                return 'test distribution entry %d is %r, expected %s' % (i, dist[i], w)
        q = got.quantile
        if exp['status'] in ('normal', 'undersampled') and dist and st is not None and not (isinstance(st, float) and math.isnan(st)):
            wq = quantile_rule(dist, float(st))
            if tuple(float(x) for x in q) != wq:
                return 'quantile %r, expected %r' % (tuple(q), wq)
        elif exp['status'] == 'not-valid':
            if any(isinstance(x, (int, float)) and not isinstance(x, bool) and 0 <= x <= 1 for x in (q if isinstance(q, (tuple, list)) else [q]) if x is not None):
                return 'numeric quantile for a not-valid result'
        return None

    records, runs = [], []
    step = 12 if quick else 1
    pick = random.Random(chk.seed * 7919 + 10)      # (pseudo-random rather than a stride: TLC emits cases in a regular order)
    for ci, case in enumerate(cases):
        if quick and pick.random() >= 1.0 / step:
            continue
        cats_abs, obs_abs = case['cats'], case['obs']
        src = pick.choice(['list', 'nostore', 'store'])
        noise = pick.random() < 0.3
        strict = len(records) % 3 == 1
        got, hists = evaluate(cats_abs, obs_abs, src, noise, strict)
        records.append({'cats': cats_abs, 'obs': obs_abs, 'rm': hists['rm'], 'mll': hists['mll']})
        runs.append((got, src + ('+filtered' if noise else '') + ('+divide=raise' if strict else '')))
        if noise:
            chk.nontrivial('filtered|%s|%s|%s' % (cats_abs, obs_abs, src))
        if len(records) % 4 == 1:
            k = len(records) % len(TESTS)
            order = TESTS[k:] + TESTS[:k]
            got2 = evaluate_shared(cats_abs, obs_abs, src, order, noise)
            for pos, (key, _fn, _kw) in enumerate(order):
                if not same_result(got[key], got2[key]):
                    chk.violation('sequence:%s differs after %s on the same forecast object' % (key, '+'.join(o[0] for o in order[:pos]) or 'nothing'),
                                  {'cats': cats_abs, 'obs': obs_abs, 'src': src, 'order': [o[0] for o in order],
                                   'fresh': repr(getattr(got[key], 'observed_statistic', got[key])),
                                   'in_sequence': repr(getattr(got2[key], 'observed_statistic', got2[key]))})
                    break
            chk.nontrivial('seq|%s|%s|%d' % (cats_abs, obs_abs, k))
        tot_c = {c: sum(1 for cat in cats_abs for e in cat if e[0] == c) for c in (1, 2, 3)}
        if any(len(c) == 0 for c in cats_abs) or len(obs_abs) == 0 or any(tot_c[e[0]] == 0 for e in obs_abs) or \
                len(obs_abs) != len({tuple(e) for e in obs_abs}):
            chk.nontrivial('%s|%s' % (cats_abs, obs_abs))
    # the number test describes the synthetic catalogs as they are when it is called: evaluate, let the user filter the
    # in-memory catalogs in place (a re-evaluation at a higher magnitude threshold), evaluate again
    for ci in range(0, len(cases), 97 if quick else 23):
        cats_abs, obs_abs = cases[ci]['cats'], cases[ci]['obs']
        if not any(e[1] == 1 for c in cats_abs for e in c):
            continue
        fcst = build_forecast(world, {'src': 'list', 'filt': False, 'spat': False}, to_cats(cats_abs), path)
        obs = obs_catalog(obs_abs)
        with contextlib.redirect_stdout(io.StringIO()):
            first = guarded_timeout(30, ce.number_test, fcst, obs, verbose=False)
            for c in fcst.catalogs:
                c.filter('magnitude >= 5.0')
            second = guarded_timeout(30, ce.number_test, fcst, obs, verbose=False)
        chk.count(2)
        want1 = [len(c) for c in cats_abs]
        want2 = [sum(1 for e in c if e[1] == 2) for c in cats_abs]
        for tag, r_, want in (('first', first, want1), ('after in-place filtering', second, want2)):
            if isinstance(r_, Raised) or [int(x) for x in r_.test_distribution] != want:
                chk.violation('n:re-evaluation:%s' % tag, {'cats': cats_abs, 'expected_sizes': want,
                              'got': repr(r_) if isinstance(r_, Raised) else [int(x) for x in r_.test_distribution]})
                break
        chk.nontrivial('reeval|%s' % cats_abs)
    # statistics that are distinct but closer than 1e-9: a forecast whose cells hold 100 000, 99 999 and 100 001 synthetic events
    # (100000^2 and 99999 * 100001 differ by one part in 1e10), a synthetic catalog with two events in the first cell, one with an event
    # in each of the other two, and the observation like the former.  The reported quantiles must be the empirical probabilities of
    # the reported distribution at the reported statistic - counted exactly, a near tie is not a tie
    from csep.core.forecasts import CatalogForecast
    bulk = numpy.zeros(299995, dtype=CSEPCatalog.dtype)
    bulk['id'] = b'k'
    bulk['origin_time'] = 10 ** 12 + numpy.arange(len(bulk))
    bulk['latitude'], bulk['depth'], bulk['magnitude'] = 0.25, 10.0, 4.2
    bulk['longitude'] = numpy.repeat([0.25, 1.25, 2.25], [100000 - 3, 99999 - 1, 100001 - 1])
    def small(cells_):
        return CSEPCatalog(data=[('s%d' % i, 10 ** 12 + i, 0.25, 0.25 + c_, 10.0, 4.2) for i, c_ in enumerate(cells_)])
    for tname, fn in (('s', ce.spatial_test), ('pl', ce.pseudolikelihood_test)):
        fcst = CatalogForecast(catalogs=[CSEPCatalog(data=bulk.copy(), catalog_id=0), small([0, 0]), small([1, 2]), small([0])],
                               region=world.make_region(), name='near-tie', n_cat=4)
        obs = CSEPCatalog(data=[('o%d' % i, 10 ** 12 + 5 + i, 0.25, 0.25, 10.0, 4.3) for i in range(2)], region=world.make_region(), name='obs')
        with contextlib.redirect_stdout(io.StringIO()):
            r = guarded_timeout(120, fn, fcst, obs, verbose=False)
        chk.count()
        if isinstance(r, Raised) or r is None:
            chk.violation('%s:near-tie:raised' % tname, {'err': repr(r)})
            continue
        dist = [float(x) for x in r.test_distribution]
        stat = float(r.observed_statistic)
        want = (sum(1 for x in dist if x >= stat) / len(dist), sum(1 for x in dist if x <= stat) / len(dist))
        gaps = sorted(abs(x - stat) for x in dist if x != stat)
        if not gaps or gaps[0] > 1e-9:
            # (the statistics themselves are then not those of the definitions - which the records above report; this sub-check
            #  has nothing to say)
            chk.log('near-tie forecast: no statistic within 1e-9 of the observed one for %s (%r)' % (tname, gaps[:2]))
            chk.notes['near_tie_' + tname] = 'not formed'
            continue
        chk.notes['near_tie_' + tname] = 'gap %.3g' % gaps[0]
        got = tuple(float(x) for x in r.quantile)
        if got != want:
            chk.violation('%s:quantile differs from the empirical probabilities of the reported distribution:near-tie' % tname,
                          {'test': tname, 'observed_statistic': stat, 'distribution': dist, 'quantile': got, 'expected': want, 'smallest_gap': gaps[0]})
        chk.nontrivial('near-tie|%s' % tname)
    # the MLL test on its other route (full_calculation=True: magnitudes are resampled from the pooled synthetic magnitudes themselves,
    # not from the union histogram) with magnitudes far above the lower edge of the open-ended top bin: every resampled catalog is
    # binned like any catalog, so its statistic is the MLL score of the union histogram and the histogram of the values drawn
    from csep.utils import stats as _stats
    def mcat(pairs, cid=None):
        return CSEPCatalog(data=[('m%d' % i, 10 ** 12 + i, 0.25, 0.25 + c_, 10.0, m_) for i, (c_, m_) in enumerate(pairs)], catalog_id=cid)
    syn = [[(0, 4.3), (1, 6.4)], [(0, 5.2)], [(1, 7.1), (0, 4.6), (2, 4.9)], [(2, 9.0)]]
    fcst = CatalogForecast(catalogs=[mcat(c_, i) for i, c_ in enumerate(syn)], region=world.make_region(), name='far-top', n_cat=len(syn))
    obs = CSEPCatalog(data=[('o0', 10 ** 12, 0.25, 0.25, 10.0, 4.4), ('o1', 10 ** 12 + 1, 0.25, 1.25, 10.0, 6.8), ('o2', 10 ** 12 + 2, 0.25, 0.25, 10.0, 5.0)],
                      region=world.make_region(), name='obs')
    with ChoiceCapture(numpy) as cap, contextlib.redirect_stdout(io.StringIO()):
        r = guarded_timeout(60, ce.MLL_magnitude_test, fcst, obs, full_calculation=True, seed=5)
    chk.count()
    union_hist = numpy.array([float(sum(1 for c_ in syn for (_c, m_) in c_ if 4.0 <= m_ < 5.0)), float(sum(1 for c_ in syn for (_c, m_) in c_ if m_ >= 5.0))])
    if isinstance(r, Raised) or r is None or len(cap.draws) != len(r.test_distribution):
        chk.violation('mll:full calculation:raised or draws not observed', {'err': repr(r), 'draws': len(cap.draws)})
    else:
        want = [float(_stats.MLL_score(union_hist, numpy.array([float((d >= 4.0).sum() - (d >= 5.0).sum()), float((d >= 5.0).sum())]))) for d in cap.draws]
        got = [float(x) for x in r.test_distribution]
        if any(len(d) != 3 for d in cap.draws) or any(not (abs(a_ - b_) <= 1e-12 * max(1.0, abs(b_))) for a_, b_ in zip(got, want)):
            chk.violation('mll:full calculation:test distribution differs from the score of the drawn magnitudes (open-ended top bin)',
                          {'got': got, 'expected': want, 'draws': [[float(x) for x in d] for d in cap.draws]})
        chk.nontrivial('mll-full|%s' % sorted(float(x) for d in cap.draws for x in d)[-1])
    # random larger forecasts
    for t in range(6 if quick else 60):
        J = rng.choice([5, 30, 200])
        cats_abs = [[(rng.choice([1, 1, 2, 3]) if t % 3 == 0 else (rng.choice([1, 2]) if t % 3 == 1 else 1), rng.choice([1, 2])) for _ in range(rng.choice([0, 1, 2, 5]))] for _ in range(J)]
        if sum(map(len, cats_abs)) == 0:
            cats_abs[0] = [(1, 1)]
        cats_abs = [sorted(c) for c in cats_abs]
        obs_abs = sorted((rng.choice([1, 2, 3]), rng.choice([1, 2])) for _ in range(rng.choice([0, 1, 3, 8])))
        src = ['list', 'nostore', 'store'][t % 3]
        got, hists = evaluate(cats_abs, obs_abs, src, noise=(t % 2 == 1))
        records.append({'cats': [[list(e) for e in c] for c in cats_abs], 'obs': [list(e) for e in obs_abs], 'rm': hists['rm'], 'mll': hists['mll']})
        runs.append((got, src))
        chk.nontrivial('rand|%d|%d|%d' % (J, len(obs_abs), t))
    import json
    tpath = os.path.join(chk.tmp, 'ce.json')
    exps = {}
    chunk = 600
    for base in range(0, len(records), chunk):
        with open(tpath, 'w') as f:
            json.dump(records[base:base + chunk], f)
        r = chk.tlc('TraceCatEval', 'Trace_CatEval.cfg', workers=1, env={'TRACE_FILE': tpath}, coverage=False, timeout=2400)
        for e in r.tagged.get('EXPECT', []):
            exps[base + e['tid']] = e
    if len(exps) != len(records):
        raise MachineryError('TLC returned %d EXPECT lines for %d records' % (len(exps), len(records)))
    okc = 0
    ctl_done = False
    for i, rec in enumerate(records):
        e = exps[i + 1]
        got, src = runs[i]
        good = True
        for key, _, _ in TESTS:
            why = compare(key, e[key], got[key])
            if why:
                good = False
                cls = ('empty-observation' if not rec['obs'] else
                       ('unsampled-cell' if any(all(ev[0] != o[0] for c in rec['cats'] for ev in c) for o in rec['obs']) else 'sampled'))
                chk.violation('%s:%s:%s' % (key, why.split(' ')[0] + ' ' + ' '.join(why.split(' ')[1:3]), cls),
                              {'cats': rec['cats'][:6], 'obs': rec['obs'], 'source': src, 'test': key, 'why': why,
                               'expected_status': e[key]['status'], 'expected_present': e[key]['present']})
            elif not ctl_done and key == 'pl' and e[key]['present'] and e[key]['dist']:
                fake = type('R', (), {})()
                g0 = got[key]
                fake.status, fake.observed_statistic, fake.quantile = g0.status, float(g0.observed_statistic) + 1e-6, g0.quantile
                fake.test_distribution = list(g0.test_distribution)
                chk.control('perturbed observed statistic flagged', compare(key, e[key], fake) is not None)
                ctl_done = True
        okc += 1 if good else 0
    chk.traces += okc
    chk.sample({'record': records[7], 'tlc_expectation_S': {k: (v if k != 'dist' else v[:1]) for k, v in exps[8]['s'].items()}})
    chk.sample({'random_record_sizes': [len(c) for c in records[-1]['cats']][:20], 'obs': records[-1]['obs']})
    chk.exhaustive = True
    chk.notes['tolerance'] = 'rtol 1e-9, atol 1e-12 against 50-digit evaluation of exact-rational expressions'
    chk.assume('forecasts hold at least one synthetic event (expected rates of an all-empty forecast are identically zero)')
    chk.assume('the MLL statistic follows the API docstring and the repository tests (+2 ln ratio); theory.rst writes -2 (noted in DESIGN.md)')
