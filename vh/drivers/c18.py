"""C18 - evaluation results and regions survive serialization.

spec/ResultSerde.tla  TLC: EveryClassLoadable (the factory table holds every result class under its own name), LoadsAsSameClass,
        FieldsSurvive, EventuallyLoaded over the full matrix class x statistic class x quantile class x distribution class x
        names class (1 800 results); the table with the formerly mis-spelt key must be refuted.
gen -> code -> spec  every matrix entry is realised as a real result object, written with csep.write_json and read with
        csep.load_evaluation_result; every evaluation function of the four evaluation modules is run on inputs designed to
        produce each class (empty observation, zero-rate hit, single event, undersampled cell); projections of original and
        loaded object plus a value-equality flag are validated by TLC (TraceResultSerde).
regions: an unmasked Cartesian region rebuilt from its dictionary assigns every probe point (all position classes, C01) to the
        same cell; the lookups of the rebuilt region are validated against the C01 specification (TraceCartRegion).
"""
import math
import os
import random

from vh.core import MachineryError, guarded, guarded_timeout, Raised, other_surroundings


def cls_stat(x):
    if x is None:
        return 'none'
    try:
        x = float(x)
    except Exception:
        return 'other'
    if math.isnan(x):
        return 'nan'
    if x == math.inf:
        return 'posinf'
    if x == -math.inf:
        return 'neginf'
    return 'finite'


def cls_quant(q):
    if isinstance(q, (tuple, list)):
        if any(v is None for v in q):
            return 'pair_none'
        if all(isinstance(v, (int, float)) and v == -1 for v in q):
            return 'pair_invalid'
        return 'pair'
    return 'scalar'


def cls_dist(d):
    import numpy
    if isinstance(d, str):
        return 'word'
    if isinstance(d, numpy.ndarray):
        return 'empty' if d.size == 0 else 'array'
    if isinstance(d, (list, tuple)):
        if len(d) == 0:
            return 'empty'
        if any(isinstance(v, str) for v in d):
            return 'law'
        return 'list'
    return 'other'


def cls_names(n):
    if n is None:
        return 'none'
    if isinstance(n, (tuple, list)):
        return 'pair'
    return 'str'


def project(r):
    return {'cls': type(r).__name__, 'stat': cls_stat(r.observed_statistic), 'quant': cls_quant(r.quantile),
            'dist': cls_dist(r.test_distribution), 'names': cls_names(r.sim_name)}


def eqv(a, b):
    """value equality across a JSON round trip: tuples = lists, NaN = NaN, numpy scalars = python numbers"""
    import numpy
    if isinstance(a, numpy.ndarray):
        a = a.tolist()
    if isinstance(b, numpy.ndarray):
        b = b.tolist()
    if isinstance(a, (list, tuple)) and isinstance(b, (list, tuple)):
        return len(a) == len(b) and all(eqv(x, y) for x, y in zip(a, b))
    if a is None or b is None:
        return a is None and b is None
    if isinstance(a, str) or isinstance(b, str):
        return isinstance(a, str) and isinstance(b, str) and a == b
    if isinstance(a, (bool, numpy.bool_)) or isinstance(b, (bool, numpy.bool_)):
        return bool(a) == bool(b)
    try:
        fa, fb = float(a), float(b)
    except Exception:
        return a == b
    if isinstance(b, str):
        return False
    return (math.isnan(fa) and math.isnan(fb)) or fa == fb


def run(chk, replay=None):
    import numpy
    import csep
    from csep import models
    from csep.core import poisson_evaluations as pe, binomial_evaluations as be, brier_evaluations as br, catalog_evaluations as ce
    from csep.core.regions import CartesianGrid2D
    from vh.drivers.c05 import Builder
    from vh.drivers.c13 import World, build_forecast
    quick = chk.tier == 'quick'
    rng = random.Random(chk.seed + 1818)
    B = Builder()
    world = World()
    path = os.path.join(chk.tmp, 'res.json')
    chk.rule = ('results = the full class matrix (6 classes x 5 statistic x 4 quantile x 5 distribution x 3 names classes) realised as '
                'objects, plus the results of all 19 evaluation functions on inputs producing normal / empty-observation / zero-rate / '
                'undersampled outcomes; regions = abstract regions of C01 rebuilt from their dictionaries. non-trivial = distinct '
                'projections with a non-finite or None statistic, a non-scalar quantile, or a produced (not constructed) result')
    res = chk.tlc('ResultSerde', 'MC_ResultSerde.cfg', timeout=600)
    r = chk.tlc('ResultSerde', 'MCbug_ResultSerde.cfg', expect='any', coverage=False, count_states=False)
    chk.control('factory table with the mis-spelt key refuted', 'EveryClassLoadable' in r.raw_tail and not r.ok)
    res = chk.tlc('GenResultSerde', 'Gen_ResultSerde.cfg', workers=1, coverage=False, count_states=False, timeout=600)
    cases = res.tagged.get('CASE', [])
    if len(cases) != 1800:
        raise MachineryError('Gen produced %d results, expected 1800' % len(cases))

    def realise(c, k):
        # falsy-but-valid values (0, 0.0) are part of every numeric field class
        stat = {'finite': [-12.75, 3, numpy.float64(0.125), 0.0, 0][k % 5], 'posinf': math.inf, 'neginf': -numpy.inf, 'nan': float('nan'), 'none': None}[c['stat']]
        quant = {'scalar': [0.25, numpy.float64(0.5), 0.0][k % 3], 'pair': [(0.1, numpy.float64(0.95)), (0.0, 1.0)][k % 2], 'pair_none': (None, None), 'pair_invalid': (-1, -1)}[c['quant']]
        dist = {'list': [[1.5, numpy.float64(-2.25), -math.inf, 3], [0.0, 0, 1.0]][k % 2], 'array': numpy.array([0.5, 1.0, float('nan')]), 'empty': [] if k % 2 else numpy.array([]),
                'law': ('poisson', 12.5), 'word': 'normal'}[c['dist']]
        # names are text whatever they look like: a forecast called '2019', a catalog called '1992', 'nan', '1e5' ...
        numlike = ['2019', '7', 'nan', 'inf', '1e5', '007', '-3.5', 'forecast-a', ' padded name ', 'line-break\n', '\ttab', '']
        names = {'str': numlike[k % len(numlike)], 'pair': (numlike[k % len(numlike)], 'forecast-b'), 'none': None}[c['names']]
        cls = getattr(models, c['cls'])
        return cls(test_distribution=dist, name=('T-%d' % k if k % 7 else str(k)), observed_statistic=stat, quantile=quant, status=['normal', 'not-valid', 'undersampled'][k % 3],
                   sim_name=names, obs_name=['obs', '1992', 'None', 'true', ' obs ', 'obs\n'][k % 6], min_mw=[4.95, numpy.float64(5.95), None, 0.0, numpy.float64(0.0), -1][k % 6], obs_catalog_repr='repr')

    traces, metas = [], []

    def roundtrip(r_obj, origin):
        how = len(traces) % 5
        if how == 3:
            # written and read by a program that changed its process-wide settings and names the file relative to its working directory
            with other_surroundings(cwd=os.path.dirname(path)):
                w = guarded(csep.write_json, r_obj, os.path.basename(path))
                back = guarded(csep.load_evaluation_result, os.path.basename(path)) if not isinstance(w, Raised) else w
        elif how == 4:
            import pathlib
            w = guarded(csep.write_json, r_obj, pathlib.Path(path))
            back = guarded(csep.load_evaluation_result, pathlib.Path(path)) if not isinstance(w, Raised) else w
        else:
            w = guarded(csep.write_json, r_obj, path)
            back = guarded(csep.load_evaluation_result, path) if not isinstance(w, Raised) else w
        chk.count()
        p0 = project(r_obj)
        if isinstance(back, Raised):
            traces.append({'res': p0, 'loaded': dict(p0, cls='-'), 'equal': 0})
            metas.append({'origin': origin, 'projection': p0, 'err': back.text})
            return
        equal = 1
        why = []
        for fld in ('name', 'status', 'observed_statistic', 'quantile', 'sim_name', 'obs_name', 'min_mw'):
            if not eqv(getattr(r_obj, fld), getattr(back, fld)):
                equal = 0
                why.append(fld)
        if p0['dist'] in ('list', 'array', 'empty') and not eqv(r_obj.test_distribution, back.test_distribution):
            equal = 0
            why.append('test_distribution')
        traces.append({'res': p0, 'loaded': project(back), 'equal': equal})
        metas.append({'origin': origin, 'projection': p0, 'loaded': project(back), 'differs': why})
        if p0['stat'] != 'finite' or p0['quant'] != 'scalar' or not origin.startswith('matrix'):
            chk.nontrivial('%s|%s' % (origin.split('#')[0], sorted(p0.items())))

    for k, c in enumerate(cases):
        roundtrip(realise(c['res'], k), 'matrix#%d' % k)

    # ---------------------------------------------------------------- results produced by the evaluation functions
    data = numpy.array([[0.2, 0.0, 1.5], [0.7, 0.01, 0.0], [0.0, 0.3, 0.9]])
    data2 = numpy.array([[0.3, 0.1, 1.0], [0.5, 0.02, 0.1], [0.2, 0.2, 1.2]])
    fc, fc2 = B.forecast(data, name='A'), B.forecast(data2, name='B')
    fpos = B.forecast(data + 0.05, name='Apos')
    import datetime
    for f in (fc, fc2, fpos):
        f.start_time, f.end_time = datetime.datetime(2010, 1, 1), datetime.datetime(2011, 1, 1)
    obs_cases = {'normal': [[1, 0, 2], [0, 1, 0], [0, 0, 1]], 'empty': [[0, 0, 0]] * 3, 'zero-rate-hit': [[0, 1, 0], [0, 0, 1], [0, 0, 0]],
                 'single': [[0, 0, 0], [1, 0, 0], [0, 0, 0]]}
    gridded = [('poisson.number_test', lambda c: pe.number_test(fc, c)),
               ('poisson.likelihood_test', lambda c: pe.likelihood_test(fc, c, num_simulations=5, seed=1)),
               ('poisson.conditional_likelihood_test', lambda c: pe.conditional_likelihood_test(fc, c, num_simulations=5, seed=1)),
               ('poisson.spatial_test', lambda c: pe.spatial_test(fc, c, num_simulations=5, seed=1)),
               ('poisson.magnitude_test', lambda c: pe.magnitude_test(fc, c, num_simulations=5, seed=1)),
               ('poisson.paired_t_test', lambda c: pe.paired_t_test(fpos, fc2, c)),
               ('poisson.w_test', lambda c: pe.w_test(fpos, fc2, c)),
               ('binomial.negative_binomial_number_test', lambda c: be.negative_binomial_number_test(fc, c, 40.0)),
               ('binomial.binary_spatial_test', lambda c: be.binary_spatial_test(fpos, c, num_simulations=5, seed=1)),
               ('binomial.binary_conditional_likelihood_test', lambda c: be.binary_conditional_likelihood_test(fpos, c, num_simulations=5, seed=1)),
               ('binomial.binary_paired_t_test', lambda c: be.binary_paired_t_test(fpos, fc2, c)),
               ('brier.brier_score_test', lambda c: br.brier_score_test(fpos, c, num_simulations=5, seed=1))]
    produced = {}
    # names are text: blanks and line breaks around them, or digits only, are part of the name
    fc.name, fpos.name, fc2.name = ' padded forecast ', 'positive\n', '2019'
    for oi, (oname, w) in enumerate(obs_cases.items()):
        for fname, fn in gridded:
            cat = B.catalog(w, 3, 3)
            cat.name = [' observed ', 'obs', '1992\n', '\tcat'][oi % 4]
            r_ = guarded_timeout(20, fn, cat)
            chk.count()
            if isinstance(r_, Raised) or r_ is None:
                produced.setdefault(fname, []).append('%s: no result (%s)' % (oname, getattr(r_, 'text', None)))
                continue
            produced.setdefault(fname, []).append(oname)
            roundtrip(r_, '%s/%s' % (fname, oname))
    # catalog-based tests
    cats = [[{'u': 1, 'b': 1, 'm': True, 's': True}, {'u': 2, 'b': 2, 'm': True, 's': True}], [{'u': 3, 'b': 1, 'm': True, 's': True}], [],
            [{'u': 4, 'b': 2, 'm': True, 's': True}, {'u': 5, 'b': 1, 'm': True, 's': True}]]
    from csep.core.catalogs import CSEPCatalog
    obs_sets = {'normal': [('o1', 10 ** 12, 0.5, 0.5, 5.0, 4.5), ('o2', 10 ** 12 + 5, 0.5, 0.5, 5.0, 5.5)], 'empty': [],
                'undersampled': [('o1', 10 ** 12, 0.5, 0.5, 5.0, 4.5), ('o3', 10 ** 12 + 9, 0.5, 1.5, 5.0, 5.5)]}
    cat_tests = [('catalog.number_test', lambda f, o: ce.number_test(f, o, verbose=False)),
                 ('catalog.spatial_test', lambda f, o: ce.spatial_test(f, o, verbose=False)),
                 ('catalog.magnitude_test', lambda f, o: ce.magnitude_test(f, o, verbose=False)),
                 ('catalog.pseudolikelihood_test', lambda f, o: ce.pseudolikelihood_test(f, o, verbose=False)),
                 ('catalog.resampled_magnitude_test', lambda f, o: ce.resampled_magnitude_test(f, o, seed=3)),
                 ('catalog.MLL_magnitude_test', lambda f, o: ce.MLL_magnitude_test(f, o, seed=3))]
    import io
    import contextlib
    cal_inputs = []
    for oname, rows in obs_sets.items():
        for fname, fn in cat_tests:
            f = build_forecast(world, {'src': 'list', 'filt': False, 'spat': False}, cats, os.path.join(chk.tmp, 'f.csv'))
            obs = CSEPCatalog(data=list(rows), region=world.make_region(), name='obs')
            with contextlib.redirect_stdout(io.StringIO()):
                r_ = guarded_timeout(20, fn, f, obs)
            chk.count()
            if isinstance(r_, Raised) or r_ is None:
                produced.setdefault(fname, []).append('%s: no result (%s)' % (oname, getattr(r_, 'text', None)))
                continue
            produced.setdefault(fname, []).append(oname)
            roundtrip(r_, '%s/%s' % (fname, oname))
            if fname == 'catalog.number_test':
                cal_inputs.append(r_)
    if cal_inputs:
        with contextlib.redirect_stdout(io.StringIO()):
            r_ = guarded(ce.calibration_test, cal_inputs)
        if not isinstance(r_, Raised):
            roundtrip(r_, 'catalog.calibration_test/normal')
            produced.setdefault('catalog.calibration_test', []).append('normal')
    chk.notes['produced_by'] = produced

    # ---------------------------------------------------------------- TLC validation of the records
    import copy
    bad = copy.deepcopy(traces[0])
    bad['loaded']['cls'] = 'CalibrationTestResult' if bad['res']['cls'] != 'CalibrationTestResult' else 'EvaluationResult'
    acc, rej = chk.validate_traces('TraceResultSerde', 'Trace_ResultSerde.cfg', traces + [bad], chunk=1000)
    chk.traces -= len([i for i in acc if i >= len(traces)])
    chk.control('trace: result loaded as another class rejected', len(traces) in {i for i, _ in rej})
    for i, _ in rej:
        if i >= len(traces):
            continue
        m = metas[i]
        p0 = m['projection']
        if 'err' in m:
            why = 'load raised %s' % m['err'].split(':')[0]
        elif m['loaded']['cls'] != p0['cls']:
            why = 'class changed'
        else:
            why = 'fields differ: ' + ','.join(m['differs']) if m['differs'] else 'field classes differ'
        chk.violation('%s:%s:%s' % (p0['cls'], why, 'constructed' if m['origin'].startswith('matrix') else m['origin'].split('/')[0]),
                      m)
    chk.sample({'record': traces[7], 'origin': metas[7]['origin']})
    chk.sample({'record': traces[-1], 'origin': metas[-1]['origin']})

    # ---------------------------------------------------------------- the same round trip in a process with another locale
    # names outside ASCII (model and catalog names in their own language) written and read back by an interpreter whose
    # locale encoding is not UTF-8 (LC_ALL=C, UTF-8 mode off) - the encoding of a process the library does not choose
    import json
    import subprocess
    import sys
    child = r'''
import json, os, sys
import csep
from csep.models import EvaluationResult, CatalogNumberTestResult
names = [("ETAS M\u00e9xico", "cat\u00e1logo SSN"), ("\u30e2\u30c7\u30eb", "\u89b3\u6e2c"), ("plain", "ascii"), ("Gr\u00f6\u00dfe \u2264 5", "\u00b5")]
out = []
d = sys.argv[1]
for i, (sim, obs) in enumerate(names):
    for cls in (EvaluationResult, CatalogNumberTestResult):
        r = cls(test_distribution=[1.0, 2.5], name="N-test " + sim, observed_statistic=2.0, quantile=(0.25, 0.75), status="normal",
                sim_name=sim, obs_name=obs, min_mw=4.95)
        path = os.path.join(d, "loc%d_%s.json" % (i, cls.__name__))
        try:
            csep.write_json(r, path)
            b = csep.load_evaluation_result(path)
            if (type(b).__name__, b.sim_name, b.obs_name, b.name) != (cls.__name__, sim, obs, "N-test " + sim):
                out.append([cls.__name__, ascii(sim), "names differ: " + ascii((b.sim_name, b.obs_name, b.name))])
        except Exception as e:
            out.append([cls.__name__, ascii(sim), "raised " + type(e).__name__])
import locale
print("RESULT " + json.dumps({"encoding": locale.getpreferredencoding(False), "bad": out}))
'''
    env = dict(os.environ, LC_ALL='C', LANG='C', PYTHONUTF8='0', PYTHONCOERCECLOCALE='0', PYTHONIOENCODING='ascii:backslashreplace')
    pr = subprocess.run([sys.executable, '-B', '-X', 'utf8=0', '-c', child, chk.tmp], env=env, capture_output=True, text=True, timeout=300)
    line = next((ln for ln in pr.stdout.splitlines() if ln.startswith('RESULT ')), None)
    if line is None:
        raise MachineryError('locale child gave no result: %s' % (pr.stderr[-600:],))
    rep = json.loads(line[7:])
    chk.count(8)
    chk.notes['locale_child_encoding'] = rep['encoding']
    if rep['encoding'].lower().replace('-', '') in ('utf8',):
        chk.log('locale child still runs in UTF-8 (%s): the locale round trip says nothing' % rep['encoding'])
    for cname, sim, why in rep['bad']:
        chk.violation('%s:%s:another locale' % (cname, why.split(':')[0].split(' ')[0] + ' ' + why.split(' ')[1].rstrip(':') if ' ' in why else why),
                      {'class': cname, 'sim_name': sim, 'what': why, 'locale_encoding': rep['encoding']})
    if not rep['bad']:
        chk.nontrivial('locale|%s' % rep['encoding'])

    # ---------------------------------------------------------------- regions: dictionary round trip
    from vh.drivers import c01
    res = chk.tlc('GenCartRegion', 'Genq_CartRegion.cfg', workers=1, coverage=False, count_states=False, timeout=1500)
    rcases = [c for c in res.tagged.get('CASE', []) if not c['flags']]
    rtraces, rmeta = [], []
    vary18 = random.Random(chk.seed * 7919 + 18)
    for ci, case in enumerate(rcases):
        if quick and vary18.random() >= 1.0 / 3:
            continue
        x0, y0, dh = c01.TABLE[(ci * 5) % len(c01.TABLE)]
        nx, ny = case['nx'], case['ny']
        from fractions import Fraction
        xe, ye = c01.lattice_edges(x0, dh, nx), c01.lattice_edges(y0, dh, ny)
        dhf = float(Fraction(dh))
        region = guarded(c01.build_region, case, xe, ye, dhf, 'from_origins')
        if isinstance(region, Raised):
            continue
        rebuilt = guarded(lambda: CartesianGrid2D.from_dict(region.to_dict()))
        chk.count()
        if isinstance(rebuilt, Raised):
            chk.violation('region:from_dict raised', {'case': case, 'err': repr(rebuilt)})
            continue
        tr, pts = c01.region_trace(chk, 'rt%d' % ci, rebuilt, case['cmap'], nx, ny, xe, ye, dhf, numpy, full=False, rng=rng)
        if tr is None:
            chk.violation('region:rebuilt region operation raised', {'case': case, 'err': pts})
            continue
        # same cell index as the original for every probe point
        lons = [p[0] for p in pts]
        lats = [p[1] for p in pts]
        o1 = c01.observe(region, lons, lats, numpy)
        o2 = c01.observe(rebuilt, lons, lats, numpy)
        if isinstance(o1, Raised) or isinstance(o2, Raised) or not numpy.array_equal(o1[0], o2[0]):
            chk.violation('region:rebuilt region assigns a point to another cell', {'case': case})
        rtraces.append(tr)
        rmeta.append(case)
        chk.nontrivial('region|%d' % ci)
    acc, rej = chk.validate_traces('TraceCartRegion', 'Trace_CartRegion.cfg', rtraces, chunk=150, timeout=1500)
    for i, diag in rej:
        chk.violation('region:rebuilt region lookup not the containing cell', {'case': rmeta[i]})
    # larger lattices with spacings that need more than five decimals (1/64, 1/128, 0.000125): the spacing itself must
    # survive, or the rebuilt cell edges drift with the column / row index
    for x0, y0, dh, nx, ny in (('-3', '40', '0.015625', 64, 48), ('10.5', '-2', '0.0078125', 40, 40), ('0', '0', '0.000125', 30, 20)):
        xe, ye = c01.lattice_edges(x0, dh, nx), c01.lattice_edges(y0, dh, ny)
        dhf = float(Fraction(dh))
        cells = [[i, j] for j in range(ny) for i in range(nx) if (i * 7 + j * 3) % 11 != 0 or i in (0, nx - 1) or j in (0, ny - 1)]
        case = {'nx': nx, 'ny': ny, 'polys': cells, 'flags': []}
        region = guarded(c01.build_region, case, xe, ye, dhf, 'from_origins')
        rebuilt = region if isinstance(region, Raised) else guarded(lambda: CartesianGrid2D.from_dict(region.to_dict()))
        chk.count()
        if isinstance(rebuilt, Raised):
            chk.violation('region:from_dict raised', {'dh': dh, 'err': repr(rebuilt)})
            continue
        lons, lats = [], []
        for i in range(0, nx, 3):
            for j in range(0, ny, 3):
                for fx, fy in ((0.0, 0.0), (0.5, 0.5), (0.999, 0.001), (1e-4, 0.9999)):
                    lons.append(xe[i] + fx * dhf)
                    lats.append(ye[j] + fy * dhf)
        o1 = c01.observe(region, lons, lats, numpy)
        o2 = c01.observe(rebuilt, lons, lats, numpy)
        if isinstance(o1, Raised) or isinstance(o2, Raised) or not numpy.array_equal(o1[0], o2[0]) or not numpy.array_equal(o1[1], o2[1]):
            nd = -1 if isinstance(o1, Raised) or isinstance(o2, Raised) else int((o1[0] != o2[0]).sum())
            chk.violation('region:rebuilt region assigns a point to another cell', {'dh': dh, 'nx': nx, 'ny': ny, 'points_differing': nd})
        chk.nontrivial('region-fine|%s' % dh)
    chk.notes['regions_round_tripped'] = len(rtraces)
    chk.exhaustive = True
    chk.assume('non-numeric test distributions (the word "normal", ("poisson", mean)) are only required to load, not to compare equal')
    chk.assume('tuples come back as lists and numpy scalars as python numbers; NaN compares equal to NaN')
