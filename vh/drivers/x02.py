"""X02 (extension, not a listed property) - framing of merged UCERF3-ETAS binary event sets (UCERF3Catalog.load_catalogs).

spec/U3Decoder.tla   TLC: RoundTrip, ConsumesAll, NeverPastEnd, IdsAreOrdinal for every file of <= 3 catalogs x versions 1..3
        x 0..2 events; MCbug_U3Decoder.cfg (a 12-field version-3 header) must be refuted.
spec -> code   every such file is written in the real binary layout (big-endian fields, version-dependent header and event
        records, plain and gzip) and loaded with the library.
code -> spec   what the loader returned (per catalog, per event, per field - mapped back to the abstract tokens) is validated
        by TLC: the specification's decoder run over the same stream must end with exactly that (TraceU3Decoder); catalog ids
        must be ordinal; get_csep_format must carry time, location, depth and magnitude over unchanged.
"""
import gzip
import os
import random
import struct

from vh.core import MachineryError, guarded, Raised

# field layout: (name, struct code) in file order
EV_V1 = [('rupture_id', 'i'), ('parent_id', 'i'), ('generation', 'h'), ('origin_time', 'q'), ('latitude', 'd'), ('longitude', 'd'),
         ('depth', 'd'), ('magnitude', 'd'), ('dist_to_parent', 'd'), ('erf_index', 'i'), ('fss_index', 'i'), ('grid_node_index', 'i')]
EV_V2 = EV_V1 + [('etas_k', 'd')]
HDR_V3 = 'iqiiiiiqqiidd'      # 13 fields before catalog_size


def value(i, code, tok):
    """concrete value of field i (1-based) carrying token tok"""
    if code in 'ihq':
        return 100 * i + tok if code != 'q' else 1_000_000_000_000 + 1000 * i + tok
    return float(i) + 0.5 * tok


def run(chk, replay=None):
    import numpy
    from csep.core.catalogs import UCERF3Catalog
    quick = chk.tier == 'quick'
    rng = random.Random(chk.seed + 202)
    chk.rule = ('files = every sequence of <= 3 catalogs over versions {1, 2, 3} x {0, 1, 2} events x 4 event patterns from TLC '
                '(quick: every 7th), each written as .bin and .gz; plus random files of up to 30 catalogs x 200 events. '
                'non-trivial = distinct files mixing versions or holding an empty catalog')
    res = chk.tlc('U3Decoder', 'MC_U3Decoder.cfg', timeout=1800)
    chk.require_coverage(res, ['AddCat', 'ReadCount', 'ReadHeader', 'ReadEvents'])
    r = chk.tlc('U3Decoder', 'MCbug_U3Decoder.cfg', expect='any', coverage=False, count_states=False)
    chk.control('model MCbug_U3Decoder.cfg refuted', r.violated in ('ConsumesAll', 'RoundTrip', 'NeverPastEnd'))
    res = chk.tlc('GenU3Decoder', 'Gen_U3Decoder.cfg', workers=1, coverage=False, count_states=False, timeout=1800)
    cases = res.tagged.get('CASE', [])
    if len(cases) < 20000:
        raise MachineryError('Gen produced %d files' % len(cases))
    if quick:
        pick = random.Random(chk.seed * 7919 + 2)
        cases = [c for c in cases if pick.random() < 1.0 / 7]

    def layout(ver):
        return EV_V1 if ver == 1 else EV_V2

    def encode(cats):
        b = struct.pack('>i', len(cats))
        for c in cats:
            ver = c['ver']
            b += struct.pack('>h', ver)
            if ver >= 3:
                b += struct.pack('>' + HDR_V3, *[7 if ch in 'iq' else 7.5 for ch in HDR_V3])
            b += struct.pack('>i', len(c['evs']))
            lay = layout(ver)
            for ev in c['evs']:
                for i, ((name, code), tok) in enumerate(zip(lay, ev), 1):
                    b += struct.pack('>' + code, value(i, code, tok))
        return b

    def project(cat, ver_hint):
        """decoded catalog -> list of events (token lists); field order = dtype order of the decoded array"""
        names = cat.catalog.dtype.names
        evs = []
        for row in cat.catalog:
            toks = []
            for i, name in enumerate(names, 1):
                lay = EV_V2
                code = lay[i - 1][1] if i <= len(lay) and lay[i - 1][0] == name else None
                if code is None:
                    toks.append(-9)
                    continue
                v = row[name]
                tk = next((t for t in (0, 1) if value(i, code, t) == (int(v) if code in 'ihq' else float(v))), -9)
                toks.append(tk)
            evs.append(toks)
        return evs

    def load(path):
        got = guarded(lambda: list(UCERF3Catalog.load_catalogs(path)))
        chk.count()
        return got

    def run_file(cats, ext):
        path = os.path.join(chk.tmp, 'u3.' + ext)
        raw = encode(cats)
        if ext == 'gz':
            with gzip.open(path, 'wb') as f:
                f.write(raw)
        else:
            with open(path, 'wb') as f:
                f.write(raw)
        got = load(path)
        os.remove(path)
        if isinstance(got, Raised):
            return {'decoded': [[[-8]]], 'err': repr(got)}, None
        dec = [project(c, None) for c in got]
        extra = None
        for i, c in enumerate(got):
            if c.catalog_id != i:
                extra = 'catalog %d has id %r' % (i, c.catalog_id)
            if c.event_count != len(dec[i]):
                extra = 'catalog %d reports %d events' % (i, c.event_count)
        # conversion to the CSEP layout keeps the physical fields
        for i, c in enumerate(got[:2]):
            cs = guarded(c.get_csep_format)
            if isinstance(cs, Raised):
                extra = 'get_csep_format raised %s' % cs.text
                break
            for j in range(c.event_count):
                a, b_ = c.catalog[j], cs.catalog[j]
                if (int(a['origin_time']), float(a['latitude']), float(a['longitude']), float(a['depth']), float(a['magnitude'])) != \
                        (int(b_['origin_time']), float(b_['latitude']), float(b_['longitude']), float(b_['depth']), float(b_['magnitude'])):
                    extra = 'get_csep_format changed event %d of catalog %d' % (j, i)
        return {'decoded': dec}, extra

    if replay:
        d = replay['detail']
        t, extra = run_file(d['cats'], d['ext'])
        acc, rej = chk.validate_traces('TraceU3Decoder', 'Trace_U3Decoder.cfg', [{'cats': d['cats'], 'decoded': t['decoded']}], chunk=10)
        if rej or extra:
            chk.violation(replay['signature'], dict(d, decoded=t['decoded'][:3], extra=extra))
        chk.sample({'replayed': d['cats']})
        return

    traces, metas = [], []
    for ci, case in enumerate(cases):
        cats = case['cats']
        for ext in (('bin', 'gz') if ci % 5 == 0 else (('bin',) if ci % 2 else ('gz',))):
            t, extra = run_file(cats, ext)
            traces.append({'cats': cats, 'decoded': t['decoded']})
            metas.append({'cats': cats, 'ext': ext, 'err': t.get('err')})
            if extra:
                chk.violation('file:%s:%s' % (ext, extra.split(' ')[0]), {'cats': cats, 'ext': ext, 'extra': extra})
        if len({c['ver'] for c in cats}) > 1 or any(len(c['evs']) == 0 for c in cats):
            chk.nontrivial('%s' % [(c['ver'], len(c['evs'])) for c in cats] + str(ci % 4))
    # random larger files
    for t_ in range(6 if quick else 60):
        cats = []
        for _ in range(rng.choice([1, 2, 10, 30])):
            ver = rng.choice([1, 2, 3])
            n = rng.choice([0, 0, 1, 3, 50, 200])
            L = 12 if ver == 1 else 13
            cats.append({'ver': ver, 'evs': [[rng.choice([0, 1]) for _ in range(L)] for _ in range(n)]})
        ext = rng.choice(['bin', 'gz'])
        t, extra = run_file(cats, ext)
        traces.append({'cats': cats, 'decoded': t['decoded']})
        metas.append({'cats': [(c['ver'], len(c['evs'])) for c in cats], 'ext': ext, 'err': t.get('err')})
        if extra:
            chk.violation('file:%s:%s' % (ext, extra.split(' ')[0]), {'shape': metas[-1]['cats'], 'ext': ext, 'extra': extra})
        chk.nontrivial('rand|%d' % t_)
    import copy
    src = next(i for i, t in enumerate(traces) if t['decoded'] and t['decoded'][-1] and 'err' not in t)
    bad = copy.deepcopy(traces[src])
    bad['decoded'][-1][-1][0] = 1 - bad['decoded'][-1][-1][0] if bad['decoded'][-1][-1][0] in (0, 1) else 0
    acc, rej = chk.validate_traces('TraceU3Decoder', 'Trace_U3Decoder.cfg', traces + [bad], chunk=600, parallel=14, timeout=1800)
    chk.traces -= len([i for i in acc if i >= len(traces)])
    chk.control('trace: decoded event with one field token flipped rejected', len(traces) in {i for i, _ in rej})
    for i, diag in rej:
        if i >= len(traces):
            continue
        m = metas[i]
        k = diag[-1]['explained_events'] if diag else 0
        vers = '+'.join(str(v) for v in sorted({(c['ver'] if isinstance(c, dict) else c[0]) for c in m['cats']}))
        chk.violation('decode:%s:versions %s%s' % (m['ext'], vers, ':raised' if m['err'] else ''),
                      {'cats': m['cats'] if len(str(m['cats'])) < 800 else str(m['cats'])[:800], 'ext': m['ext'], 'err': m['err'],
                       'first_wrong_catalog': k, 'decoded_head': traces[i]['decoded'][:2]})
    chk.sample({'file': traces[5]['cats'], 'decoded': traces[5]['decoded']})
    chk.exhaustive = True
    chk.assume('field values are recognisable per field (100*i + token, i + token/2, ...); a value that is none of them is projected to -9')
