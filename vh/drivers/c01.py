"""C01 - Cartesian regions assign each point to the one half-open cell containing it.

spec/Grid2D.tla, spec/CartRegion.tla   TLC: Partition, LookupIsContainment, BoundaryOpens, MapIsBijective for every
        bounding-box-tight cell subset of every lattice up to NX x NY, flags, cell orders; Build mirrors
        _build_bitmask_vec; CloseSingle=FALSE re-creates the one-row/one-column defect and must be found.
gen -> code   every abstract region concretised (anchor / spacing table; from_origins and polygon+mask constructors),
        every lattice position class probed on both axes
code -> spec  observations (index lookup / masked / spatial filter / per-cell count) recorded per point with exact
        classes and validated by TLC (TraceCartRegion); also on random lattices up to 40x40 with holes and the
        shipped NZ / global regions
"""
import random
from fractions import Fraction

from vh.core import MachineryError, guarded, Raised, other_surroundings
from vh import alpha

S = alpha.S

# (lon0, lat0, dh) as decimal strings
TABLE = [('0', '0', '0.1'), ('-0.35', '5.95', '0.1'), ('100.05', '-47.95', '0.05'), ('-125.4', '31.5', '0.1'),
         ('164.5', '-47.95', '0.1'), ('-180', '-90', '2'), ('179', '89', '0.5'), ('0.001', '0.002', '0.001'),
         ('5.95', '-0.35', '0.2'), ('-47.95', '100.05', '0.25'), ('12', '41', '1'), ('-0.3', '0.3', '0.3'),
         # anchors whose float sum with the spacing rounds one ulp above the decimal lattice (0.2 + 0.1, 36.2 + 0.1 ...)
         ('0.2', '36.2', '0.1'), ('-63.8', '0.2', '0.1'),
         # anchors that are small compared with the spacing (the rounding of the spacing is then not covered by any anchor-sized
         # allowance; the quotient (p - a0) / h of a boundary point may sit a fraction of an ulp below a whole number)
         ('0.05', '-0.05', '0.2'), ('-0.1', '0.1', '0.4'), ('0.025', '0.01', '0.1'), ('0', '0', '0.07'), ('0.015', '-0.025', '0.1')]


def lattice_edges(x0, dh, n):
    x0, dh = Fraction(x0), Fraction(dh)
    return [float(x0 + k * dh) for k in range(n)]


def build_region(case, xe, ye, dh, how):
    import numpy
    from csep.core.regions import CartesianGrid2D, compute_vertices
    from csep.models import Polygon
    origins = numpy.array([[xe[i], ye[j]] for (i, j) in case['polys']])
    flags = case['flags']
    if how == 'from_origins' and not flags:
        return CartesianGrid2D.from_origins(origins, dh=dh)
    polys = [Polygon(b) for b in compute_vertices(origins, dh)]
    if flags:
        return CartesianGrid2D(polys, dh, mask=numpy.array(flags, dtype=float))
    return CartesianGrid2D(polys, dh)


def axis_probes(edges, n, dh_float, full, closing=None):
    """All (value, pos) probes of one axis: every class of every bin incl. below-first and beyond-last."""
    out = []
    seen = set()
    for pos in range(-S, (n + 1) * S):
        vals = alpha.probes_for(edges, pos, spacing=dh_float)
        if not full:
            vals = vals[:1]
        for v in vals:
            if v not in seen:
                seen.add(v)
                out.append((v, pos))
    # the closing boundary of the last cell on the decimal lattice (anchor + n*dh as a decimal; the float sum of the last
    # edge and dh may round one ulp away from it): it belongs to no cell
    if closing is not None and closing not in seen:
        seen.add(closing)
        out.append((closing, n * S))
    # far outside on both sides
    for v in (edges[0] - 7.3 * dh_float, edges[-1] + 9.1 * dh_float, edges[-1] + 1000.0):
        out.append((v, alpha.classify(v, edges, h=dh_float)))
    return out


def observe(region, lons, lats, numpy):
    """The four observations for every point: idx (-1 = ValueError), masked, kept, cnt."""
    from csep.core.catalogs import CSEPCatalog
    n = len(lons)
    lons = numpy.asarray(lons, dtype=float)
    lats = numpy.asarray(lats, dtype=float)
    # (plain python lists every other time: the queries accept any array-like)
    # (... tuples every fourth time)
    masked = guarded(region.get_masked, lons, lats) if n % 2 else (
        guarded(region.get_masked, lons.tolist(), lats.tolist()) if n % 4 else guarded(region.get_masked, tuple(lons.tolist()), tuple(lats.tolist())))
    if isinstance(masked, Raised):
        return masked
    masked = numpy.asarray(masked, dtype=bool)
    idx = numpy.full(n, -1, dtype=numpy.int64)
    inside = numpy.where(~masked)[0]
    r = (guarded(region.get_index_of, lons[inside], lats[inside]) if n % 3 else (
         guarded(region.get_index_of, lons[inside].tolist(), lats[inside].tolist()) if n % 2 else
         guarded(region.get_index_of, tuple(lons[inside].tolist()), tuple(lats[inside].tolist())))) if inside.size else numpy.array([], dtype=int)
    if isinstance(r, Raised):
        # some point the mask calls inside is rejected by the index lookup: fall back to per-point calls
        for i in inside:
            ri = guarded(region.get_index_of, lons[i:i + 1], lats[i:i + 1])
            idx[i] = -1 if isinstance(ri, Raised) else int(ri[0])
    else:
        idx[inside] = numpy.asarray(r, dtype=numpy.int64)
    # the same coordinates held in the other byte order (the field type of binary catalog formats): same values, so the
    # same answers; a point answered differently is reported as index -3, which no specification state explains
    blons, blats = lons.astype(lons.dtype.newbyteorder()), lats.astype(lats.dtype.newbyteorder())
    m2 = guarded(region.get_masked, blons, blats)
    if isinstance(m2, Raised):
        return m2
    differs = numpy.asarray(m2, dtype=bool) != masked
    if inside.size and not isinstance(r, Raised):
        r2 = guarded(region.get_index_of, blons[inside], blats[inside])
        if isinstance(r2, Raised):
            for i in inside:
                ri = guarded(region.get_index_of, blons[i:i + 1], blats[i:i + 1])
                differs[i] |= isinstance(ri, Raised) or int(ri[0]) != idx[i]
        else:
            differs[inside] |= numpy.asarray(r2, dtype=numpy.int64) != idx[inside]
    idx[differs] = -3
    # the answer for a point does not depend on which other points are asked about in the same call: a sample of the points
    # (all of them for small batches) is asked about one at a time and, for a few, as a catalog holding that single event
    step_ = max(1, n // 150)
    for i in range(0, n, step_):
        m1 = guarded(region.get_masked, lons[i:i + 1], lats[i:i + 1])
        if isinstance(m1, Raised) or bool(numpy.asarray(m1).reshape(-1)[0]) != bool(masked[i]):
            differs[i] = True
        elif i % (7 * step_) == 0:
            one = guarded(lambda: CSEPCatalog(data=[('s', 0, float(lats[i]), float(lons[i]), 1.0, 5.0)]).filter_spatial(region, in_place=False).event_count)
            if isinstance(one, Raised) or int(one) != (0 if masked[i] else 1):
                differs[i] = True
    idx[differs] = -3
    # points the mask calls outside: the index lookup must raise ValueError for each (sampled individually)
    outside = numpy.where(masked)[0]
    for i in outside[:: max(1, outside.size // 40)]:
        ri = guarded(region.get_index_of, lons[i:i + 1], lats[i:i + 1])
        if not isinstance(ri, Raised):
            idx[i] = int(numpy.asarray(ri).reshape(-1)[0])
    # spatial filter of a catalog holding every point
    data = [('p%d' % i, i, float(lats[i]), float(lons[i]), 1.0, 5.0) for i in range(n)]
    cat = CSEPCatalog(data=data)
    f = guarded(cat.filter_spatial, region, in_place=False)
    kept = numpy.zeros(n, dtype=numpy.int64)
    if isinstance(f, Raised):
        return f
    for t in f.get_epoch_times().tolist():
        kept[int(t)] = 1
    # per-cell counts of the kept events: attribute each count to its point through single-event catalogs
    # (vectorised: the histogram of the whole kept catalog must equal the histogram of the index lookups)
    cnt = idx.copy()
    f.region = region
    sc = guarded(f.spatial_counts)
    if isinstance(sc, Raised):
        cnt[:] = -2
    else:
        hist = numpy.zeros(region.num_nodes)
        ki = idx[kept == 1]
        if numpy.any(ki < 0):
            cnt[(kept == 1) & (idx < 0)] = -2
        else:
            numpy.add.at(hist, ki, 1)
            if not numpy.array_equal(hist, numpy.asarray(sc)):
                cnt[kept == 1] = -2        # counts disagree with the index lookup
    return idx, masked.astype(numpy.int64), kept, cnt


def region_trace(chk, name, region, cmap, nx, ny, xe, ye, dh_float, numpy, full, rng=None, extra_points=0, closing=(None, None)):
    px = axis_probes(xe, nx, dh_float, full, closing[0])
    py = axis_probes(ye, ny, dh_float, full, closing[1])
    if len(px) * len(py) > 60000:
        # large region: all x-probes against a sample of y-probes and vice versa
        sy = rng.sample(py, max(30, 60000 // len(px)))
        pairs = [(a, b) for a in px for b in sy]
    else:
        pairs = [(a, b) for a in px for b in py]
    if extra_points:
        for _ in range(extra_points):
            x = rng.uniform(xe[0] - dh_float, xe[-1] + 2 * dh_float)
            y = rng.uniform(ye[0] - dh_float, ye[-1] + 2 * dh_float)
            pairs.append(((x, alpha.classify(x, xe, h=dh_float)), (y, alpha.classify(y, ye, h=dh_float))))
    lons = [a[0] for a, b in pairs]
    lats = [b[0] for a, b in pairs]
    obs = observe(region, lons, lats, numpy)
    chk.count(4 * len(pairs))
    if isinstance(obs, Raised):
        return None, {'why': 'operation raised', 'err': repr(obs)}
    idx, masked, kept, cnt = obs
    tuples = {}
    for i, (a, b) in enumerate(pairs):
        t = (a[1], b[1], int(idx[i]), int(masked[i]), int(kept[i]), int(cnt[i]))
        if t not in tuples:
            tuples[t] = (lons[i], lats[i])
        if a[1] % S in (0, 1, 5) or b[1] % S in (0, 1, 5):
            chk.nontrivial('%s|%d|%d' % (name, a[1], b[1]))
    tl = sorted(tuples)
    return {'name': name, 'nx': nx, 'ny': ny, 'cmap': cmap, 'obs': [list(t) for t in tl]}, [tuples[t] for t in tl]


def cmap_from_inputs(polys, flags, nx, ny):
    cmap = [[-1] * nx for _ in range(ny)]
    for q, (i, j) in enumerate(polys):
        if not flags or flags[q] == 1:
            cmap[j][i] = q
    return cmap


def run(chk, replay=None):
    import numpy
    from csep.core import regions
    quick = chk.tier == 'quick'
    rng = random.Random(chk.seed + 101)
    chk.rule = ('regions = every bounding-box-tight cell subset of lattices up to 3x2 (quick) / 3x3 (thorough) x flags x '
                'cell orders emitted by TLC, concretised on an anchor/spacing table, plus random lattices up to 40x40 with '
                'holes and shipped regions; points = every position class (on edge, ulps above, interior, below next edge, '
                'band) of every bin on both axes plus beyond the box on every side. non-trivial = distinct (region, px, py) '
                'with px or py on / next to an edge')

    if replay:
        d = replay['detail']
        xe, ye = d['xe'], d['ye']
        case = d['case']
        if 'other surroundings' in d['how']:
            with other_surroundings():
                region = build_region(case, xe, ye, d['dh'], d['how'].split(' ')[0])
        else:
            region = build_region(case, xe, ye, d['dh'], d['how'])
        tr, pts = region_trace(chk, 'replay', region, d['cmap'], case['nx'], case['ny'], xe, ye, d['dh'], numpy, True, rng,
                               closing=tuple(d.get('closing', (None, None))))
        acc, rej = chk.validate_traces('TraceCartRegion', 'Trace_CartRegion.cfg', [tr] if tr else [])
        if rej or tr is None:
            chk.violation(replay['signature'], d)
        chk.sample({'replayed_region': case})
        return

    # 1. model checking
    res = chk.tlc('CartRegion', 'MCq_CartRegion.cfg' if quick else 'MC_CartRegion.cfg', timeout=1500)
    chk.log('MC: %d region configurations' % res.distinct)
    r = chk.tlc('CartRegion', 'MCbug_CartRegion.cfg', expect='any', coverage=False, count_states=False, timeout=600)
    chk.control('model with CloseSingle=FALSE violates LookupIsContainment', r.violated == 'LookupIsContainment')

    # 2. spec -> code -> spec
    res = chk.tlc('GenCartRegion', 'Genq_CartRegion.cfg' if quick else 'Gen_CartRegion.cfg', workers=1, coverage=False,
                  count_states=False, timeout=1500)
    cases = res.tagged.get('CASE', [])
    if len(cases) < 500:
        raise MachineryError('Gen produced %d regions' % len(cases))
    chk.log('Gen: %d abstract regions' % len(cases))
    traces, meta = [], []
    reps = 1 if quick else 3
    for ci, case in enumerate(cases):
        # one-row / one-column regions (their far side is closed by arithmetic, not by an edge) go through the whole table
        single = min(case['nx'], case['ny']) == 1
        for rep in (range(len(TABLE)) if single else range(reps)):
            x0, y0, dh = TABLE[rep] if single else TABLE[(ci * 5 + rep * 7) % len(TABLE)]
            nx, ny = case['nx'], case['ny']
            xe, ye = lattice_edges(x0, dh, nx), lattice_edges(y0, dh, ny)
            dhf = float(Fraction(dh))
            how = 'from_origins' if (ci + rep) % 2 == 0 else 'polygons'
            if (ci + rep) % 3 == 1:
                # the embedding program changed process-wide settings (a coarse decimal context, numpy print options) before
                # it built the region: the region is the same
                with other_surroundings():
                    region = guarded(build_region, case, xe, ye, dhf, how)
                how += ' (other surroundings)'
            else:
                region = guarded(build_region, case, xe, ye, dhf, how)
            m = {'case': case, 'xe': xe, 'ye': ye, 'dh': dhf, 'how': how, 'cmap': case['cmap'],
                 'closing': [lattice_edges(x0, dh, nx + 1)[-1], lattice_edges(y0, dh, ny + 1)[-1]]}
            shape = 'single-row-or-column' if min(nx, ny) == 1 else 'general'
            if isinstance(region, Raised):
                chk.violation('gen:build raised:%s' % shape, dict(m, err=repr(region)))
                continue
            if case['flags'] and (ci + rep) % 2 == 0:
                # a region with flagged-out cells rebuilt from its dictionary form: whatever flags the rebuilt region says it has
                # (poly_mask), its look-ups honour them - a cell it calls flagged-out is outside it, every other cell is inside
                from csep.core.regions import CartesianGrid2D as _CG
                rb = guarded(lambda: _CG.from_dict(region.to_dict()))
                chk.count()
                if not isinstance(rb, Raised):
                    mids = numpy.asarray(rb.midpoints())
                    mk = guarded(rb.get_masked, mids[:, 0], mids[:, 1])
                    pm = getattr(rb, 'poly_mask', None)
                    pm = numpy.ones(len(mids)) if pm is None else numpy.asarray(pm, dtype=float).reshape(-1)
                    want_out = [float(f_) == 0.0 for f_ in pm]
                    if isinstance(mk, Raised) or [bool(x) for x in numpy.asarray(mk).reshape(-1)] != want_out:
                        chk.violation('gen:region rebuilt from its dictionary form does not honour its own flags:%s' % shape,
                                      dict(m, poly_mask=[float(f_) for f_ in pm], masked_midpoints=repr(mk)))
            closing = (lattice_edges(x0, dh, nx + 1)[-1], lattice_edges(y0, dh, ny + 1)[-1])
            tr, pts = region_trace(chk, 'gen%d' % ci, region, case['cmap'], nx, ny, xe, ye, dhf, numpy,
                                   full=((not quick) or ci % 10 == 0) and not (single and rep >= reps), rng=rng, closing=closing)
            if tr is None:
                chk.violation('gen:operation raised:%s' % shape, dict(m, err=pts))
                continue
            traces.append(tr)
            meta.append((m, pts, shape))
    chk.sample({'abstract_region': cases[len(cases) // 2], 'observations': traces[len(traces) // 2]['obs'][:3],
                'meaning': '[px, py, index_of, masked, kept, count_cell]'})

    # 3. random larger lattices with holes, shipped regions
    n_rand = 6 if quick else 40
    # (the last five table entries - anchors small compared with the spacing - always get a long lattice each: what goes wrong
    # with them goes wrong dozens of cells away from the anchor)
    small_anchor = list(range(len(TABLE) - 5, len(TABLE)))
    for t in list(range(n_rand)) + [-(k + 1) for k in range(len(small_anchor))]:
        nx, ny = rng.randint(2, 40), rng.randint(2, 40)
        if t < 0:
            nx, ny = 48 + rng.randint(0, 12), 30 + rng.randint(0, 12)
        cells = [(i, j) for j in range(ny) for i in range(nx) if rng.random() > 0.25]
        # keep the bounding box tight
        for i in (0, nx - 1):
            if not any(c[0] == i for c in cells):
                cells.append((i, rng.randrange(ny)))
        for j in (0, ny - 1):
            if not any(c[1] == j for c in cells):
                cells.append((rng.randrange(nx), j))
        cells = list(dict.fromkeys(cells))
        rng.shuffle(cells)
        flags = [1 if rng.random() > 0.1 else 0 for _ in cells] if t % 2 else []
        case = {'nx': nx, 'ny': ny, 'polys': [list(c) for c in cells], 'flags': flags}
        x0, y0, dh = TABLE[t % len(TABLE)] if t >= 0 else TABLE[small_anchor[-t - 1]]
        xe, ye = lattice_edges(x0, dh, nx), lattice_edges(y0, dh, ny)
        dhf = float(Fraction(dh))
        cmap = cmap_from_inputs(cells, flags, nx, ny)
        region = guarded(build_region, case, xe, ye, dhf, 'polygons')
        m = {'case': case, 'xe': xe, 'ye': ye, 'dh': dhf, 'how': 'polygons', 'cmap': cmap}
        if isinstance(region, Raised):
            chk.violation('rand:build raised', dict(m, err=repr(region)))
            continue
        tr, pts = region_trace(chk, 'rand%d' % t, region, cmap, nx, ny, xe, ye, dhf, numpy, full=False, rng=rng,
                               extra_points=2000)
        if tr is None:
            chk.violation('rand:operation raised', dict(m, err=pts))
            continue
        traces.append(tr)
        meta.append((m, pts, 'random-lattice'))
    shipped = [('nz', regions.nz_csep_region)]
    if not quick:
        shipped += [('nz-collection', regions.nz_csep_collection_region),
                    ('italy-collection', regions.italy_csep_collection_region),
                    ('california-collection', regions.california_relm_collection_region)]
    shipped.append(('global-2deg' if quick else 'global-1deg', lambda: regions.global_region(dh=2.0 if quick else 1.0)))
    # regions derived by the library's own constructors: refined resolution and polygon sub-selection
    from csep.models import Polygon
    shipped.append(('nz-masked-by-polygon', lambda: regions.masked_region(
        regions.nz_csep_region(), Polygon([(170.0, -46.0), (170.0, -41.0), (176.0, -41.0), (176.0, -46.0)]))))
    if not quick:
        shipped.append(('nz-dh_scale-2', lambda: regions.nz_csep_region(dh_scale=2)))
    for name, fn in shipped:
        region = guarded(fn)
        if isinstance(region, Raised):
            chk.notes.setdefault('shipped_unavailable', []).append('%s: %s' % (name, region.text[:80]))
            continue
        org = region.origins()
        dhf = float(region.dh)
        # alpha from the inputs the region was built from: its polygon origins
        xs = sorted(set(float(a) for a in org[:, 0]))
        ys = sorted(set(float(a) for a in org[:, 1]))
        x0, y0 = xs[0], ys[0]
        nx = int(round((xs[-1] - x0) / dhf)) + 1
        ny = int(round((ys[-1] - y0) / dhf)) + 1
        xe = [None] * nx
        ye = [None] * ny
        for a in xs:
            xe[int(round((a - x0) / dhf))] = a
        for a in ys:
            ye[int(round((a - y0) / dhf))] = a
        for k in range(nx):
            if xe[k] is None:
                xe[k] = round(x0 + k * dhf, 9)
        for k in range(ny):
            if ye[k] is None:
                ye[k] = round(y0 + k * dhf, 9)
        cmap = [[-1] * nx for _ in range(ny)]
        for q in range(org.shape[0]):
            cmap[int(round((float(org[q, 1]) - y0) / dhf))][int(round((float(org[q, 0]) - x0) / dhf))] = q
        tr, pts = region_trace(chk, name, region, cmap, nx, ny, xe, ye, dhf, numpy, full=False, rng=rng, extra_points=3000)
        m = {'shipped': name}
        if tr is None:
            chk.violation('shipped:%s:operation raised' % name, dict(m, err=pts))
            continue
        traces.append(tr)
        meta.append((m, pts, 'shipped:' + name))

    # negative control: one observation moved to the neighbouring cell must be rejected
    import copy
    src = next(i for i, t in enumerate(traces) if any(o[2] >= 0 and o[0] % S == 2 and o[1] % S == 2 for o in t['obs']))
    bad = copy.deepcopy(traces[src])
    for o in bad['obs']:
        if o[2] >= 0 and o[0] % S == 2 and o[1] % S == 2:
            o[2] += 1
            break
    acc, rej = chk.validate_traces('TraceCartRegion', 'Trace_CartRegion.cfg', traces + [bad], chunk=150, timeout=1500)
    chk.traces -= len([i for i in acc if i >= len(traces)])
    chk.control('trace: index moved to the neighbouring cell rejected', len(traces) in {i for i, _ in rej})
    for i, diag in rej:
        if i >= len(traces):
            continue
        m, pts, shape = meta[i]
        tr = traces[i]
        k = (diag[-1]['explained_events']) if diag else 0
        o = tr['obs'][k]
        cls = lambda p: {0: 'on-edge', 1: 'ulps-above', 2: 'interior', 3: 'interior', 4: 'below-next', 5: 'band'}[p % S]
        where = lambda p, n: 'below-box' if p // S < 0 else ('beyond-box' if p // S >= n else 'in-box')
        sig = 'trace:%s:x=%s/%s:y=%s/%s' % (shape, cls(o[0]), where(o[0], tr['nx']), cls(o[1]), where(o[1], tr['ny']))
        chk.violation(sig, dict(m, first_unexplained_observation=o, point=pts[k],
                                meaning='[px, py, index_of, masked, kept, count_cell]'))
    chk.notes['regions_traced'] = len(traces)
    chk.notes['anchor_spacing_table'] = TABLE
    chk.assume('band below a cell boundary as in C02 (16*eps*(k+2)*max(|a0|,|v|,dh)); inside it either neighbour is accepted')
    chk.assume('the 0.1-degree global region (6.5M polygons) is represented by its 2-degree / 1-degree versions')
