"""C17 - quadtree grids tile the globe and locate points in their containing tile.

spec/Quadtree.tla   TLC: DisjointCover, SingleResolutionCovers, PrefixFree, RefinementCriterion, LookupUnique, EventsConserved for
        every catalog of <= 3 events on corner / edge / interior points of the zoom-2 lattice (incl. the antimeridian and the
        northern rim) x thresholds 0..2 x maximum zooms 1..2.
gen -> code   every case built with QuadtreeGrid2D.from_catalog (dyadic coordinates -> exact tile-corner lon/lat); quadkeys and
        get_index_of of all 81 lattice points compared with TLC's grid and lookup table.
code -> spec  random catalogs (uniform / clustered, on tile boundaries) x thresholds x zoom <= 8 located exactly on the zoom-8
        half-tile lattice; TLC reruns the refinement (TraceQuadtree). Single-resolution grids 1..8, shipped California grid,
        arbitrary prefix-free quadkey sets; cell areas against the closed formula.
"""
import decimal
import math
import random
from fractions import Fraction

from vh.core import MachineryError, guarded, Raised


def lon_of(x, side):
    return x / side * 360.0 - 180.0


def lat_of(y_up, side):
    """latitude of the northward position y_up (0..side) on the Web-Mercator square: the same expression mercantile uses"""
    yd = side - y_up
    return math.degrees(math.atan(math.sinh(math.pi * (1 - 2 * yd / side))))


def tile_edges(z):
    import mercantile
    n = 2 ** z
    lons = [mercantile.ul(x, 0, z).lng for x in range(n)] + [180.0]
    lats_up = [mercantile.ul(0, n - y, z).lat for y in range(n + 1)]   # index = northward tile index, increasing latitude
    return lons, lats_up


def locate(v, edges):
    """half-tile position of v on increasing edges: 2k if v == edges[k], 2k+1 if strictly between edges[k], edges[k+1]"""
    import bisect
    k = bisect.bisect_right(edges, v) - 1
    if k < 0:
        return -1
    if k >= len(edges) - 1:
        return 2 * (len(edges) - 1) if v == edges[-1] else 2 * (len(edges) - 1) + 1
    return 2 * k if v == edges[k] else 2 * k + 1


def run(chk, replay=None):
    import numpy
    import mercantile
    from csep.core.regions import QuadtreeGrid2D, california_quadtree_region, geographical_area_from_bounds
    from csep.core.catalogs import CSEPCatalog
    quick = chk.tier == 'quick'
    rng = random.Random(chk.seed + 1717)
    chk.rule = ('cases = catalogs of <=2 (quick) / <=3 events on 10 lattice points x thr 0..2 x zoom 1..2 from TLC; traces = random '
                'catalogs of 10..3000 events x thr x zoom<=8; single-resolution zooms 1..8 (6 quick); prefix-free quadkey sets. '
                'non-trivial = distinct (catalog, thr, zoom) with an event on a tile boundary or a split')

    def make_catalog(points):
        return CSEPCatalog(data=[('e%d' % i, i, float(lat), float(lon), 5.0, 5.0) for i, (lon, lat) in enumerate(points)])

    def digits(qk):
        return [int(ch) for ch in qk]

    R2 = 6371.0 ** 2

    def area_problem(g):
        """every cell's area against the closed formula of its own tile R^2 * dlon * (sin(north) - sin(south)); a grid
        that tiles the whole square must add up to the latitude band"""
        a = guarded(g.get_cell_area)
        chk.count()
        if isinstance(a, Raised):
            return {'why': 'get_cell_area raised', 'err': repr(a)}
        a = [float(x) for x in numpy.asarray(a).reshape(-1)]
        if len(a) != len(g.quadkeys):
            return {'why': 'one area per cell', 'got': len(a), 'cells': len(g.quadkeys)}
        cover = Fraction(0)
        for q, got in zip(g.quadkeys, a):
            t = mercantile.quadkey_to_tile(str(q))
            n = 2 ** t.z
            w, e = t.x / n * 360.0 - 180.0, (t.x + 1) / n * 360.0 - 180.0
            s_, n_ = lat_of(n - (t.y + 1), n), lat_of(n - t.y, n)
            want = R2 * math.radians(e - w) * (math.sin(math.radians(n_)) - math.sin(math.radians(s_)))
            cover += Fraction(1, 4 ** t.z)
            if not abs(got - want) <= 1e-9 * want:
                return {'why': 'cell area', 'quadkey': str(q), 'got': got, 'expected': want}
        if cover == 1:
            band = 2 * math.pi * R2 * 2 * math.sin(math.radians(lat_of(1, 1)))
            if not abs(sum(a) - band) <= 1e-9 * band:
                return {'why': 'areas do not add up to the latitude band', 'got': sum(a), 'expected': band}
        return None

    # ---------------------------------------------------------------- model checking + gen
    res = chk.tlc('Quadtree', 'MC_Quadtree.cfg', timeout=1800)
    chk.require_coverage(res, ['Next'])
    res = chk.tlc('GenQuadtree', 'Gen_Quadtree.cfg' if quick else 'GenT_Quadtree.cfg', workers=1, coverage=False,
                  count_states=False, timeout=1800)
    cases = res.tagged.get('CASE', [])
    if len(cases) < 600:
        raise MachineryError('Gen produced %d cases' % len(cases))
    side = 8      # Z = 2 -> half tiles 0..8

    def check_case(case):
        pts = [(lon_of(x, side), lat_of(y, side)) for (x, y) in case['events']]
        # an event on the eastern / northern rim lies outside every tile; the library still accepts the catalog
        cat = make_catalog(pts)
        g = guarded(QuadtreeGrid2D.from_catalog, cat, case['thr'], zoom=case['zoom'])
        chk.count()
        if isinstance(g, Raised):
            return {'why': 'from_catalog raised', 'err': repr(g)}
        got = [digits(q) for q in g.quadkeys]
        if sorted(got) != sorted(case['grid']):
            return {'why': 'quadkeys', 'got': [''.join(map(str, q)) for q in got][:20],
                    'expected': [''.join(map(str, q)) for q in case['grid']][:20]}
        ap = area_problem(g)
        if ap:
            return ap
        index = {tuple(q): i for i, q in enumerate(got)}
        for x in range(side + 1):
            for y in range(side + 1):
                exp = case['lookup'][x][y]
                r = guarded(g.get_index_of, [lon_of(x, side)], [lat_of(y, side)])
                chk.count()
                if isinstance(r, Raised):
                    return {'why': 'get_index_of raised', 'point': [x, y], 'err': repr(r)}
                r = list(numpy.asarray(r).reshape(-1))
                if exp == 0:
                    if len(r) != 0:
                        return {'why': 'lookup outside every tile returned a cell', 'point': [x, y], 'got': r}
                else:
                    want = index[tuple(case['grid'][exp - 1])]
                    if len(r) != 1 or int(r[0]) != want:
                        return {'why': 'lookup', 'point': [x, y], 'got': r, 'expected': want}
        return None

    if replay:
        d = replay['detail']
        if 'case' in d:
            bad = check_case(d['case'])
            if bad:
                chk.violation(replay['signature'], dict(d, mismatch=bad))
        chk.sample({'replayed': d.get('case', {}).get('events')})
        return

    okc = 0
    for ci, case in enumerate(cases):
        bad = check_case(case)
        on_edge = any(x % 2 == 0 or y % 2 == 0 for x, y in case['events'])
        if on_edge or len(case['grid']) > 4:
            chk.nontrivial('%s|%d|%d' % (case['events'], case['thr'], case['zoom']))
        if bad:
            rim = any(x == side or y == side for x, y in case['events'])
            chk.violation('gen:%s:%s' % (bad['why'], 'event-on-rim' if rim else ('event-on-boundary' if on_edge else 'interior')),
                          {'case': {k: case[k] for k in ('events', 'thr', 'zoom', 'grid', 'lookup')}, 'mismatch': bad})
        else:
            okc += 1
        if ci == 700:
            chk.sample({'events': case['events'], 'thr': case['thr'], 'zoom': case['zoom'],
                        'grid': [''.join(map(str, q)) for q in case['grid']]})
    chk.traces += okc
    import copy
    ctl = copy.deepcopy(next(c for c in cases if len(c['grid']) > 4))
    ctl['grid'] = ctl['grid'][:-1]
    chk.control('gen: expected grid with one leaf removed flagged', check_case(ctl) is not None)

    chk.log('gen replay done')
    # ---------------------------------------------------------------- single resolution, areas
    for z in range(1, 7 if quick else 9):
        g = guarded(QuadtreeGrid2D.from_single_resolution, z)
        chk.count()
        if isinstance(g, Raised):
            chk.violation('single:raised', {'zoom': z, 'err': repr(g)})
            continue
        n = 2 ** z
        if g.num_nodes != 4 ** z:
            chk.violation('single:cell count', {'zoom': z, 'got': g.num_nodes})
        seen = set()
        okb = True
        for qk, b in zip(g.quadkeys, g.bounds):
            t = mercantile.quadkey_to_tile(str(qk))
            w, e = t.x / n * 360.0 - 180.0, (t.x + 1) / n * 360.0 - 180.0
            s_, n_ = lat_of(n - (t.y + 1), n), lat_of(n - t.y, n)
            if (float(b[0]), float(b[1]), float(b[2]), float(b[3])) != (w, s_, e, n_) or t.z != z:
                okb = False
                chk.violation('single:bounds differ from the closed Web-Mercator formula', {'zoom': z, 'quadkey': str(qk),
                              'got': [float(x) for x in b], 'expected': [w, s_, e, n_]})
                break
            seen.add((t.x, t.y))
        if okb and len(seen) != 4 ** z:
            chk.violation('single:tiles do not cover the square exactly once', {'zoom': z, 'distinct': len(seen)})
        area = float(numpy.sum(g.get_cell_area()))
        latmax = math.radians(lat_of(n, n))
        band = 2 * math.pi * R2 * 2 * math.sin(latmax)
        if abs(area - band) > 1e-9 * band:
            chk.violation('single:cell areas do not add up to the latitude band', {'zoom': z, 'got': area, 'expected': band})
        chk.nontrivial('single|%d' % z)
        # lookups at tile corners, the antimeridian and the latitude limits
        if z <= 4:
            lons, lats = tile_edges(z)
            for xi, lon in enumerate(lons):
                for yi, lat in enumerate(lats):
                    r = guarded(g.get_index_of, [lon], [lat])
                    chk.count()
                    inside = xi < n and yi < n
                    r = [] if isinstance(r, Raised) else list(numpy.asarray(r).reshape(-1))
                    if inside:
                        want_tile = (xi, n - 1 - yi)
                        ok = len(r) == 1 and (lambda t: (t.x, t.y) == want_tile)(mercantile.quadkey_to_tile(str(g.quadkeys[int(r[0])])))
                    else:
                        ok = len(r) == 0
                    if not ok:
                        chk.violation('single:corner lookup', {'zoom': z, 'corner': [xi, yi], 'got': [int(x) for x in r]})
                        break
    chk.log('single resolution done')
    # shipped California grid and random prefix-free sets: disjointness and lookups
    sets = []
    cal = guarded(california_quadtree_region)
    if not isinstance(cal, Raised):
        sets.append(('california', [str(q) for q in cal.quadkeys][: (400 if quick else 4000)]))
    for t in range(3 if quick else 20):
        qks = []
        stack = ['0', '1', '2', '3']
        while stack:
            q = stack.pop()
            if len(q) < 6 and rng.random() < 0.45:
                stack += [q + d for d in '0123']
            elif rng.random() < 0.9:
                qks.append(q)
        rng.shuffle(qks)
        sets.append(('random%d' % t, qks))
    for name, qks in sets:
        g = guarded(QuadtreeGrid2D.from_quadkeys, qks)
        chk.count()
        if isinstance(g, Raised):
            chk.violation('quadkeys:raised', {'set': name, 'err': repr(g)})
            continue
        ap = area_problem(g)
        if ap:
            chk.violation('quadkeys:%s' % ap['why'], dict(ap, set=name))
        tiles = {q: mercantile.quadkey_to_tile(q) for q in qks}
        for _ in range(200 if quick else 1500):
            q = rng.choice(qks)
            t = tiles[q]
            n = 2 ** t.z
            fx, fy = rng.choice([(0.0, 0.0), (0.5, 0.5), (0.99, 0.01), (0.0, 0.7)])
            lon = (t.x + fx) / n * 360.0 - 180.0
            lat = lat_of(n - (t.y + 1) + fy, n)
            r = guarded(g.get_index_of, [lon], [lat])
            chk.count()
            r = [] if isinstance(r, Raised) else list(numpy.asarray(r).reshape(-1))
            if len(r) != 1 or str(g.quadkeys[int(r[0])]) != q:
                chk.violation('quadkeys:lookup', {'set': name, 'quadkey': q, 'point': [lon, lat], 'got': [int(x) for x in r]})
                break
        # coordinates given as exact numbers (Fraction / Decimal) a hair west of a tile's east edge: closer to the edge than
        # any double, and still inside the tile
        for k_ in range(12 if quick else 60):
            q = rng.choice(qks)
            t = tiles[q]
            n = 2 ** t.z
            east = (t.x + 1) / n * 360.0 - 180.0
            lat = lat_of(n - (t.y + 1) + 0.5, n)
            if k_ % 2:
                lon = Fraction(east) - Fraction(1, 10 ** 25)
            else:
                with decimal.localcontext() as ctx_:
                    ctx_.prec = 60
                    lon = decimal.Decimal(east) - decimal.Decimal(1).scaleb(-25)
            r = guarded(g.get_index_of, [lon], [lat])
            chk.count()
            r = [] if isinstance(r, Raised) else list(numpy.asarray(r).reshape(-1))
            if len(r) != 1 or str(g.quadkeys[int(r[0])]) != q:
                chk.violation('quadkeys:lookup of an exact coordinate', {'set': name, 'quadkey': q, 'point': [str(lon), lat], 'got': [int(x) for x in r]})
                break
        # many points in one call, some of them in holes of the grid (tiles that are not part of the set) or beyond the
        # latitude limits: the answer lists the containing cell of every point that has one, in order, and nothing else
        qk_index = {q: i for i, q in enumerate(str(x) for x in g.quadkeys)}
        for rep in range(4 if quick else 30):
            lons_b, lats_b, want = [], [], []
            for _ in range(rng.choice([1, 2, 7, 40])):
                lon = rng.uniform(-180.0, 180.0)
                lat = rng.uniform(-84.9, 84.9) if rng.random() < 0.9 else rng.choice([-88.0, 87.5])
                lons_b.append(lon)
                lats_b.append(lat)
                if abs(lat) < 85.0:
                    deep = mercantile.quadkey(mercantile.tile(lon, lat, 12))
                    hit = [qk_index[deep[:k]] for k in range(1, 13) if deep[:k] in qk_index]
                    want += hit[:1]
            for style in ('list', 'array'):
                r = guarded(g.get_index_of, lons_b if style == 'list' else numpy.array(lons_b), lats_b if style == 'list' else numpy.array(lats_b))
                chk.count()
                got = None if isinstance(r, Raised) else [int(x) for x in numpy.asarray(r).reshape(-1)]
                if got != want:
                    chk.violation('quadkeys:batch lookup', {'set': name, 'style': style, 'n_points': len(lons_b), 'got': repr(r)[:200] if got is None else got[:20],
                                                            'expected': want[:20], 'points_head': list(zip(lons_b, lats_b))[:5]})
                    break
        chk.nontrivial('set|%s' % name)

    chk.log('quadkey sets done')
    # ---------------------------------------------------------------- traces: random catalogs, zoom <= 8
    Zt = 8
    lons8, lats8 = tile_edges(Zt)
    traces, metas = [], []
    for t in range(8 if quick else 60):
        n_ev = rng.choice([10, 60, 200] if quick else [10, 60, 300, 1000])
        style = rng.choice(['uniform', 'cluster', 'boundary'])
        pts = []
        cx, cy = rng.uniform(-170, 170), rng.uniform(-60, 60)
        for _ in range(n_ev):
            if style == 'uniform':
                pts.append((rng.uniform(-180, 180), rng.uniform(-84, 84)))
            elif style == 'cluster':
                pts.append((max(-180.0, min(179.99, rng.gauss(cx, 3.0))), max(-84.0, min(84.0, rng.gauss(cy, 3.0)))))
            else:
                pts.append((rng.choice(lons8[:-1]) if rng.random() < 0.7 else rng.uniform(-180, 180),
                            rng.choice(lats8[:-1]) if rng.random() < 0.7 else rng.uniform(-84, 84)))
        thr = rng.choice([0, 1, 3, 10, 50])
        zoom = rng.choice([1, 3, 5, 8]) if thr >= 3 or n_ev <= 300 else rng.choice([1, 3, 5])
        cat = make_catalog(pts)
        g = guarded(QuadtreeGrid2D.from_catalog, cat, thr, zoom=zoom)
        chk.count()
        if isinstance(g, Raised):
            chk.violation('trace:from_catalog raised', {'n': n_ev, 'thr': thr, 'zoom': zoom, 'err': repr(g)})
            continue
        ap = area_problem(g)
        if ap:
            chk.violation('trace:%s' % ap['why'], dict(ap, n=n_ev, thr=thr, zoom=zoom))
        ev_abs = [[locate(lon, lons8), locate(lat, lats8)] for lon, lat in pts]
        lk = []
        for (lon, lat), a in list(zip(pts, ev_abs))[:40]:
            r = guarded(g.get_index_of, [lon], [lat])
            r = [] if isinstance(r, Raised) else list(numpy.asarray(r).reshape(-1))
            lk.append([a[0], a[1], int(r[0]) + 1 if len(r) == 1 else (0 if len(r) == 0 else -1)])
        traces.append({'events': ev_abs, 'thr': thr, 'zoom': zoom, 'qks': [digits(str(q)) for q in g.quadkeys], 'lookups': lk})
        metas.append({'n': n_ev, 'style': style, 'thr': thr, 'zoom': zoom, 'cells': int(g.num_nodes)})
        chk.nontrivial('tr|%d|%s|%d|%d' % (n_ev, style, thr, zoom))
    chk.log('traces recorded')
    bad = copy.deepcopy(next(tr for tr in traces if len(tr['qks']) > 4))
    bad['qks'] = bad['qks'][:-1]
    acc, rej = chk.validate_traces('TraceQuadtree', 'Trace_Quadtree.cfg', traces + [bad], chunk=2, parallel=14, timeout=2400)
    chk.traces -= len([i for i in acc if i >= len(traces)])
    chk.control('trace: grid with one cell removed rejected', len(traces) in {i for i, _ in rej})
    for i, diag in rej:
        if i < len(traces):
            part = ['refinement', 'lookup'][diag[-1]['explained_events']] if diag else '?'
            chk.violation('trace:%s:%s' % (part, metas[i]['style']), metas[i])
    chk.sample({'trace': {'events_head': traces[0]['events'][:4], 'thr': traces[0]['thr'], 'zoom': traces[0]['zoom'],
                          'qks_head': [''.join(map(str, q)) for q in traces[0]['qks'][:6]]}})
    chk.exhaustive = True
    chk.assume('tile bounds are those of mercantile (checked here against the closed Web-Mercator formula bit for bit)')
