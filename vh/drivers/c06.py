"""C06 - simulated catalogs follow the forecast by exact inverse-CDF and conserve counts.

spec/InvCdfSim.tla   TLC: PlaceIsInverseCdf (searchsorted(side='right') over the cumulative weights IS the bin whose
        cumulative interval [F_(k-1), F_k) contains the draw, for every weight vector with zeros anywhere and every draw
        position incl. on / next to every boundary), NeverZeroRateBin, UniqueBin, Conserved, DistinctActiveCells,
        AllowedIsSound; liveness Terminates (rejection loop reaches its target under weak fairness); the 'left' variant
        must be refuted.
code -> spec (TraceInvCdfSim): every simulated catalog the real Poisson / binary / Brier tests produce is recorded (harness-side
        wrappers on the module-level _simulate_catalog and on numpy.random.uniform / rand; no source change) together with the
        exact-rational class of every uniform number, and TLC replays the draws.  Quantile and determinism records ride along.
"""
import hashlib
import random
from fractions import Fraction

from vh.core import MachineryError, guarded, guarded_timeout, Raised
from vh.invcdf import Cdf

EPS = 2.0 ** -52


def project_draw(cdf, u, n, rounded, W=None):
    """alpha for one uniform number: exact bin, near-boundary flag, neighbours, abstract position (integer weights)."""
    k, d = cdf.place(u)
    fu = Fraction(float(u))
    band = Fraction((n + 4) * 4 * EPS) if rounded else Fraction(0)
    lo_b = cdf.F[k - 1] if k > 0 else Fraction(0)
    hi_b = cdf.F[k]
    near, lo, hi = 0, k + 1, k + 1
    if rounded:
        # the code takes the first bin whose float cumulative weight exceeds u; the float weights are within the band of the
        # exact ones, so a positive-rate bin i is possible iff F_i > u - band and F_(i-1) <= u + band (a run of very narrow
        # bins may put several on either side)
        i = k
        while i > 0 and cdf.F[i - 1] > fu - band:
            i -= 1
            if cdf.r[i] > 0:
                lo = i + 1
        i = k
        while i < n - 1 and cdf.F[i] <= fu + band:
            i += 1
            if cdf.r[i] > 0:
                hi = i + 1
        near = 1 if (lo, hi) != (k + 1, k + 1) else 0
    uabs = -1
    if W is not None:
        unit = (fu * W).numerator // (fu * W).denominator
        frac_lo = fu - Fraction(unit, W)
        frac_hi = Fraction(unit + 1, W) - fu
        if frac_lo == 0:
            sub = 0
        elif frac_lo <= (band if rounded else Fraction(4 * EPS)):
            sub = 1
        elif frac_hi <= (band if rounded else Fraction(4 * EPS)):
            sub = 3
        else:
            sub = 2
        uabs = int(unit) * 4 + sub
    return {'k': k + 1, 'near': near, 'lo': lo, 'hi': hi, 'u': uabs}


def base_trace(**kw):
    t = {'kind': 'poisson', 'wt': [1], 'target': 0, 'n': 1, 'zero': [0], 'draws': [], 'result': [0],
         'sims': [], 'obs': 0, 'num': 0, 'runs': []}
    t.update(kw)
    return t


def digest(res):
    import numpy
    h = hashlib.sha256()
    h.update(numpy.asarray(res.test_distribution, dtype=float).tobytes())
    h.update(numpy.asarray([res.observed_statistic], dtype=float).tobytes())
    q = res.quantile if isinstance(res.quantile, (tuple, list)) else [res.quantile]
    h.update(numpy.asarray([float('nan') if x is None else x for x in q], dtype=float).tobytes())
    return h.hexdigest()[:16]


class Capture:
    """Harness-side recording around the unchanged module-level samplers."""

    def __init__(self, numpy, mods, script=None):
        self.numpy = numpy
        self.script = list(script or [])     # uniform numbers fed to the rejection loop before the generator is used
        self.calls = []          # (module name, target, weights copy, draws list, result copy)
        self._draws = []
        self._orig = {}
        self.mods = mods
        self.depth = 0

    def __enter__(self):
        numpy = self.numpy
        cap = self
        self._u = numpy.random.uniform
        self._r = numpy.random.rand
        self._p = numpy.random.poisson
        self.poisson = []           # (lam, value) of every numpy.random.poisson call made during the test

        def poisson(*a, **k):
            v = cap._p(*a, **k)
            cap.poisson.append((float(a[0]) if a else float(k.get('lam', 1.0)), int(v)))
            return v
        numpy.random.poisson = poisson

        def uniform(*a, **k):
            v = cap._u(*a, **k)
            if cap.depth and cap.script and not k and len(a) <= 2:
                v = cap.script.pop(0)
            if cap.depth:
                cap._draws.append(float(v))
            return v

        def rand(*a, **k):
            v = cap._r(*a, **k)
            if cap.depth:
                cap._draws.extend(float(x) for x in numpy.asarray(v).reshape(-1))
            return v
        numpy.random.uniform = uniform
        numpy.random.rand = rand
        # the other spellings of "uniform numbers in [0, 1)" of the legacy generator are observed the same way, so that
        # an equivalent call (random_sample(n) for rand(n)) is still seen
        self._aliases = {}
        for alias in ('random', 'random_sample', 'ranf', 'sample'):
            fn_ = getattr(numpy.random, alias, None)
            if fn_ is None:
                continue
            self._aliases[alias] = fn_

            def aliased(*a, _fn=fn_, **k):
                v = _fn(*a, **k)
                if cap.depth:
                    cap._draws.extend(float(x) for x in numpy.asarray(v).reshape(-1))
                return v
            setattr(numpy.random, alias, aliased)
        self.incomplete = 0          # simulated catalogs whose uniform numbers could not be observed (not judged by draws)
        for name, mod in self.mods.items():
            orig = mod._simulate_catalog
            self._orig[name] = orig

            def wrapped(n, weights, *a, _orig=orig, _name=name, **k):
                cap.depth += 1
                cap._draws = []
                rn = k.get('random_numbers', None)
                if rn is None:
                    for x in a:
                        if isinstance(x, numpy.ndarray) and x.ndim == 1 and x.size != numpy.asarray(weights).size:
                            rn = x
                    if len(a) >= 2 and _name != 'brier' and a[1] is not None:
                        rn = a[1]
                try:
                    out = _orig(n, weights, *a, **k)
                finally:
                    cap.depth -= 1
                draws = list(cap._draws) if rn is None else [float(x) for x in numpy.asarray(rn).reshape(-1)]
                if rn is None and not draws and int(n) > 0:
                    # events were asked for but no uniform number was seen: the sampler drew them in a way this wrapper does
                    # not observe (another generator); such a catalog cannot be replayed from its draws and is left out
                    # (counted, never reported).  A catalog asked to hold NO event is always kept: it must come back empty.
                    cap.incomplete += 1
                    return out
                cap.calls.append((_name, int(n), numpy.array(numpy.ma.getdata(weights), dtype=float).copy(), draws,
                                  numpy.array(out, dtype=float).copy()))
                return out
            mod._simulate_catalog = wrapped
        return self

    def __exit__(self, *a):
        self.numpy.random.uniform = self._u
        self.numpy.random.rand = self._r
        self.numpy.random.poisson = self._p
        for alias, fn_ in self._aliases.items():
            setattr(self.numpy.random, alias, fn_)
        for name, mod in self.mods.items():
            mod._simulate_catalog = self._orig[name]
        return False


def run(chk, replay=None):
    import numpy
    from csep.core import poisson_evaluations as pe, binomial_evaluations as be, brier_evaluations as br
    from csep.core import catalog_evaluations as ce
    from vh.drivers.c05 import Builder
    quick = chk.tier == 'quick'
    rng = random.Random(chk.seed + 606)
    B = Builder()
    chk.rule = ('traces = every simulated catalog produced by the Poisson (CL/S/M/L), binary and Brier tests on rate arrays '
                'built from integer weights (zeros leading / interior / trailing; dyadic units = exact cumulative floats, '
                'decimal units = rounded) and on random arrays, with uniform numbers on, next to and between every cumulative '
                'boundary, 0 and the largest double below 1; plus quantile and seed-determinism records. non-trivial = '
                'distinct (weights, draw class) with a boundary-adjacent draw or a zero-rate neighbour')

    # ---------------------------------------------------------------- 1. model checking
    res = chk.tlc('InvCdfSim', 'MC_InvCdfSim.cfg' if quick else 'MCT_InvCdfSim.cfg', timeout=1200)
    chk.require_coverage(res, ['Next'])
    chk.tlc('InvCdfSim', 'Live_InvCdfSim.cfg', timeout=600, coverage=False)
    r = chk.tlc('InvCdfSim', 'MCbug_InvCdfSim.cfg', expect='any', coverage=False, count_states=False)
    chk.control("model with searchsorted side='left' refuted", r.violated == 'PlaceIsInverseCdf')

    traces_exact, traces_round, meta_exact, meta_round = [], [], [], []

    def add_trace(tr, m, exact):
        (traces_exact if exact else traces_round).append(tr)
        (meta_exact if exact else meta_round).append(m)

    def boundary_draws(cdf, n, exact):
        """uniform numbers on / around every cumulative boundary, interior points, 0 and the largest double below 1."""
        us = [0.0, 1.0 - 2.0 ** -53]
        for k in range(n):
            f = float(cdf.F[k])
            if f >= 1.0:
                continue
            for j in (0, 1, 2, 3, -1, -2, -3):
                x = f
                for _ in range(abs(j)):
                    x = float(numpy.nextafter(x, 2.0 if j > 0 else -1.0))
                if 0.0 <= x < 1.0:
                    us.append(x)
        prev = 0.0
        for k in range(n):
            f = float(cdf.F[k])
            if f > prev:
                us.append(prev + (f - prev) * 0.5)
            prev = f
        return us

    def poisson_case(wt, unit, exact, label, dtype=None):
        n = len(wt)
        rates = [w_ * unit for w_ in wt]
        cdf = Cdf(rates)
        W = sum(wt)
        us = boundary_draws(cdf, n, exact)
        data = numpy.array(rates, dtype=float).reshape(n, 1)
        fc = B.forecast(data, dtype=dtype)
        # one observed event in the first positive bin so that every simulated catalog holds exactly one event
        first = next(i for i in range(n) if wt[i] > 0)
        w = [[1 if i == first else 0] for i in range(n)]
        cat = B.catalog(w, n, 1)
        rn = numpy.array(us, dtype=float).reshape(len(us), 1)
        with Capture(numpy, {'poisson': pe}) as cap:
            res = guarded(pe.conditional_likelihood_test, fc, cat, num_simulations=len(us), random_numbers=rn)
        chk.count(len(us))
        if isinstance(res, Raised):
            chk.violation('poisson:raised:%s' % label, {'wt': wt, 'unit': unit, 'err': repr(res),
                                                        'n_calls_before_failure': len(cap.calls)})
        for (name, tgt, weights, draws, out) in cap.calls:
            dr = [project_draw(cdf, u, n, not exact, W) for u in draws]
            add_trace(base_trace(kind='poisson', wt=list(wt), target=tgt, n=n, zero=[1 if x == 0 else 0 for x in wt],
                                 draws=dr, result=[int(x) for x in out]),
                      {'label': label + ('' if dtype is None else '-' + dtype), 'wt': wt, 'unit': unit, 'draws': draws, 'module': name}, exact)
            for d in dr:
                if d['u'] % 4 != 2 or d['near']:
                    chk.nontrivial('%s|%s|%s' % (wt, unit, d['u']))
        return res

    # ---------------------------------------------------------------- 2. integer-weight arrays through the Poisson tests
    weight_sets = [[1], [1, 1], [0, 1], [1, 0], [1, 0, 1], [0, 0, 2, 0], [2, 1, 1], [1, 2, 0, 1], [0, 3, 0, 1, 0], [1, 1, 1, 1],
                   [1, 0, 0, 3], [2, 2], [3, 1], [1, 2, 1], [0, 1, 0, 1, 0, 2]]
    if not quick:
        for _ in range(60):
            weight_sets.append([rng.choice([0, 0, 1, 2, 3, 5]) for _ in range(rng.randint(1, 12))])
        weight_sets = [w_ for w_ in weight_sets if sum(w_) > 0]
    for wt in weight_sets:
        W = sum(wt)
        if W & (W - 1) == 0:         # power of two: cumulative floats are exact
            # (49/256 and 3: totals that are not powers of two, yet every cumulative quotient k/W is exact when the code
            # divides by the total - not when it multiplies by a rounded reciprocal)
            for unit in (0.125, 2.0 ** -20, 64.0, 49.0 / 256.0, 3.0):
                poisson_case(wt, unit, True, 'dyadic')
            # the same exact weights held in other dtypes (whole-number rates as integers, small dyadic ones as float32)
            poisson_case(wt, 64.0, True, 'dyadic', dtype='int64')
            poisson_case(wt, 3.0, True, 'dyadic', dtype='int32')
            poisson_case(wt, 0.125, True, 'dyadic', dtype='float32')
        for unit in (0.1, 3e-7, 0.7, 1e3 / 3):
            poisson_case(wt, unit, False, 'decimal')

    # ---------------------------------------------------------------- 2b. space-magnitude matrices in several memory layouts
    # (the cumulative order is the row-major order of (cell, bin) whatever the memory layout of the rate array)
    for mi, mat in enumerate([[[1, 0, 2], [0, 3, 2]], [[0, 1], [2, 0], [1, 4]], [[1, 1, 1, 1], [2, 0, 0, 2]]]):
        nc_, nb_ = len(mat), len(mat[0])
        flatw = [x for row in mat for x in row]
        Wm = sum(flatw)
        exact = (Wm & (Wm - 1) == 0)
        for layout in ('C', 'F', 'T'):
            unit = 0.125 if exact else 0.1
            rates_m = [[x * unit for x in row] for row in mat]
            cdf = Cdf([x * unit for x in flatw])
            us = boundary_draws(cdf, nc_ * nb_, exact)
            fc = B.forecast(numpy.array(rates_m), layout=layout)
            firstc = next(i for i in range(nc_ * nb_) if flatw[i] > 0)
            wobs = [[1 if c * nb_ + b == firstc else 0 for b in range(nb_)] for c in range(nc_)]
            cat = B.catalog(wobs, nc_, nb_)
            rn = numpy.array(us, dtype=float).reshape(len(us), 1)
            with Capture(numpy, {'poisson': pe}) as cap:
                res = guarded(pe.conditional_likelihood_test, fc, cat, num_simulations=len(us), random_numbers=rn)
            chk.count(len(us))
            if isinstance(res, Raised):
                chk.violation('poisson:raised:matrix-%s' % layout, {'matrix': mat, 'err': repr(res)})
            for (name, tgt, weights, draws, out) in cap.calls:
                dr = [project_draw(cdf, u, nc_ * nb_, not exact, Wm) for u in draws]
                add_trace(base_trace(kind='poisson', wt=list(flatw), target=tgt, n=nc_ * nb_, zero=[1 if x == 0 else 0 for x in flatw],
                                     draws=dr, result=[int(x) for x in numpy.asarray(out).reshape(-1)]),
                          {'label': 'matrix-layout-%s' % layout, 'wt': mat, 'unit': unit, 'draws': draws, 'module': name}, exact)
            chk.nontrivial('matrix|%d|%s' % (mi, layout))

    # ---------------------------------------------------------------- 3. random arrays (float cumulative total may round below 1)
    n_rand = 30 if quick else 1500
    for t in range(n_rand):
        n = rng.choice([2, 3, 5, 17, 64, 300, 1000] if not quick else [2, 5, 17, 64, 300])
        rates = [0.0 if rng.random() < 0.2 else 10 ** rng.uniform(-9, 2) for _ in range(n)]
        if sum(rates) == 0:
            rates[0] = 1.0
        cdf = Cdf(rates)
        us = [0.0, 1.0 - 2.0 ** -53] + [rng.random() for _ in range(10)]
        for k in rng.sample(range(n), min(n, 6)):
            f = float(cdf.F[k])
            for j in (-1, 0, 1):
                x = float(numpy.nextafter(f, 2.0)) if j > 0 else (float(numpy.nextafter(f, -1.0)) if j < 0 else f)
                if 0 <= x < 1:
                    us.append(x)
        data = numpy.array(rates, dtype=float).reshape(n, 1)
        fc = B.forecast(data)
        first = next(i for i in range(n) if rates[i] > 0)
        cat = B.catalog([[1 if i == first else 0] for i in range(n)], n, 1)
        rn = numpy.array(us, dtype=float).reshape(len(us), 1)
        with Capture(numpy, {'poisson': pe}) as cap:
            res = guarded(pe.conditional_likelihood_test, fc, cat, num_simulations=len(us), random_numbers=rn)
        chk.count(len(us))
        if isinstance(res, Raised):
            cs = numpy.cumsum(data.ravel()) / numpy.sum(data)
            chk.violation('poisson:raised:random-array:%s' % ('last-weight-below-1' if cs[-1] < 1.0 else 'other'),
                          {'n': n, 'seed_index': t, 'last_cumulative_weight': repr(float(cs[-1])), 'err': repr(res)})
        for (name, tgt, weights, draws, out) in cap.calls:
            dr = [project_draw(cdf, u, n, True) for u in draws]
            add_trace(base_trace(kind='poisson', wt=[1], target=tgt, n=n, zero=[1 if x == 0 else 0 for x in rates],
                                 draws=dr, result=[int(x) for x in out]),
                      {'label': 'random', 'n': n, 'draws': draws, 'module': name, 'rates': [float(x).hex() for x in rates]}, False)
        chk.nontrivial('rand|%d|%d' % (n, t))

    # ---------------------------------------------------------------- 4. L-test: Poisson number of events, conserved
    for t in range(6 if quick else 200):
        n = rng.choice([3, 10, 50])
        rates = [0.0 if rng.random() < 0.2 else 10 ** rng.uniform(-3, 1) for _ in range(n)]
        rates[0] = max(rates[0], 0.5)
        cdf = Cdf(rates)
        fc = B.forecast(numpy.array(rates).reshape(n, 1))
        cat = B.catalog([[1] if i == 0 else [0] for i in range(n)], n, 1)
        with Capture(numpy, {'poisson': pe}) as cap:
            res = guarded(pe.likelihood_test, fc, cat, num_simulations=5, seed=chk.seed + t)
        chk.count(5)
        if isinstance(res, Raised):
            chk.violation('poisson:L-test raised', {'err': repr(res)})
        # the number of events of every simulated catalog is a Poisson draw with the forecast mean
        tot = float(numpy.sum(numpy.array(rates)))
        if cap.incomplete:
            continue
        if len(cap.poisson) != len(cap.calls) or any(abs(lam - tot) > 1e-12 * tot for lam, _ in cap.poisson) or \
                [v for _, v in cap.poisson] != [tgt for (_, tgt, _, _, _) in cap.calls]:
            chk.violation('poisson:L-test event number is not a Poisson draw with the forecast mean',
                          {'poisson_calls': cap.poisson[:5], 'targets': [c[1] for c in cap.calls][:5], 'forecast_total': tot})
        for (name, tgt, weights, draws, out) in cap.calls:
            dr = [project_draw(cdf, u, n, True) for u in draws]
            add_trace(base_trace(kind='poisson', target=tgt, n=n, zero=[1 if x == 0 else 0 for x in rates],
                                 draws=dr, result=[int(x) for x in out]),
                      {'label': 'L-test', 'n': n, 'module': name, 'draws': draws[:10]}, False)

    # ---------------------------------------------------------------- 5. binary / Brier rejection sampler
    bin_cases = [[1, 1], [0, 1, 1], [1, 0, 2], [2, 1, 1, 0], [0, 3, 0, 1, 0], [1, 1, 1, 1], [1, 2, 0, 1, 3]]
    if not quick:
        for _ in range(40):
            bin_cases.append([rng.choice([0, 1, 2, 5]) for _ in range(rng.randint(2, 15))])
    bin_cases = [w_ for w_ in bin_cases if sum(1 for x in w_ if x > 0) >= 1]
    for ci, wt in enumerate(bin_cases):
        n = len(wt)
        npos = sum(1 for x in wt if x > 0)
        for unit in ((0.25, 0.1) if ci % 2 else (0.5, 0.03)):
            rates = [w_ * unit for w_ in wt]
            cdf = Cdf(rates)
            fc = B.forecast(numpy.array(rates).reshape(n, 1))
            n_active = rng.randint(1, npos)
            act = rng.sample([i for i in range(n) if wt[i] > 0], n_active)
            cat = B.catalog([[2 if i in act and i == act[0] else (1 if i in act else 0)] for i in range(n)], n, 1)
            for modname, mod, fn in (('binary', be, lambda f, c, s: be.binary_conditional_likelihood_test(f, c, num_simulations=4, seed=s)),
                                     ('binary', be, lambda f, c, s: be.binary_spatial_test(f, c, num_simulations=4, seed=s)),
                                     ('brier', br, lambda f, c, s: br.brier_score_test(f, c, num_simulations=4, seed=s))):
                with Capture(numpy, {modname: mod}) as cap:
                    res = guarded_timeout(5, fn, fc, cat, chk.seed + ci)
                chk.count(4)
                if isinstance(res, Raised):
                    chk.violation('%s:raised:%s' % (modname, 'zero-rate-bins' if 0 in wt else 'positive'),
                                  {'wt': wt, 'unit': unit, 'n_active': n_active, 'err': repr(res)})
                for (name, tgt, weights, draws, out) in cap.calls:
                    # the prescribed number is the observed number of active cells - known here, not taken from the sampler's argument
                    if int(tgt) != n_active or int(numpy.asarray(out).sum()) != n_active:
                        chk.violation('%s:simulated catalog does not hold the observed number of active cells:%s' % (
                            modname, 'first-cell-active' if 0 in act else 'first-cell-empty'),
                            {'wt': wt, 'unit': unit, 'observed_active_cells': sorted(act), 'sampler_asked_for': int(tgt),
                             'cells_active_in_simulation': int(numpy.asarray(out).sum())})
                        break
                    dr = [project_draw(cdf, u, n, True) for u in draws]
                    add_trace(base_trace(kind='binary', target=tgt, n=n, zero=[1 if x == 0 else 0 for x in wt],
                                         draws=dr, result=[int(x) for x in out]),
                              {'label': 'rejection-loop', 'wt': wt, 'unit': unit, 'module': name, 'draws': draws[:20],
                               'result': [int(x) for x in out], 'weights_seen_by_sampler': [float(x) for x in weights][:12]}, False)
                    chk.nontrivial('bin|%s|%s|%s|%d' % (wt, unit, name, tgt))
                # quantile record
                if not isinstance(res, Raised):
                    td = [float(x) for x in res.test_distribution]
                    allv = sorted(set(td + [float(res.observed_statistic)]))
                    rank = {v: i for i, v in enumerate(allv)}
                    num = float(res.quantile) * len(td)
                    add_trace(base_trace(kind='quantile', sims=[rank[x] for x in td], obs=rank[float(res.observed_statistic)],
                                         num=int(round(num)) if abs(num - round(num)) < 1e-9 and 0 <= float(res.quantile) <= 1 else -1),
                              {'label': 'quantile', 'module': modname}, False)

    # 5a. the quantile rule where it matters: simulated statistics that TIE with the observed one.  Forecasts with equal
    # rates in every bin (a uniform reference model) and one or two observed events: most simulated catalogs score
    # exactly like the observed one, and "not exceeding" counts every one of them
    def quantile_record(res, label, modname):
        td = [float(x) for x in res.test_distribution]
        allv = sorted(set(td + [float(res.observed_statistic)]))
        rank = {v: i for i, v in enumerate(allv)}
        num = float(res.quantile) * len(td)
        add_trace(base_trace(kind='quantile', sims=[rank[x] for x in td], obs=rank[float(res.observed_statistic)],
                             num=int(round(num)) if abs(num - round(num)) < 1e-9 and 0 <= float(res.quantile) <= 1 else -1),
                  {'label': label, 'module': modname, 'ties': sum(1 for x in td if x == float(res.observed_statistic))}, False)
    for (nc_, nb_, rate_, wobs_) in ((3, 2, 0.5, [[1, 0], [0, 0], [0, 0]]), (4, 1, 0.25, [[1], [0], [1], [0]]), (2, 2, 1.0, [[0, 1], [1, 0]])):
        fcu = B.forecast(numpy.full((nc_, nb_), rate_))
        catu = B.catalog(wobs_, nc_, nb_)
        for label, fn in (('poisson CL', lambda s_: pe.conditional_likelihood_test(fcu, catu, num_simulations=25, seed=s_)),
                          ('poisson L', lambda s_: pe.likelihood_test(fcu, catu, num_simulations=25, seed=s_)),
                          ('poisson S', lambda s_: pe.spatial_test(fcu, catu, num_simulations=25, seed=s_)),
                          ('poisson M', lambda s_: pe.magnitude_test(fcu, catu, num_simulations=25, seed=s_)),
                          ('binary CL', lambda s_: be.binary_conditional_likelihood_test(fcu, catu, num_simulations=25, seed=s_)),
                          ('binary S', lambda s_: be.binary_spatial_test(fcu, catu, num_simulations=25, seed=s_)),
                          ('brier', lambda s_: br.brier_score_test(fcu, catu, num_simulations=25, seed=s_))):
            res = guarded_timeout(20, fn, 11)
            chk.count(25)
            if isinstance(res, Raised):
                chk.violation('quantile:raised:%s' % label, {'shape': [nc_, nb_], 'err': repr(res)})
                continue
            quantile_record(res, 'quantile-with-ties', label)
            if any(float(x) == float(res.observed_statistic) for x in res.test_distribution):
                chk.nontrivial('ties|%s|%d|%d' % (label, nc_, nb_))

    # 5b. the rejection loop fed with uniform numbers on / next to every cumulative boundary (dyadic rates: strict)
    for wt in [w_ for w_ in bin_cases + weight_sets if sum(w_) & (sum(w_) - 1) == 0 and sum(1 for x in w_ if x > 0) >= 2]:
      for unit5 in (0.25, 49.0 / 256.0, 3.0, 2.0 ** -30):      # (the last: every rate below 1e-8 - small is not zero)
        n = len(wt)
        rates = [w_ * unit5 for w_ in wt]
        cdf = Cdf(rates)
        W = sum(wt)
        fc = B.forecast(numpy.array(rates).reshape(n, 1))
        posb = [i for i in range(n) if wt[i] > 0]
        cat = B.catalog([[1 if i in posb[:2] else 0] for i in range(n)], n, 1)
        script = boundary_draws(cdf, n, True)
        rng.shuffle(script)
        for modname, mod, fn in (('binary', be, lambda f, c: be.binary_spatial_test(f, c, num_simulations=len(script) // 2, seed=1)),
                                 ('brier', br, lambda f, c: br.brier_score_test(f, c, num_simulations=len(script) // 2, seed=1))):
            with Capture(numpy, {modname: mod}, script=script) as cap:
                res = guarded_timeout(10, fn, fc, cat)
            chk.count(len(script) // 2)
            if isinstance(res, Raised):
                chk.violation('%s:raised:scripted-draws' % modname, {'wt': wt, 'err': repr(res)})
            for (name, tgt, weights, draws, out) in cap.calls:
                dr = [project_draw(cdf, u, n, False, W) for u in draws]
                add_trace(base_trace(kind='binary', wt=list(wt), target=tgt, n=n, zero=[1 if x == 0 else 0 for x in wt],
                                     draws=dr, result=[int(x) for x in out]),
                          {'label': 'rejection-loop-scripted', 'wt': wt, 'module': name, 'draws': draws[:20],
                           'result': [int(x) for x in out]}, True)
                for d in dr:
                    if d['u'] % 4 != 2:
                        chk.nontrivial('binscript|%s|%s|%d' % (wt, name, d['u']))

    # ---------------------------------------------------------------- 5c. injected random numbers for a catalog without events
    # (no event to place: every simulated catalog is empty, every simulated statistic is the observed one, the quantile is 1)
    fc0 = B.forecast(numpy.array([[0.2, 0.0], [0.7, 0.01], [0.0, 0.3]]))
    cat0 = B.catalog([[0, 0], [0, 0], [0, 0]], 3, 2)
    for label, fn in (('poisson CL', pe.conditional_likelihood_test), ('poisson S', pe.spatial_test), ('poisson M', pe.magnitude_test)):
        for rn0 in (numpy.zeros((3, 0)), numpy.empty((3, 0), dtype=numpy.float32)):
            r0 = guarded_timeout(20, fn, fc0, cat0, num_simulations=3, random_numbers=rn0)
            chk.count(3)
            if isinstance(r0, Raised) or [float(x) for x in r0.test_distribution] != [float(r0.observed_statistic)] * 3 or float(r0.quantile) != 1.0:
                chk.violation('%s:injected numbers for an empty catalog' % label,
                              {'got': repr(r0) if isinstance(r0, Raised) else {'dist': [float(x) for x in r0.test_distribution],
                                                                              'obs': float(r0.observed_statistic), 'quantile': float(r0.quantile)}})
                break
        chk.nontrivial('empty-injection|%s' % label)
    # ---------------------------------------------------------------- 6. determinism per seed (including 0)
    rates = numpy.array([[0.2, 0.0, 1.5], [0.7, 0.01, 0.0], [0.0, 0.3, 0.9]])
    fc = B.forecast(rates)
    wobs = [[1, 0, 2], [0, 1, 0], [0, 0, 1]]
    cat = B.catalog(wobs, 3, 3)
    import datetime
    fc_other = B.forecast(rates * 1.25 + 0.125, name='g')
    for f_ in (fc, fc_other):
        f_.start_time, f_.end_time = datetime.datetime(2020, 1, 1), datetime.datetime(2020, 1, 11)
    det_tests = [('poisson L', lambda s: pe.likelihood_test(fc, cat, num_simulations=20, seed=s)),
                 ('poisson CL', lambda s: pe.conditional_likelihood_test(fc, cat, num_simulations=20, seed=s)),
                 ('poisson S', lambda s: pe.spatial_test(fc, cat, num_simulations=20, seed=s)),
                 ('poisson M', lambda s: pe.magnitude_test(fc, cat, num_simulations=20, seed=s)),
                 ('binary S', lambda s: be.binary_spatial_test(fc, cat, num_simulations=20, seed=s)),
                 ('binary CL', lambda s: be.binary_conditional_likelihood_test(fc, cat, num_simulations=20, seed=s)),
                 ('brier', lambda s: br.brier_score_test(fc, cat, num_simulations=20, seed=s))]
    # catalog-based resampling tests
    from vh.drivers.c13 import World, build_forecast, observed_catalog
    world = World()
    cats = [[{'u': 1, 'b': 1, 'm': True, 's': True}, {'u': 2, 'b': 2, 'm': True, 's': True}],
            [{'u': 3, 'b': 4, 'm': True, 's': True}], [{'u': 4, 'b': 3, 'm': True, 's': True}, {'u': 5, 'b': 1, 'm': True, 's': True}]]
    import os
    obs = observed_catalog(world)

    def cat_test(fn):
        def run_(s):
            f = build_forecast(world, {'src': 'list', 'filt': False, 'spat': False}, cats, os.path.join(chk.tmp, 'x.csv'))
            return fn(f, obs, seed=s)
        return run_
    det_tests += [('catalog resampled M', cat_test(ce.resampled_magnitude_test)), ('catalog MLL', cat_test(ce.MLL_magnitude_test))]
    for name, fn in det_tests:
        for s in (0, 1, 2 ** 32 - 1):
            runs = []
            for pre in (123, 456):
                numpy.random.seed(pre)          # different generator state before the call: the seed must override it
                if pre == 456:
                    # ... and comparative tests ran on the same forecast object in between (they only read it)
                    guarded(pe.paired_t_test, fc, fc_other, cat, scale=True)
                    guarded(be.binary_paired_t_test, fc_other, fc, cat, scale=True)
                    guarded(pe.w_test, fc, fc_other, cat, scale=True)
                # (the second run passes the same seed as a numpy integer - an element of an array of seeds)
                r_ = guarded_timeout(10, fn, s if pre == 123 else (numpy.int64(s) if s % 2 else numpy.arange(s, s + 1, dtype=numpy.uint32)[0]))
                chk.count()
                runs.append('raised' if isinstance(r_, Raised) else digest(r_))
            add_trace(base_trace(kind='det', runs=runs), {'label': 'determinism', 'test': name, 'seed': s, 'runs': runs}, False)
            chk.nontrivial('det|%s|%d' % (name, s))

    # ---------------------------------------------------------------- 7. TLC validation
    import copy
    for traces, meta, cfg, nm in ((traces_exact, meta_exact, 'TraceExact_InvCdfSim.cfg', 'exact'),
                                  (traces_round, meta_round, 'Trace_InvCdfSim.cfg', 'rounded')):
        if not traces:
            continue
        src = next(i for i, t in enumerate(traces) if t['kind'] == 'poisson' and t['draws'] and sum(t['result']) == 1 and t['n'] >= 2)
        bad = copy.deepcopy(traces[src])
        j = bad['result'].index(1)
        bad['result'][j] = 0
        bad['result'][(j + 1) % bad['n']] = 1
        bad['zero'] = [0] * bad['n']
        acc, rej = chk.validate_traces('TraceInvCdfSim', cfg, traces + [bad], chunk=1500, timeout=1800)
        chk.traces -= len([i for i in acc if i >= len(traces)])
        chk.control('trace(%s): event moved to the neighbouring bin rejected' % nm, len(traces) in {i for i, _ in rej})
        for i, diag in rej:
            if i >= len(traces):
                continue
            m = meta[i]
            tr = traces[i]
            if tr['kind'] == 'det':
                sig = 'determinism:%s:seed=%s' % (m['test'], m['seed'])
            elif tr['kind'] == 'quantile':
                sig = 'quantile:%s' % m['module']
            else:
                k = diag[-1]['explained_events'] if diag else 0
                d = tr['draws'][min(k, len(tr['draws']) - 1)] if tr['draws'] else None
                cls = 'none' if d is None else ('near-boundary' if d['near'] or (d['u'] >= 0 and d['u'] % 4 != 2) else 'interior')
                zero_hit = any(tr['zero'][b] and tr['result'][b] for b in range(tr['n']))
                sig = '%s:%s:%s:%s%s' % (tr['kind'], m.get('module'), m['label'], cls, ':zero-rate-bin-hit' if zero_hit else '')
                m = dict(m, first_unexplained_draw=d, placed_bins=[b + 1 for b in range(tr['n']) if tr['result'][b]][:20], target=tr['target'])
            chk.violation(sig, m)
    chk.sample({'trace': {k: (v if k != 'draws' else v[:4]) for k, v in traces_round[0].items()}})
    if traces_exact:
        chk.sample({'exact_trace': {k: (v if k != 'draws' else v[:4]) for k, v in traces_exact[0].items()}})
    chk.notes['traces_exact'] = len(traces_exact)
    chk.notes['traces_rounded'] = len(traces_round)
    chk.assume('number of cells to activate <= number of positive-rate bins (otherwise no sampler can satisfy the property)')
    chk.assume('within (n+4)*4 ulps of a cumulative boundary of an inexact cumulative array either adjacent positive-rate bin '
               'is accepted; with dyadic rates and a power-of-two total the placement is strict everywhere')
