"""X14 (extension, not a listed property) - first_nonnan / last_nonnan, the row scans behind a Cartesian region's index map.

spec/NonNanScan.tla   the two scans as cursors moving in from both ends of a row over {not-a-number, 0, 1, infinity}, one entry per
        step, each stopping at the first ordinary value or leaving the row with -1.  NoneIffAllNan, Extremes (both indices point
        at present entries and bracket every present entry), Ordered, Mirror (last = n - 1 - first of the reversed row),
        NothingSkipped over all rows of <= 5 entries (10 183 states).  MCbug (0 treated as absent - a truthiness test instead of
        x == x) must be refuted by Extremes.
spec -> code   GenNonNanScan: all 1 365 rows with both indices, executed on the real functions: each row alone (axis 0, float64 and
        float32, +0 / -0 and +inf / -inf as realisations of the abstract values) and all rows of one length stacked into a matrix,
        scanned along axis 1 and - transposed, so on a non-contiguous view - along axis 0, with a second invalid_val.
code -> spec   rows recorded from the index maps of real CartesianGrid2D regions (random subsets of a 5 x 4 lattice; absent cells are
        not-a-number there and cell number 0 is the value 0), abstracted and decided by TLC's table: the real scans must agree,
        alone and on the whole map, and must end at the westmost / eastmost cell of that latitude row of the region.
"""
import random

from vh.core import MachineryError, guarded, Raised


def run(chk, replay=None):
    import numpy
    from csep.utils import calc
    quick = chk.tier == 'quick'
    chk.rule = ('cases = every row of <= 5 entries over {nan, 0, 1, inf} from TLC, alone and stacked by length. non-trivial = distinct '
                'rows with not-a-number on both sides of a present entry, or with none present')
    res = chk.tlc('NonNanScan', 'MC_NonNanScan.cfg', timeout=900)
    chk.require_coverage(res, ['Extend', 'Start', 'StepL', 'StepR', 'Finish'])
    r = chk.tlc('NonNanScan', 'MCbug_NonNanScan.cfg', expect='any', coverage=False, count_states=False)
    chk.control('model MCbug_NonNanScan.cfg refuted', r.violated == 'Extremes')
    res = chk.tlc('GenNonNanScan', 'Gen_NonNanScan.cfg', workers=1, coverage=False, count_states=False, timeout=900)
    cases = res.tagged.get('CASE', [])
    if len(cases) != 1365:
        raise MachineryError('Gen produced %d cases' % len(cases))
    nan, inf = float('nan'), float('inf')
    REAL = [{'nan': nan, 'zero': 0.0, 'one': 1.5, 'inf': inf}, {'nan': nan, 'zero': -0.0, 'one': -2.0, 'inf': -inf},
            {'nan': nan, 'zero': 0.0, 'one': 5e-324, 'inf': 1.7e308}]

    def realise(row, variant, dtype):
        m = REAL[variant % len(REAL)]
        if dtype == 'float32' and variant % len(REAL) == 2:
            m = REAL[0]
        return numpy.array([m[v] for v in row], dtype=dtype)

    def call(fn, arr, **kw):
        with numpy.errstate(all='ignore'):
            out = guarded(fn, arr, **kw)
        chk.count()
        return out

    def check_single(case, variant, dtype):
        row = case['row']
        if not row:
            return None          # an empty row has no argmax: outside the helper's use (rows of an index map are never empty)
        arr = realise(row, variant, dtype)
        keep = arr.copy()
        for name, fn, want in (('first', calc.first_nonnan, case['first']), ('last', calc.last_nonnan, case['last'])):
            got = call(fn, arr)
            if isinstance(got, Raised):
                return {'why': name + ' raised', 'err': repr(got)}
            g = numpy.asarray(got)
            if g.size != 1 or int(g.reshape(-1)[0]) != want:
                return {'why': name + ' index', 'got': g.tolist(), 'expected': want}
        if not numpy.array_equal(arr, keep, equal_nan=True):
            return {'why': 'the row was modified'}
        return None

    def check_matrix(group, variant, dtype, invalid):
        mat = numpy.array([realise(c['row'], variant + i, dtype) for i, c in enumerate(group)], dtype=dtype)
        wf = [c['first'] if c['first'] >= 0 else invalid for c in group]
        wl = [c['last'] if c['last'] >= 0 else invalid for c in group]
        for label, a, axis in (('axis 1', mat, 1), ('axis 0 of the transposed view', mat.T, 0)):
            for name, fn, want in (('first', calc.first_nonnan, wf), ('last', calc.last_nonnan, wl)):
                got = call(fn, a, axis=axis, invalid_val=invalid)
                if isinstance(got, Raised):
                    return {'why': name + ' raised along ' + label, 'err': repr(got)}
                g = numpy.asarray(got).reshape(-1).tolist()
                if [int(x) for x in g] != want:
                    k = next((i for i, (x, y) in enumerate(zip(g, want)) if int(x) != y), None)
                    return {'why': name + ' index along ' + label, 'row': group[k]['row'] if k is not None else None,
                            'got': g[k] if k is not None else len(g), 'expected': want[k] if k is not None else len(want)}
        return None

    from csep.core.regions import CartesianGrid2D
    table = {tuple(c['row']): (c['first'], c['last']) for c in cases}

    def check_region(cells, anchor):
        lon0, lat0, dh = anchor
        origins = numpy.array([(lon0 + i * dh, lat0 + j * dh) for i, j in cells])
        region = CartesianGrid2D.from_origins(origins, dh=dh)
        amap = numpy.asarray(region.idx_map, dtype=float)
        if amap.ndim != 2 or amap.shape[1] > 5:
            raise MachineryError('index map of shape %r' % (amap.shape,))
        ro = region.origins()
        f_all = call(calc.first_nonnan, amap, axis=1)
        l_all = call(calc.last_nonnan, amap, axis=1)
        good, bads = 0, []
        for j in range(amap.shape[0]):
            row = amap[j, :]
            abstract = tuple('nan' if v != v else ('zero' if v == 0 else 'one') for v in row.tolist())
            want = table[abstract]
            g1, g2 = call(calc.first_nonnan, row), call(calc.last_nonnan, row)
            got = None if isinstance(g1, Raised) or isinstance(g2, Raised) else (int(numpy.asarray(g1).reshape(-1)[0]), int(numpy.asarray(g2).reshape(-1)[0]))
            got_m = None if isinstance(f_all, Raised) or isinstance(l_all, Raised) else (int(numpy.asarray(f_all).reshape(-1)[j]), int(numpy.asarray(l_all).reshape(-1)[j]))
            bad = None
            if got != want or got_m != want:
                bad = {'why': 'recorded row decided differently', 'row': list(abstract), 'got': got, 'got_matrix': got_m, 'expected': list(want)}
            elif want[0] >= 0:
                # the cells the indices point at are the westmost / eastmost cell of that latitude row of the region
                lat = ro[int(row[want[0]])][1]
                same = [k for k in range(len(ro)) if abs(ro[k][1] - lat) < dh / 4]
                west = min(same, key=lambda k: ro[k][0])
                east = max(same, key=lambda k: ro[k][0])
                if int(row[want[0]]) != west or int(row[want[1]]) != east:
                    bad = {'why': 'scan does not end at the westmost / eastmost cell of the row', 'row': row.tolist(), 'west': west, 'east': east}
            if bad:
                bads.append(bad)
            else:
                good += 1
                if want[0] >= 0 and abstract[want[0]] == 'zero':
                    chk.nontrivial('recorded:' + ','.join(abstract))
        return good, bads

    if replay:
        d = replay['detail']
        if d['kind'] == 'recorded':
            n, bads = check_region([tuple(c) for c in d['cells']], tuple(d['anchor']))
            for bad in bads[:1]:
                chk.violation(replay['signature'], dict(d, mismatch=bad))
            chk.sample({'replayed': 'recorded rows of a region of %d cells' % len(d['cells'])})
            return
        if d['kind'] == 'single':
            bad = check_single(d['case'], d['variant'], d['dtype'])
        else:
            bad = check_matrix(d['group'], d['variant'], d['dtype'], d['invalid'])
        if bad:
            chk.violation(replay['signature'], dict(d, mismatch=bad))
        chk.sample({'replayed': d['kind']})
        return

    ok = 0
    for ci, case in enumerate(cases):
        row = case['row']
        present = [i for i, v in enumerate(row) if v != 'nan']
        if not present or (present and present[0] > 0 and present[-1] < len(row) - 1):
            chk.nontrivial(','.join(row))
        for variant, dtype in ((ci, 'float64'), (ci + 1, 'float32')) + (() if quick else ((ci + 2, 'float64'),)):
            bad = check_single(case, variant, dtype)
            if bad:
                cls = 'all-nan' if not present else ('zero-at-end' if row[present[0]] == 'zero' or row[present[-1]] == 'zero' else 'ordinary')
                chk.violation('scan:%s:%s' % (bad['why'], cls), {'kind': 'single', 'case': case, 'variant': variant, 'dtype': dtype, 'mismatch': bad})
            else:
                ok += 1
        if ci in (30, 900):
            chk.sample({'case': case})
    rng = random.Random(chk.seed * 7919 + 14)
    for n in range(1, 6):
        group = [c for c in cases if len(c['row']) == n]
        for rep in range(2 if quick else 6):
            g = list(group)
            rng.shuffle(g)
            for dtype, invalid in (('float64', -1), ('float32', -7)):
                bad = check_matrix(g, rep, dtype, invalid)
                if bad:
                    chk.violation('scan-matrix:%s' % bad['why'], {'kind': 'matrix', 'group': g, 'variant': rep, 'dtype': dtype, 'invalid': invalid, 'mismatch': bad})
                else:
                    ok += 1
    chk.traces += ok

    # ---- code -> spec: rows recorded from the index maps of real regions, decided by the table TLC enumerated.  In an index map
    #      absent cells are not-a-number and cell number 0 is the value 0: the pitfall the specification names.
    rrng = random.Random(chk.seed * 7919 + 1414)
    recorded = 0
    for rep in range(40 if quick else 400):
        anchor = rrng.choice([(0.0, 0.0, 0.1), (-125.4, 31.5, 0.1), (10.0, 40.0, 1.0), (-2.0, -1.0, 0.5)])
        cells = [(i, j) for i in range(5) for j in range(4) if rrng.random() < 0.55]
        if not cells:
            continue
        rrng.shuffle(cells)
        n, bads = check_region(cells, anchor)
        recorded += n
        for bad in bads:
            chk.violation('scan-recorded:%s' % bad['why'], {'kind': 'recorded', 'cells': cells, 'anchor': list(anchor), 'mismatch': bad})
    if recorded < 20:
        raise MachineryError('only %d rows recorded from real index maps' % recorded)
    chk.traces += recorded
    ctl = dict(next(c for c in cases if c['row'] == ['nan', 'zero', 'one', 'nan']))
    ctl['first'] = 2
    ctl2 = dict(ctl, first=0)
    # two different wrong expectations: whatever the code returns, at least one of them must be flagged (a live comparison)
    chk.control('gen: a wrong first index flagged',
                check_single(ctl, 0, 'float64') is not None or check_single(ctl2, 0, 'float64') is not None)
    chk.exhaustive = True
    chk.assume('the empty row is not executed (numpy has no argmax of an empty axis; rows of an index map are never empty)')
