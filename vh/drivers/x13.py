"""X13 (extension, not a listed property) - refinement of a Cartesian region (increase_grid_resolution).

spec/GridRefine.tla   the recursion as a machine with one action per level and per exit (Return at factor 1, Reject for an odd
        factor or one below 1 - so 6 is rejected one level down and 12 two levels down -, Halve: every origin replaced by the
        origins of its four quarters).  Tiling (at every level each fine unit of a parent cell lies in exactly one cell and
        nothing outside does), CountLaw, OnLattice, SpacingLaw, AcceptsExactlyPowersOfTwo, KeepsParentOrigins, NeverStuck over
        all 31 non-empty sets of 5 lattice cells x 9 factors (837 states).  MCbug (quarters placed at h instead of h/2) must be
        refuted by Tiling.
spec -> code   GenGridRefine: all 279 finished runs with the outcome and the refined origins TLC computed, replayed on the real
        function at several anchors and spacings (the anchors where the code's "- machine epsilon" survives the addition
        included): AssertionError exactly where the specification rejects, otherwise the same set of origins (no duplicate, none
        missing, to 1e-12), factor 1 handing back its argument; and the refined origins built into a real CartesianGrid2D of
        spacing dh / factor must locate the midpoint of every fine cell in a cell of its own (a bijection) and a point of an
        absent parent cell nowhere.  The same laws are then read off the built-in regions that call the routine (dh_scale 2, thorough
        also 4, on the regions whose template loads): 4 (16) fine cells in every parent cell, each holding its own midpoint.
"""
import random

from vh.core import MachineryError, guarded, Raised

ANCHORS = [(0.0, 0.0, 0.1), (-125.4, 31.5, 0.1), (10.0, 40.0, 1.0), (-0.2, -0.2, 0.2), (5.0, 35.0, 0.5), (-179.0, -60.0, 0.25)]


def run(chk, replay=None):
    import numpy
    from csep.core import regions
    from csep.core.regions import CartesianGrid2D
    quick = chk.tier == 'quick'
    chk.rule = ('cases = every finished run of GridRefine (31 sets of parent cells x factors -2, 0, 1, 2, 3, 4, 6, 8, 12) from TLC x '
                'anchors (quick: 2 of 6 per case). non-trivial = distinct cases with several parent cells and a factor >= 4, or '
                'a rejection below the first level (6, 12)')
    res = chk.tlc('GridRefine', 'MC_GridRefine.cfg', timeout=900)
    chk.require_coverage(res, ['Return', 'Reject', 'Halve'])
    r = chk.tlc('GridRefine', 'MCbug_GridRefine.cfg', expect='any', coverage=False, count_states=False)
    chk.control('model MCbug_GridRefine.cfg refuted', r.violated == 'Tiling')
    res = chk.tlc('GenGridRefine', 'Gen_GridRefine.cfg', workers=1, coverage=False, count_states=False, timeout=900)
    cases = res.tagged.get('CASE', [])
    if len(cases) != 279:
        raise MachineryError('Gen produced %d cases' % len(cases))

    def check_case(case, anchor, mutate=None):
        lon0, lat0, dh = anchor
        U = case['u']
        parents = [tuple(p) for p in case['parents']]
        pts = [(lon0 + i * dh, lat0 + j * dh) for i, j in parents]
        given = list(pts)
        f0 = case['f0']
        out = guarded(regions.increase_grid_resolution, pts, dh, f0)
        chk.count()
        if given != pts:
            return {'why': 'the argument was modified'}
        if case['st'] == 'error':
            if isinstance(out, Raised) and out.text.startswith('AssertionError'):
                return None
            return {'why': 'expected AssertionError', 'got': repr(out)[:200]}
        if isinstance(out, Raised):
            return {'why': 'raised', 'err': repr(out)}
        if f0 == 1 and out is not pts:
            return {'why': 'factor 1 did not hand back its argument'}
        out = [tuple(float(v) for v in p) for p in out]
        if mutate:
            out = mutate(out)
        fine = dh / U
        want = sorted((lon0 + x * fine, lat0 + y * fine) for x, y in case['pts'])
        if len(out) != len(want):
            return {'why': 'number of origins', 'got': len(out), 'expected': len(want)}
        # pair each expected origin with the nearest returned one: a bijection within 1e-12
        tol = 1e-12
        key = lambda p: (round((p[0] - lon0) / fine), round((p[1] - lat0) / fine))
        got = {}
        for p in out:
            k = key(p)
            if k in got:
                return {'why': 'duplicate origin', 'origin': p}
            got[k] = p
        for x, y in case['pts']:
            p = got.get((x, y))
            if p is None:
                return {'why': 'origin missing', 'expected': (lon0 + x * fine, lat0 + y * fine)}
            if abs(p[0] - (lon0 + x * fine)) > tol or abs(p[1] - (lat0 + y * fine)) > tol:
                return {'why': 'origin displaced', 'got': p, 'expected': (lon0 + x * fine, lat0 + y * fine)}
        # the refined origins as a real region of spacing dh / factor
        ndh = dh / f0
        region = guarded(CartesianGrid2D.from_origins, numpy.array(out), dh=ndh)
        if isinstance(region, Raised):
            return {'why': 'region from the refined origins raised', 'err': repr(region)}
        if region.num_nodes != len(want):
            return {'why': 'cells of the refined region', 'got': int(region.num_nodes), 'expected': len(want)}
        h = case['h']
        mids = numpy.array([(lon0 + (x + h / 2.0) * fine, lat0 + (y + h / 2.0) * fine) for x, y in case['pts']])
        idx = guarded(region.get_index_of, mids[:, 0], mids[:, 1])
        chk.count()
        if isinstance(idx, Raised):
            return {'why': 'midpoint of a fine cell not located', 'err': repr(idx)}
        idx = numpy.asarray(idx).reshape(-1).tolist()
        if sorted(idx) != list(range(len(want))):
            return {'why': 'midpoints of the fine cells do not map one-to-one onto the cells'}
        orig = region.origins()
        for m, i in zip(mids.tolist(), idx):
            if not (abs(orig[i][0] + ndh / 2 - m[0]) < 1e-9 and abs(orig[i][1] + ndh / 2 - m[1]) < 1e-9):
                return {'why': 'midpoint located in a cell that does not contain it', 'midpoint': m, 'cell': orig[i].tolist()}
        absent = [(i, j) for i in range(3) for j in range(2) if (i, j) not in parents]
        for i, j in absent:
            o = guarded(region.get_index_of, [lon0 + (i + 0.5) * dh + ndh / 4], [lat0 + (j + 0.5) * dh + ndh / 4])
            if not isinstance(o, Raised):
                return {'why': 'a point of an absent parent cell was located', 'cell': (i, j), 'got': repr(o)}
        return None

    # ---- the same laws on the built-in regions that go through the routine (dh_scale): Tiling and CountLaw on production grids
    def check_builtin(name, scale):
        fn = getattr(regions, name, None)
        if fn is None:
            return 'skip'
        base = guarded(fn)
        if isinstance(base, Raised):
            return 'skip'          # the template file of this region is not readable in this tree: nothing to refine
        fine = guarded(fn, dh_scale=scale)
        chk.count()
        if isinstance(fine, Raised):
            return {'why': 'built-in region with dh_scale raised', 'err': repr(fine)}
        if fine.num_nodes != base.num_nodes * scale * scale:
            return {'why': 'cells of the refined built-in region', 'got': int(fine.num_nodes), 'expected': int(base.num_nodes * scale * scale)}
        if abs(fine.dh - base.dh / scale) > 1e-12:
            return {'why': 'spacing of the refined built-in region', 'got': float(fine.dh), 'expected': float(base.dh / scale)}
        fo = fine.origins()
        mids = fo + fine.dh / 2.0
        own = guarded(fine.get_index_of, mids[:, 0], mids[:, 1])
        if isinstance(own, Raised) or not numpy.array_equal(numpy.asarray(own), numpy.arange(fine.num_nodes)):
            return {'why': 'a fine cell of the built-in region does not hold its own midpoint', 'got': repr(own)[:120]}
        par = guarded(base.get_index_of, mids[:, 0], mids[:, 1])
        chk.count()
        if isinstance(par, Raised):
            return {'why': 'a fine cell of the built-in region lies outside every parent cell', 'err': repr(par)}
        per = numpy.bincount(numpy.asarray(par), minlength=base.num_nodes)
        if not (per == scale * scale).all():
            k = int(numpy.argmax(per != scale * scale))
            return {'why': 'fine cells per parent cell', 'parent': base.origins()[k].tolist(), 'got': int(per[k]), 'expected': scale * scale}
        return None

    if replay:
        d = replay['detail']
        if 'region' in d:
            bad = check_builtin(d['region'], d['scale'])
            if bad and bad != 'skip':
                chk.violation(replay['signature'], dict(d, mismatch=bad))
            chk.sample({'replayed': d['region'], 'scale': d['scale']})
            return
        bad = check_case(d['case'], tuple(d['anchor']))
        if bad:
            chk.violation(replay['signature'], dict(d, mismatch=bad))
        chk.sample({'replayed': d['case']['parents'], 'factor': d['case']['f0']})
        return

    ok = 0
    for ci, case in enumerate(cases):
        pick = random.Random(chk.seed * 7919 + 13 * 1000 + ci)
        anchors = pick.sample(ANCHORS, 2) if quick else ANCHORS
        if len(case['parents']) > 1 and (case['f0'] in (4, 8) or case['f0'] in (6, 12)):
            chk.nontrivial('%s x %s' % (case['parents'], case['f0']))
        for anchor in anchors:
            bad = check_case(case, anchor)
            if bad:
                cls = 'rejected' if case['st'] == 'error' else ('factor-1' if case['f0'] == 1 else 'refined')
                chk.violation('refine:%s:%s' % (bad['why'], cls), {'case': case, 'anchor': list(anchor), 'mismatch': bad})
            else:
                ok += 1
        if ci in (40, 200):
            chk.sample({'case': {k: v for k, v in case.items() if k != 'pts'}, 'origins': len(case['pts'])})
    chk.traces += ok

    builtins = ['nz_csep_region', 'california_relm_collection_region', 'italy_csep_collection_region', 'nz_csep_collection_region',
                'california_relm_region', 'italy_csep_region']
    done = 0
    for name in (builtins[:2] if quick else builtins):
        for scale in ((2,) if quick else (2, 4)):
            bad = check_builtin(name, scale)
            if bad == 'skip':
                continue
            if bad:
                chk.violation('refine-builtin:%s' % bad['why'], {'region': name, 'scale': scale, 'mismatch': bad})
            else:
                done += 1
                chk.traces += 1
    if done:
        chk.nontrivial('built-in regions refined: %d' % done)
    ctl = next(c for c in cases if c['f0'] == 4 and len(c['parents']) == 2)
    # (both controls corrupt the returned origins in two different ways: at least one is flagged whatever the code returned)
    chk.control('gen: a lost origin flagged', check_case(ctl, ANCHORS[0], mutate=lambda o: o[:-1]) is not None
                or check_case(ctl, ANCHORS[0], mutate=lambda o: o[:-2]) is not None)
    chk.control('gen: a displaced origin flagged',
                check_case(ctl, ANCHORS[2], mutate=lambda o: [(o[0][0] + 0.125, o[0][1])] + o[1:]) is not None)
    chk.exhaustive = True
    chk.assume('origins compared to 1e-12 degrees (the code subtracts machine epsilon from three of the four quarter origins)')
