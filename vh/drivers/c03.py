"""C03 - gridding a catalog counts every event exactly once, in its own cell and bin.

spec/Gridding.tla   TLC: ImplMatchesSpec (the library's accumulation algorithm - add.at, negative-index wrap, explicit -1
        check, quadtree lookup returning matches only - equals the definition), Conservation, Marginals,
        OccupancyIffPositive, BinEqualsFilter, NoSilentMisplacement, OrderIrrelevant, for all catalogs of <= 3 (4)
        events over (cell | outside) x (bin | below-minimum); two constants re-create repaired defects (must be refuted)
gen -> code   every abstract catalog realised on Cartesian regions (holes, flags, shipped NZ) and quadtree grids, with
        explicit and region-bound magnitude grids
code -> spec  random catalogs of 0..500 events; sparse counts returned by the library validated by TLC (TraceGridding)
"""
import random
from fractions import Fraction

from vh.core import MachineryError, guarded, Raised


class World:
    """A concrete region + magnitude grid, with maps abstract cell / bin -> concrete."""

    def __init__(self, name, region, cell_box, outside_pts, edges, bound, cells=None, bins=None, quad=False):
        self.name = name
        self.region = region
        self.cell_box = cell_box          # idx -> (lon0, lat0, lon1, lat1) half-open box of cell idx
        self.outside = outside_pts        # list of (lon, lat) outside the region
        self.edges = [float(e) for e in edges]
        self.bound = bound                # magnitudes bound to the region (else passed explicitly)
        self.cells = cells                # abstract cell 1,2 -> concrete idx
        self.bins = bins                  # abstract bin 1,2 -> concrete bin index
        self.quad = quad
        self.ncells = region.num_nodes
        self.valid = list(range(self.ncells))

    def point(self, idx, variant):
        lon0, lat0, lon1, lat1 = self.cell_box[idx]
        fx, fy = [(0.0, 0.0), (0.5, 0.5), (0.93, 0.07), (0.0, 0.6), (0.37, 0.0), (0.11, 0.89)][variant % 6]
        return (lon0 + fx * (lon1 - lon0), lat0 + fy * (lat1 - lat0))

    def mag(self, b, variant):
        """concrete magnitude for concrete bin b (-1 = below minimum); top bin is open-ended."""
        e = self.edges
        # (a magnitude of 1e10 is a legal member of the open-ended top bin; one a millionth below the lowest edge is below it, far
        #  outside any round-off allowance - whatever else the catalog holds)
        if b < 0:
            return e[0] - [0.3, 0.05, 1.7, 1e-6][variant % 4]
        if b == len(e) - 1:
            return e[b] + [0.0, 0.03, 0.9, 2.5][variant % 4] if variant % 5 else 1e10
        w = e[b + 1] - e[b]
        return e[b] + [0.0, 0.5, 0.3, 0.8][variant % 4] * w


def make_worlds(numpy, regions, quick, rng):
    from csep.core.regions import CartesianGrid2D, QuadtreeGrid2D, compute_vertices
    from csep.models import Polygon
    from csep.utils.calc import cleaner_range
    worlds = []
    mags_a = cleaner_range(5.95, 8.95, 0.1)
    mags_b = numpy.array([4.0, 5.0, 6.0])
    mags_c = cleaner_range(2.5, 9.0, 0.1)
    # W1: 3x3 lattice with a hole, from_origins
    dh = 0.1
    org = [(float(Fraction('-125.4') + i * Fraction('0.1')), float(Fraction('31.5') + j * Fraction('0.1')))
           for j in range(3) for i in range(3) if (i, j) != (1, 1)]
    r = CartesianGrid2D.from_origins(numpy.array(org), dh=dh, magnitudes=mags_a)
    boxes = {q: (o[0], o[1], o[0] + dh, o[1] + dh) for q, o in enumerate(org)}
    hole = (float(Fraction('-125.25')), float(Fraction('31.65')))
    worlds.append(World('lattice3x3-hole/bound 5.95:8.95', r, boxes, [hole, (-120.0, 31.55), (-125.35, 20.0)], mags_a, True,
                        cells={1: 0, 2: 6}, bins={1: 3, 2: len(mags_a) - 1}))
    # the same cells listed in reverse order: a second region for re-binding a catalog that was already gridded
    org_r = org[::-1]
    r_alt = CartesianGrid2D.from_origins(numpy.array(org_r), dh=dh, magnitudes=mags_a)
    boxes_r = {q: (o[0], o[1], o[0] + dh, o[1] + dh) for q, o in enumerate(org_r)}
    worlds[-1].alt = World('lattice3x3-hole-reversed/bound 5.95:8.95', r_alt, boxes_r, worlds[-1].outside, mags_a, True,
                           cells={1: org_r.index(org[0]), 2: org_r.index(org[6])}, bins={1: 3, 2: len(mags_a) - 1})
    # W2: flagged lattice, explicit magnitude grid
    org2 = [(float(i), float(j)) for j in range(2) for i in range(4)]
    flags = numpy.array([1, 1, 0, 1, 1, 1, 1, 0], dtype=float)
    r2 = CartesianGrid2D([Polygon(b) for b in compute_vertices(numpy.array(org2), 1.0)], 1.0, mask=flags)
    boxes2 = {q: (o[0], o[1], o[0] + 1.0, o[1] + 1.0) for q, o in enumerate(org2)}
    worlds.append(World('lattice4x2-flags/explicit 4,5,6', r2, boxes2, [(2.5, 0.5), (3.5, 1.5), (-0.5, 0.5)], mags_b, False,
                        cells={1: 1, 2: 4}, bins={1: 0, 2: 1}))
    worlds[-1].valid = [q for q in range(8) if flags[q] == 1]      # flagged-out cells are outside the region
    # W3: shipped NZ region
    nz = regions.nz_csep_region(magnitudes=mags_c)
    o = nz.origins()
    dhn = float(nz.dh)
    boxes3 = {q: (float(o[q, 0]), float(o[q, 1]), float(o[q, 0]) + dhn, float(o[q, 1]) + dhn) for q in range(o.shape[0])}
    worlds.append(World('nz/bound 2.5:9.0', nz, boxes3, [(150.0, -40.0), (175.0, -60.0)], mags_c, True,
                        cells={1: 17, 2: o.shape[0] - 5}, bins={1: 0, 2: 40}))
    # W4: quadtree, single resolution
    qt = QuadtreeGrid2D.from_single_resolution(2, magnitudes=mags_b)
    boxes4 = {q: tuple(float(x) for x in qt.bounds[q]) for q in range(qt.num_nodes)}
    worlds.append(World('quadtree-z2/bound 4,5,6', qt, boxes4, [(10.0, 88.0), (-100.0, -89.0)], mags_b, True,
                        cells={1: 5, 2: 12}, bins={1: 1, 2: 2}, quad=True))
    qk_r = [str(q) for q in qt.quadkeys][::-1]
    qt_alt = QuadtreeGrid2D.from_quadkeys(qk_r, magnitudes=mags_b)
    boxes4r = {q: tuple(float(x) for x in qt_alt.bounds[q]) for q in range(qt_alt.num_nodes)}
    worlds[-1].alt = World('quadtree-z2-reversed/bound 4,5,6', qt_alt, boxes4r, worlds[-1].outside, mags_b, True,
                           cells={1: qk_r.index(str(qt.quadkeys[5])), 2: qk_r.index(str(qt.quadkeys[12]))}, bins={1: 1, 2: 2}, quad=True)
    if True:      # (explicit magnitude grid on a quadtree region without bound magnitudes: found a defect in the thorough tier)
        qt3 = QuadtreeGrid2D.from_single_resolution(3)
        boxes5 = {q: tuple(float(x) for x in qt3.bounds[q]) for q in range(qt3.num_nodes)}
        worlds.append(World('quadtree-z3/explicit 5.95:8.95', qt3, boxes5, [(0.0, 86.0)], mags_a, False,
                            cells={1: 0, 2: 63}, bins={1: 0, 2: 7}, quad=True))
    # W6: a magnitude grid whose edges need three decimals (step 1/8), bound to a region after construction with the shared
    # helper (the way GriddedForecast binds its magnitudes)
    from csep.core.regions import create_space_magnitude_region
    mags_d = numpy.array([4.125 + 0.125 * i for i in range(6)])
    org6 = [(float(i) * 0.5, 10.0 + 0.5 * j) for j in range(2) for i in range(3)]
    r6 = create_space_magnitude_region(CartesianGrid2D.from_origins(numpy.array(org6), dh=0.5), mags_d)
    boxes6 = {q: (o[0], o[1], o[0] + 0.5, o[1] + 0.5) for q, o in enumerate(org6)}
    worlds.append(World('lattice3x2/bound-after-construction 4.125:4.75 step 1/8', r6, boxes6, [(-0.3, 10.2), (0.7, 11.5)], mags_d, True,
                        cells={1: 1, 2: 5}, bins={1: 2, 2: 5}))
    # W8: a quadtree grid that does not fill its bounding box (three tiles of an L; the fourth is not part of the grid): an event in
    # the missing tile is inside the box and in no cell
    import mercantile
    qk_l = ['121', '120', '123']
    qt_l = QuadtreeGrid2D.from_quadkeys(qk_l, magnitudes=mags_b)
    boxes8 = {q: tuple(float(x) for x in qt_l.bounds[q]) for q in range(qt_l.num_nodes)}
    hole = mercantile.bounds(mercantile.quadkey_to_tile('122'))
    inside_hole = [((hole.west + hole.east) / 2, (hole.south + hole.north) / 2), (hole.west + 0.25 * (hole.east - hole.west), hole.south + 1.0)]
    worlds.append(World('quadtree-L-of-three-tiles/bound 4,5,6', qt_l, boxes8, inside_hole, mags_b, True,
                        cells={1: 0, 2: 2}, bins={1: 0, 2: 2}, quad=True))
    # W7: a lattice whose origins have one more decimal than its spacing (x.x5 at 0.1 deg), built - with its magnitude grid -
    # while the embedding program has a coarse decimal context and terse numpy print options set
    from vh.core import other_surroundings
    org7 = [(float(Fraction('-124.65') + i * Fraction('0.1')), float(Fraction('35.25') + j * Fraction('0.1'))) for j in range(2) for i in range(3)]
    with other_surroundings():
        mags_e = regions.magnitude_bins(4.05, 5.05, 0.25)
        r7 = CartesianGrid2D.from_origins(numpy.array(org7), dh=0.1, magnitudes=mags_e)
    boxes7 = {q: (o[0], o[1], o[0] + 0.1, o[1] + 0.1) for q, o in enumerate(org7)}
    worlds.append(World('lattice3x2-halfstep/built in other surroundings 4.05:5.05 step 0.25', r7, boxes7, [(-124.7, 35.3), (-124.5, 35.5)],
                        [4.05, 4.3, 4.55, 4.8, 5.05], True, cells={1: 2, 2: 3}, bins={1: 1, 2: 4}))
    return worlds


_F4 = {}


def f4_catalog_class(numpy):
    """a catalog type whose event table holds coordinates and magnitudes in single precision (the documented way of
    defining a catalog format is to subclass and set dtype)"""
    if 'cls' not in _F4:
        from csep.core.catalogs import CSEPCatalog

        class SinglePrecisionCatalog(CSEPCatalog):
            dtype = numpy.dtype([('id', 'S256'), ('origin_time', '<i8'), ('latitude', '<f4'), ('longitude', '<f4'),
                                 ('depth', '<f4'), ('magnitude', '<f4')])
        _F4['cls'] = SinglePrecisionCatalog
    return _F4['cls']


def make_catalog(world, events, numpy, shuffle_rng=None, f4=False):
    """events = list of (concrete cell idx or -1, concrete bin or -1, variant)."""
    from csep.core.catalogs import CSEPCatalog
    if f4:
        CSEPCatalog = f4_catalog_class(numpy)
    data = []
    for i, (c, b, var) in enumerate(events):
        if c < 0:
            lon, lat = world.outside[var % len(world.outside)]
        else:
            lon, lat = world.point(c, var)
        data.append(('e%d' % i, 1000 * i, float(lat), float(lon), 10.0, float(world.mag(b, var + i))))
    cat = CSEPCatalog(data=data, region=world.region)
    return cat


def observe(world, cat, numpy):
    """All gridding observables as plain python; Raised('ValueError') -> 'rej'."""
    kw = {} if world.bound else {'mag_bins': numpy.array(world.edges)}
    out = {}
    def asked_twice(fn, **k):
        # the array a counting call hands out belongs to the caller: it is overwritten, and the call made again
        first = guarded(fn, **k)
        if not isinstance(first, Raised):
            try:
                numpy.asarray(first)[...] = -3
            except (ValueError, TypeError):
                pass
        return guarded(fn, **k)
    r = asked_twice(cat.spatial_magnitude_counts, **kw)
    out['smc'] = r
    out['sc'] = asked_twice(cat.spatial_counts)
    out['occ'] = asked_twice(cat.spatial_event_probability)
    out['mc'] = asked_twice(cat.magnitude_counts, **kw)
    # the same histogram asked for together with the bins it refers to
    rb = guarded(cat.magnitude_counts, retbins=True, **kw)
    if not isinstance(out['mc'], Raised):
        if isinstance(rb, Raised) or not (isinstance(rb, tuple) and len(rb) == 2 and numpy.array_equal(numpy.asarray(rb[1]), numpy.asarray(out['mc']))
                                           and numpy.array_equal(numpy.asarray(rb[0], dtype=float), numpy.asarray(world.edges, dtype=float))):
            out['mc'] = Raised(ValueError('magnitude_counts(retbins=True) disagrees with magnitude_counts(): %r' % (rb,)))
    filt = []
    e = world.edges
    for k in range(len(e)):
        st = ['magnitude >= %r' % e[k]] + (['magnitude < %r' % e[k + 1]] if k + 1 < len(e) else [])
        f = guarded(cat.filter, st, in_place=False)
        filt.append(-1 if isinstance(f, Raised) else int(f.event_count))
    out['filt'] = filt
    return out


def is_rejection(x):
    return isinstance(x, Raised) and x.text.startswith('ValueError')


def run(chk, replay=None):
    import numpy
    from csep.core import regions
    quick = chk.tier == 'quick'
    rng = random.Random(chk.seed + 303)
    chk.rule = ('catalogs = every sequence of <=3 (thorough 4) events over {outside, cell1, cell2} x {below-min, bin1, bin2} '
                'from TLC, realised on 4-5 region/magnitude-grid worlds with varied in-cell positions; traces = random '
                'catalogs of 0..500 events. non-trivial = distinct (world, catalog) with a duplicate bin, an outside or a '
                'below-minimum event')
    worlds = make_worlds(numpy, regions, quick, rng)

    def judge(world, case, obs):
        nb = len(world.edges)
        bad = []

        def expand_sc(v):
            a = numpy.zeros(world.ncells)
            for ca in (1, 2):
                a[world.cells[ca]] = v[ca - 1]
            return a

        def expand_mc(v):
            a = numpy.zeros(nb)
            for ka in (1, 2):
                a[world.bins[ka]] = v[ka - 1]
            return a
        # space-magnitude counts
        exp = case['smc']
        got = obs['smc']
        if exp['rej']:
            if not is_rejection(got):
                bad.append(('spatial_magnitude_counts', 'expected rejection', repr(got)[:200]))
        else:
            a = numpy.zeros((world.ncells, nb))
            for ca in (1, 2):
                for ka in (1, 2):
                    a[world.cells[ca], world.bins[ka]] = exp['v'][ca - 1][ka - 1]
            if isinstance(got, Raised) or not numpy.array_equal(numpy.asarray(got), a):
                bad.append(('spatial_magnitude_counts', 'array differs', repr(got)[:200]))
        for key, fn in (('sc', 'spatial_counts'), ('occ', 'spatial_event_probability')):
            got = obs[key]
            ok = False
            for alt in case[key]:
                if alt['rej']:
                    ok = ok or is_rejection(got)
                else:
                    ok = ok or (not isinstance(got, Raised) and numpy.array_equal(numpy.asarray(got), expand_sc(alt['v'])))
            if not ok:
                bad.append((fn, 'not an admissible outcome', repr(got)[:200]))
        got = obs['mc']
        if isinstance(got, Raised) or not numpy.array_equal(numpy.asarray(got), expand_mc(case['mc']['v'])):
            bad.append(('magnitude_counts', 'histogram differs', repr(got)[:200]))
        if obs['filt'] != [int(x) for x in expand_mc(case['filt'])]:
            bad.append(('filter', 'magnitude-range filter sizes differ', obs['filt']))
        return bad

    def compare_case(world, case, variant):
        cat_abs = case['cat']
        events = [(world.cells[c] if c else -1, world.bins[k] if k else -1, variant + 3 * i)
                  for i, (c, k) in enumerate(cat_abs)]
        # every seventh realisation stores the events in single precision (values on an edge are then below it by rounding
        # about half of the time, and must still be counted in the bin / cell the edge opens)
        f4 = (variant % 7 == 3) and not world.quad
        cat = make_catalog(world, events, numpy, f4=f4)
        obs = observe(world, cat, numpy)
        chk.count(5)
        bad = judge(world, case, obs)
        if f4 and bad:
            bad = [(fn + ' (single-precision catalog)', why, got) for fn, why, got in bad]
        alt = getattr(world, 'alt', None)
        if alt is not None and not bad:
            # the same catalog object re-bound to a region over the same cells in another order (and gridded again):
            # every event must now be counted at its cell's index in the new region
            if variant % 2 or world.quad:      # (filter_spatial does not support quadtree regions: C04's finding)
                cat.region = alt.region
            else:
                r = guarded(cat.filter_spatial, region=alt.region, in_place=False)
                if isinstance(r, Raised):
                    return [('filter_spatial', 'raised', repr(r))]
                cat.region = alt.region
            obs2 = observe(alt, cat, numpy)
            chk.count(5)
            bad = [(fn + ' after re-binding the region', why, got) for fn, why, got in judge(alt, case, obs2)]
        return bad

    res = chk.tlc('Gridding', 'MC_Gridding.cfg' if quick else 'MCT_Gridding.cfg', timeout=900)
    chk.require_coverage(res, ['Add', 'SwapAdj'])
    chk.tlc('Gridding', 'MCquad_Gridding.cfg', timeout=900)
    for cfg in ('MCbug1_Gridding.cfg', 'MCbug2_Gridding.cfg'):
        r = chk.tlc('Gridding', cfg, expect='any', coverage=False, count_states=False)
        chk.control('model %s refuted' % cfg, r.violated == 'ImplMatchesSpec')

    if replay:
        d = replay['detail']
        w = next(x for x in worlds if x.name == d['world'])
        bad = compare_case(w, d['case'], d['variant'])
        if bad:
            chk.violation(replay['signature'], dict(d, mismatches=bad))
        chk.sample({'replayed': d['case']['cat']})
        return

    res = chk.tlc('GenGridding', 'Gen_Gridding.cfg' if quick else 'GenT_Gridding.cfg', workers=1, coverage=False,
                  count_states=False, timeout=900)
    cases = res.tagged.get('CASE', [])
    if len(cases) < 800:
        raise MachineryError('Gen produced %d catalogs' % len(cases))
    nbad = 0
    vary = random.Random(chk.seed * 7919 + 3)      # pseudo-random choices (TLC emits cases in a regular order)
    for ci, case in enumerate(cases):
        for wi, w in enumerate(worlds):
            if not quick or vary.random() < 0.5 or len(case['cat']) <= 2:
                variant_ = vary.randrange(10 ** 6)
                bad = compare_case(w, case, variant_)
                cat_abs = case['cat']
                if len(set(map(tuple, cat_abs))) < len(cat_abs) or any(c == 0 or k == 0 for c, k in cat_abs):
                    chk.nontrivial('%s|%s' % (w.name, cat_abs))
                if bad:
                    nbad += 1
                    kinds = ('outside' if any(c == 0 for c, k in cat_abs) else 'inside') + '/' + \
                            ('below-min' if any(k == 0 for c, k in cat_abs) else 'in-range')
                    chk.violation('gen:%s:%s:%s' % (bad[0][0], 'quadtree' if w.quad else 'cartesian', kinds),
                                  {'world': w.name, 'case': case, 'variant': variant_, 'mismatches': bad})
        if ci in (5, 300):
            chk.sample({'abstract_catalog': case['cat'], 'expected': {k: case[k] for k in ('smc', 'sc', 'mc', 'filt')}})
    if nbad == 0:
        chk.traces += len(cases)
    # gen negative control
    ctl = next(c for c in cases if not c['smc']['rej'] and len(c['cat']) == 2)
    import copy
    b = copy.deepcopy(ctl)
    b['mc']['v'][0] += 1
    chk.control('gen: perturbed histogram flagged', bool(compare_case(worlds[0], b, 0)))

    # ---------------------------------------------------------------- code -> spec on random catalogs
    traces, meta = [], []
    n_tr = 40 if quick else 2500
    for t in range(n_tr):
        w = worlds[t % len(worlds)]
        n = rng.choice([0, 1, 2, 5, 50, 200, 500])
        p_out = rng.choice([0.0, 0.0, 0.02, 0.3])
        p_below = rng.choice([0.0, 0.0, 0.02, 0.3])
        hot = [rng.choice(w.valid) for _ in range(rng.randint(1, 12))]
        events = []
        for i in range(n):
            c = -1 if rng.random() < p_out else (rng.choice(hot) if rng.random() < 0.7 else rng.choice(w.valid))
            b = -1 if rng.random() < p_below else rng.randrange(len(w.edges))
            events.append((c, b, rng.randrange(1000)))
        cat = make_catalog(w, events, numpy)
        obs = observe(w, cat, numpy)
        chk.count(5)

        def sparse(x, two):
            if isinstance(x, Raised):
                return {'rej': 1 if x.text.startswith('ValueError') else 2, 'e': []}
            a = numpy.asarray(x)
            if two:
                nz = numpy.argwhere(a != 0)
                return {'rej': 0, 'e': [[int(i) + 1, int(j) + 1, int(a[i, j])] if float(a[i, j]).is_integer() else
                                        [int(i) + 1, int(j) + 1, -777] for i, j in nz]}
            nz = numpy.nonzero(a)[0]
            return {'rej': 0, 'e': [[int(i) + 1, int(a[i]) if float(a[i]).is_integer() else -777] for i in nz]}
        mc = obs['mc']
        tr = {'events': [[c + 1 if c >= 0 else 0, b + 1 if b >= 0 else 0] for c, b, _ in events],
              'smc': sparse(obs['smc'], True), 'sc': sparse(obs['sc'], False), 'occ': sparse(obs['occ'], False),
              'mc': {'rej': 1, 'e': []} if isinstance(mc, Raised) else
                    {'rej': 0, 'e': [int(x) if float(x).is_integer() else -777 for x in numpy.asarray(mc)]},
              'filt': obs['filt']}
        traces.append(tr)
        meta.append({'world': w.name, 'n': n, 'p_out': p_out, 'p_below': p_below, 'quad': w.quad,
                     'has_out': any(c < 0 for c, b, _ in events), 'has_below': any(b < 0 for c, b, _ in events)})
        chk.nontrivial('tr|%s|%d|%s|%s' % (w.name, n, p_out, p_below))
    src = next(i for i, t in enumerate(traces) if t['smc']['rej'] == 0 and t['smc']['e'])
    bad = copy.deepcopy(traces[src])
    bad['smc']['e'][0][2] += 1
    acc, rej = chk.validate_traces('TraceGridding', 'Trace_Gridding.cfg', traces + [bad], chunk=100)
    chk.traces -= len([i for i in acc if i >= len(traces)])
    chk.control('trace: corrupted count rejected', len(traces) in {i for i, _ in rej})
    parts = ['spatial_magnitude_counts', 'spatial_counts', 'spatial_event_probability', 'magnitude_counts', 'filter']
    for i, diag in rej:
        if i >= len(traces):
            continue
        m = meta[i]
        part = parts[diag[-1]['explained_events']] if diag else '?'
        kinds = ('outside' if m['has_out'] else 'inside') + '/' + ('below-min' if m['has_below'] else 'in-range')
        chk.violation('trace:%s:%s:%s' % (part, 'quadtree' if m['quad'] else 'cartesian', kinds),
                      dict(m, trace={k: (v if k != 'events' else v[:10]) for k, v in traces[i].items()}))
    chk.sample({'trace': {'events_head': traces[-1]['events'][:5], 'smc': traces[-1]['smc']['e'][:3], 'world': meta[-1]['world']}})
    chk.notes['worlds'] = [w.name for w in worlds]
    chk.exhaustive = True
    chk.assume('events are placed on a cell origin / bin edge or well inside (never inside a tolerance band); which '
               'cell / bin a boundary value belongs to is decided by C01 / C02')
    chk.assume('for spatial counts / occupancy an outside event may be rejected or left uncounted, never counted elsewhere')
