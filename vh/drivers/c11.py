"""C11 - gridded forecast files load into forecasts whose rate lookup matches the file; scaling is absolute.

spec/ForecastFile.tla  TLC: Load (mirror of GriddedForecast.load_ascii: first-appearance unique cells / magnitudes, reshape)
        gives LookupMatchesRow, MagsAreLowerEdges, FlagZeroOutside, NoRateLost for every lattice subset x cell order x
        1..M magnitude bins x flags.
spec/GriddedData.tla   TLC: ScaleAbsolute, ScaleLinear, MarginalsSumToTotal over all call histories <= 4; the cumulative
        variant must be refuted.
gen -> code   each abstract file written as .dat text (anchor / spacing table, lon/lat or lat/lon column order) and loaded with
        csep.load_gridded_forecast; polygon order, magnitudes, flags and get_rates at lower corners / interiors / near the
        upper edges compared with TLC's cell map and data matrix; quadtree ascii / csv loaders likewise.
code -> spec  histories of scale / scale_to_test_date / reads on real forecasts validated by TLC (TraceGriddedData).
"""
import datetime
import math
import os
import random
from fractions import Fraction

from vh.core import MachineryError, guarded, Raised, other_surroundings

TABLE = [('-125.4', '31.5', '0.1'), ('0', '0', '0.5'), ('164.5', '-47.95', '0.1'), ('-0.35', '5.95', '0.05'),
         ('100.05', '-10', '0.25'), ('-180', '-90', '2'), ('12.2', '41.8', '0.2')]
MAGS = [('5.95', '0.1'), ('4.0', '0.5'), ('2.5', '0.1'), ('4.95', '1')]


def dec(x, k, step):
    return Fraction(x) + k * Fraction(step)


def dtext(fr):
    """decimal text of an exact decimal rational"""
    s = format(float(fr), '.10f').rstrip('0').rstrip('.')
    assert Fraction(s) == fr, (s, fr)
    return s if s not in ('-0', '') else '0'


def rate_value(rid):
    v = (rid * 0.37 + 0.011) * 10 ** ((rid % 5) - 3)
    # two rates in three are short decimals; the third is a computed number that needs all 17 significant digits in the file
    return float('%.6e' % v) if rid % 3 else v / 3.0


def write_dat(path, case, tab, magtab, swap):
    x0, y0, dh = tab
    m0, dm = magtab
    lines = []
    for row in case['file']:
        i, j = row['cell']
        lon0, lon1 = dtext(dec(x0, i, dh)), dtext(dec(x0, i + 1, dh))
        lat0, lat1 = dtext(dec(y0, j, dh)), dtext(dec(y0, j + 1, dh))
        k = row['mbin']
        ma = dtext(dec(m0, k - 1, dm))
        mb = dtext(dec(m0, k, dm)) if k < case['nm'] else '10'
        sp = [lat0, lat1, lon0, lon1] if swap else [lon0, lon1, lat0, lat1]
        # the same file in three dialects of the whitespace-separated format: tabs and shortest decimals; several blanks,
        # rates in exponent notation; blanks, a leading blank, no final line break
        dialect = (len(case['file']) + case['nm'] + (1 if swap else 0)) % 3
        rate = rate_value(row['rate'])
        rtext = repr(rate) if dialect == 0 else '%.17e' % rate
        sep = ['\t', '   ', ' '][dialect]
        lines.append((' ' if dialect == 2 else '') + sep.join(sp + ['0', '30', ma, mb, rtext, str(row['flag'])]))
    with open(path, 'w') as f:
        f.write('\n'.join(lines) + ('' if dialect == 2 else '\n'))


def run(chk, replay=None):
    import numpy
    import csep
    from csep.core.forecasts import GriddedForecast
    from csep.utils import readers
    quick = chk.tier == 'quick'
    rng = random.Random(chk.seed + 1111)
    chk.rule = ('files = every (lattice subset up to 2x2 quick / 3x2 thorough, 3 cell orders, 1..M magnitude bins, <=1 flagged '
                'cell) from TLC, each written with an anchor/spacing/magnitude table in both column orders; quadtree ascii/csv '
                'files; histories = random sequences of scale / scale_to_test_date / reads. non-trivial = distinct (file, table) '
                'with a hole, a flag, a non-sorted cell order or >1 magnitude bin; distinct scaling histories with >=2 factors')
    path = os.path.join(chk.tmp, 'fc.dat')

    res = chk.tlc('ForecastFile', 'MCq_ForecastFile.cfg' if quick else 'MC_ForecastFile.cfg', timeout=2400)
    res = chk.tlc('GriddedData', 'MC_GriddedData.cfg', timeout=600)
    chk.require_coverage(res, ['DateOutside'])
    r = chk.tlc('GriddedData', 'MCbug_GriddedData.cfg', expect='any', coverage=False, count_states=False)
    chk.control('model with cumulative scaling refuted', r.violated == 'ScaleAbsolute')

    keep_alive = []

    def check_file(case, ti, mi, swap, then_load=None):
        tab, magtab = TABLE[ti % len(TABLE)], MAGS[mi % len(MAGS)]
        write_dat(path, case, tab, magtab, swap)
        if (ti + mi) % 3 == 2:
            # the embedding program changed process-wide settings (coarse decimal context, numpy print options, working
            # directory) before it loaded the file
            with other_surroundings(cwd=os.path.dirname(path)):
                fc = guarded(csep.load_gridded_forecast, path, swap_latlon=swap) if swap else guarded(csep.load_gridded_forecast, os.path.basename(path))
        else:
            fc = guarded(csep.load_gridded_forecast, path, swap_latlon=swap) if swap else guarded(csep.load_gridded_forecast, path)
        chk.count()
        if isinstance(fc, Raised):
            return {'why': 'load raised', 'err': repr(fc)}
        if then_load is not None:
            # a second file on the same cells with other magnitude bins is loaded (and kept) before the first forecast is
            # examined: what one file says must not leak into the forecast of another
            write_dat(path, case, tab, MAGS[then_load % len(MAGS)], swap)
            other = guarded(csep.load_gridded_forecast, path, swap_latlon=swap) if swap else guarded(csep.load_gridded_forecast, path)
            chk.count()
            keep_alive.append(other)
            del keep_alive[:-4]
        x0, y0, dh = tab
        m0, dm = magtab
        nm = case['nm']
        exp_mags = [float(dec(m0, k, dm)) for k in range(nm)]
        if [float(x) for x in fc.magnitudes] != exp_mags:
            return {'why': 'magnitudes', 'got': [float(x) for x in fc.magnitudes], 'expected': exp_mags}
        dhf = float(Fraction(dh))
        dmf = float(Fraction(dm))
        flagged_any = any(r_['flag'] == 0 for r_ in case['file'])
        total = 0.0
        vals = []
        for row in case['file']:
            i, j = row['cell']
            lon0, lat0 = float(dec(x0, i, dh)), float(dec(y0, j, dh))
            k = row['mbin']
            mlo = float(dec(m0, k - 1, dm))
            want = rate_value(row['rate'])
            q = case['cmap'][j][i]
            pts = [(lon0, lat0), (lon0 + 0.5 * dhf, lat0 + 0.5 * dhf), (lon0 + 0.93 * dhf, lat0 + 0.07 * dhf), (lon0, lat0 + 0.93 * dhf)]
            mgs = [mlo, mlo + 0.5 * dmf, mlo + 0.93 * dmf] + ([mlo + 3.7] if k == nm else [])
            if k < nm:
                # just below the next magnitude edge is still this row's bin (beyond the documented round-off band of ~1e-12)
                mhi = float(dec(m0, k, dm))
                mgs += [mhi - 1e-6, mhi - 3e-9]
            if row['flag'] == 0:
                m_ = guarded(fc.region.get_masked, [pts[1][0]], [pts[1][1]])
                g = guarded(fc.get_rates, [pts[1][0]], [pts[1][1]], [mgs[0]])
                chk.count(2)
                if isinstance(m_, Raised) or not bool(m_[0]) or not (isinstance(g, Raised) and g.text.startswith('ValueError')):
                    return {'why': 'flagged cell not outside', 'cell': [i, j], 'masked': repr(m_), 'get_rates': repr(g)}
                continue
            vals.append(want)
            for (lon, lat) in pts:
                idx = guarded(fc.region.get_index_of, [lon], [lat])
                chk.count()
                if isinstance(idx, Raised) or int(idx[0]) != q:
                    return {'why': 'polygon index', 'cell': [i, j], 'point': [lon, lat], 'got': repr(idx), 'expected': q}
                for mg in mgs:
                    g = guarded(fc.get_rates, [lon], [lat], [mg])
                    chk.count()
                    if isinstance(g, Raised) or float(g[0]) != want:
                        return {'why': 'rate lookup', 'cell': [i, j], 'mbin': k, 'point': [lon, lat, mg], 'got': repr(g), 'expected': want}
            # the data matrix itself
            if float(fc.data[q, k - 1]) != want:
                return {'why': 'data matrix', 'cell': [i, j], 'mbin': k, 'got': float(fc.data[q, k - 1]), 'expected': want}
        if not flagged_any:
            tot = math.fsum(vals)
            if abs(float(fc.sum()) - tot) > 1e-12 * tot or abs(float(fc.event_count) - tot) > 1e-12 * tot:
                return {'why': 'total is not the sum of the rate column', 'got': float(fc.sum()), 'expected': tot}
        s1, s2, s3 = float(fc.spatial_counts().sum()), float(fc.magnitude_counts().sum()), float(fc.sum())
        if abs(s1 - s3) > 1e-12 * max(s3, 1e-300) or abs(s2 - s3) > 1e-12 * max(s3, 1e-300):
            return {'why': 'marginals do not sum to the total', 'spatial': s1, 'magnitude': s2, 'total': s3}
        return None

    res = chk.tlc('GenForecastFile', 'Genq_ForecastFile.cfg' if quick else 'Gen_ForecastFile.cfg', workers=1, coverage=False,
                  count_states=False, timeout=2400)
    cases = res.tagged.get('CASE', [])
    if len(cases) < 150:
        raise MachineryError('Gen produced %d files' % len(cases))
    chk.log('Gen: %d abstract files' % len(cases))

    if replay:
        d = replay['detail']
        if 'case' in d:
            bad = check_file(d['case'], d['ti'], d['mi'], d['swap'], d.get('then_load'))
            if bad:
                chk.violation(replay['signature'], dict(d, mismatch=bad))
        chk.sample({'replayed': d.get('case', d)})
        return

    okc = 0
    vary = random.Random(chk.seed * 7919 + 11)     # pseudo-random choices (TLC emits cases in a regular order)
    for ci, case in enumerate(cases):
        reps = [(ci, ci, False), (ci + 3, ci + 1, True)] if quick else [(ci + t, ci + t, t % 2 == 1) for t in range(4)]
        for (ti, mi, swap) in reps:
            ti, mi = ti + vary.randrange(12), mi + vary.randrange(4)
            then_ = mi + 1 if vary.random() < 0.35 else None
            bad = check_file(case, ti, mi, swap, then_load=then_)
            ncell = len({tuple(r_['cell']) for r_ in case['file']})
            if ncell < case['nx'] * case['ny'] or any(r_['flag'] == 0 for r_ in case['file']) or case['nm'] > 1:
                chk.nontrivial('%d|%d|%d|%s' % (ci, ti % len(TABLE), mi % len(MAGS), swap))
            if bad:
                shape = 'single-row-or-column' if min(case['nx'], case['ny']) == 1 else 'general'
                chk.violation('file:%s:%s:%s' % (bad['why'], 'swap_latlon' if swap else 'lonlat', shape),
                              {'case': case, 'ti': ti, 'mi': mi, 'swap': swap, 'then_load': then_, 'mismatch': bad})
            else:
                okc += 1
        if ci == 40:
            chk.sample({'abstract_file': case['file'][:4], 'cmap': case['cmap'], 'first_lines': open(path).read().splitlines()[:3]})
    chk.traces += okc
    # files whose cells leave a whole column and a whole row of the lattice empty (two 'islands' of cells): the empty lines are
    # holes of the region like any other
    for isl, (cells_, nx_, ny_) in enumerate(((([0, 0], [1, 0], [3, 0], [0, 2], [3, 2]), 4, 3), (([2, 1], [0, 1], [0, 3]), 3, 4),
                                             (([0, 0], [2, 0]), 3, 1), (([0, 2], [0, 0]), 1, 3))):
        nm_ = 2
        cmap_ = [[-1] * nx_ for _ in range(ny_)]
        rows_ = []
        for q_, (i_, j_) in enumerate(cells_):
            cmap_[j_][i_] = q_
            for k_ in range(1, nm_ + 1):
                rows_.append({'cell': [i_, j_], 'mbin': k_, 'rate': 1 + q_ * nm_ + k_, 'flag': 1})
        case_ = {'file': rows_, 'nm': nm_, 'nx': nx_, 'ny': ny_, 'cmap': cmap_}
        for ti_ in range(len(TABLE)):
            bad = check_file(case_, ti_, isl, swap=bool((ti_ + isl) % 2))
            if bad:
                chk.violation('file:%s:%s:islands' % (bad['why'], 'swap_latlon' if (ti_ + isl) % 2 else 'lonlat'),
                              {'case': case_, 'ti': ti_, 'mi': isl, 'swap': bool((ti_ + isl) % 2), 'mismatch': bad})
                break
        chk.nontrivial('islands|%d' % isl)
    import copy
    big = [c for c in cases if len(c['file']) >= 4]
    ctl = copy.deepcopy(big[10])
    ctl['file'][0]['rate'] += 1000
    cc = copy.deepcopy(big[10])
    write_dat(path, ctl, TABLE[0], MAGS[0], False)

    def ctl_check():
        fc = csep.load_gridded_forecast(path)
        row = cc['file'][0]
        q = cc['cmap'][row['cell'][1]][row['cell'][0]]
        return float(fc.data[q, row['mbin'] - 1]) != rate_value(row['rate'])
    chk.control('gen: a rate changed in the file is seen by the comparison', ctl_check())

    # ---------------------------------------------------------------- quadtree layouts
    qks = ['0', '10', '11', '12', '130', '131', '132', '133', '2', '3']
    rng.shuffle(qks)
    for fmt in ('ascii', 'csv'):
        for nm in (1, 3):
            m0, dm = MAGS[1]
            mags = [float(dec(m0, k, dm)) for k in range(nm)]
            import mercantile
            rows = []
            want = {}
            for qi, qk in enumerate(qks):
                b = mercantile.bounds(mercantile.quadkey_to_tile(qk))
                for k in range(nm):
                    want[(qk, k)] = rate_value(qi * nm + k + 1)
                if fmt == 'ascii':
                    for k in range(nm):
                        rows.append(' '.join([qk, repr(b.west), repr(b.east), repr(b.south), repr(b.north), '0', '30', repr(mags[k]),
                                              repr(mags[k] + 0.5), repr(want[(qk, k)])]))
                else:
                    rows.append(','.join([qk, '0', '30'] + [repr(want[(qk, k)]) for k in range(nm)]))
            p2 = os.path.join(chk.tmp, 'q.' + ('txt' if fmt == 'ascii' else 'csv'))
            with open(p2, 'w') as f:
                if fmt == 'csv':
                    f.write(','.join(['quadkey', 'depth_min', 'depth_max'] + [repr(m) for m in mags]) + '\n')
                f.write('\n'.join(rows) + '\n')
            loader = readers.quadtree_ascii_loader if fmt == 'ascii' else readers.quadtree_csv_loader
            fc = guarded(GriddedForecast.from_custom, loader, func_args=(p2,))
            chk.count()
            sig = 'quadtree:%s' % fmt
            if isinstance(fc, Raised):
                chk.violation(sig + ':load raised', {'format': fmt, 'nm': nm, 'err': repr(fc)})
                continue
            try:
                got_mags = [float(x) for x in fc.magnitudes]
            except Exception as ex:
                got_mags = repr(ex)
            if got_mags != mags or any(not isinstance(x, (float, numpy.floating)) for x in numpy.asarray(fc.magnitudes).tolist()):
                chk.violation(sig + ':magnitudes are not the numeric lower edges', {'format': fmt, 'nm': nm,
                              'got': repr(numpy.asarray(fc.magnitudes))[:200], 'expected': mags})
                continue
            bad = None
            for qk in qks:
                b = mercantile.bounds(mercantile.quadkey_to_tile(qk))
                for (lon, lat) in ((b.west, b.south), ((b.west + b.east) / 2, (b.south + b.north) / 2)):
                    for k in range(nm):
                        for mg in (mags[k], mags[k] + 0.25):
                            g = guarded(fc.get_rates, [lon], [lat], [mg])
                            chk.count()
                            if isinstance(g, Raised) or float(numpy.asarray(g).reshape(-1)[0]) != want[(qk, k)]:
                                bad = {'quadkey': qk, 'point': [lon, lat, mg], 'got': repr(g), 'expected': want[(qk, k)]}
                                break
                        if bad:
                            break
                    if bad:
                        break
                if bad:
                    break
            if bad:
                chk.violation(sig + ':rate lookup', dict(bad, format=fmt, nm=nm))
            else:
                chk.traces += 1
            chk.nontrivial('qt|%s|%d' % (fmt, nm))

    # ---------------------------------------------------------------- scaling histories
    traces, metas = [], []
    start, end = datetime.datetime(2010, 1, 1), datetime.datetime(2015, 1, 1)
    from csep.utils.time_utils import decimal_year
    for t in range(60 if quick else 600):
        case = big[rng.randrange(len(big))]
        write_dat(path, case, TABLE[t % len(TABLE)], MAGS[t % len(MAGS)], False)
        aware = t % 3 == 0
        tz = datetime.timezone.utc if aware else None
        fc = csep.load_gridded_forecast(path, start_date=start.replace(tzinfo=tz), end_date=end.replace(tzinfo=tz))
        base = numpy.array(fc.data, dtype=float)
        factors = [1.0]
        date_ids = set()          # factors that came from scale_to_test_date (differences of decimal years)
        calls = []
        desc = []
        for _ in range(rng.randint(1, 30 if not quick else 12)):
            op = rng.choice(['scale', 'scale', 'date', 'date-outside', 'read'])
            fid = 0
            if op == 'scale':
                v = rng.choice([0.5, 2.0, 0.25, 4.0, 1.0, 0.1, 3.0, 1e-3, 365.25, 0.0])     # (0 switches the forecast off; 1 brings it back)
                if rng.random() < 0.25:
                    # scale() also takes an array: one weight per magnitude bin, per cell, or per (cell, bin)
                    shp = rng.choice([(base.shape[1],), (base.shape[0], 1), base.shape])
                    v = numpy.array([rng.choice([0.5, 2.0, 0.25, 1.0, 3.0, 0.0]) for _ in range(int(numpy.prod(shp)))]).reshape(shp)
                    if numpy.all(v == v.ravel()[0]):
                        v.ravel()[0] = 4.0 if v.ravel()[0] != 4.0 else 0.5
                    if v.size == 1:
                        v = float(v.ravel()[0])
                r_ = guarded(fc.scale, v)
                factors.append(v)
                fid = len(factors) - 1
                desc.append(('scale', v if numpy.ndim(v) == 0 else numpy.asarray(v).tolist()))
            elif op == 'date':
                d = start + datetime.timedelta(days=rng.randint(1, 1800), hours=rng.choice([0, 12]))
                r_ = guarded(fc.scale_to_test_date, d.replace(tzinfo=tz))
                # elapsed fraction at the end of the test day, in decimal years (independent exact computation)
                def dy(x):
                    y0_ = datetime.datetime(x.year, 1, 1)
                    y1_ = datetime.datetime(x.year + 1, 1, 1)
                    return x.year + Fraction((x - y0_) // datetime.timedelta(microseconds=1), (y1_ - y0_) // datetime.timedelta(microseconds=1))
                v = float((dy(d + datetime.timedelta(1)) - dy(start)) / (dy(end) - dy(start)))
                factors.append(v)
                fid = len(factors) - 1
                date_ids.add(fid)
                desc.append(('scale_to_test_date', str(d)))
            elif op == 'date-outside':
                d = rng.choice([start - datetime.timedelta(days=rng.randint(0, 400)), end + datetime.timedelta(days=rng.randint(0, 400))])
                r_ = guarded(fc.scale_to_test_date, d.replace(tzinfo=tz))
                desc.append(('scale_to_test_date(outside)', str(d)))
            else:
                r_ = None
                desc.append(('read',))
            chk.count()
            if isinstance(r_, Raised):
                calls.append({'op': op, 'f': fid, 'ratio': -2, 'marg': 1})
                break
            data = numpy.array(fc.data, dtype=float)
            ratio = -1
            def fkey(f_):
                return float(f_) if numpy.ndim(f_) == 0 else ('array', numpy.shape(f_), numpy.asarray(f_, dtype=float).tobytes())
            for k_, f_ in enumerate(factors):
                exact = data.shape == base.shape and data.tobytes() == (base * f_).tobytes()
                # a date factor is a difference of decimal years (~2010.x): cancellation costs eps*2200/f relative
                rt = 1e-12 + (8 * 2.0 ** -52 * 2200.0 / max(float(numpy.min(f_)), 1e-300) if k_ in date_ids else 0.0)
                if exact or (data.shape == base.shape and numpy.allclose(data, base * f_, rtol=rt, atol=0.0)):
                    # prefer the most recent identifier of an equal factor value
                    if ratio == -1 or fkey(factors[k_]) == fkey(factors[ratio]) or exact:
                        ratio = k_
            # identical factor values share an identifier for the comparison
            canon = {fkey(v): i for i, v in reversed(list(enumerate(factors)))}
            ratio_c = canon[fkey(factors[ratio])] if ratio >= 0 else -1
            fid_c = canon[fkey(factors[fid])] if op in ('scale', 'date') else 0
            # the total is one number, and both marginals add up to it
            tot = guarded(lambda: fc.sum())
            sc_, mc_ = guarded(lambda: float(fc.spatial_counts().sum())), guarded(lambda: float(fc.magnitude_counts().sum()))
            if isinstance(tot, Raised) or numpy.ndim(tot) != 0 or isinstance(sc_, Raised) or isinstance(mc_, Raised):
                marg = 0
            else:
                tot = float(tot)
                marg = 1 if (abs(sc_ - tot) <= 1e-12 * max(tot, 1e-300) and abs(mc_ - tot) <= 1e-12 * max(tot, 1e-300)
                             and abs(float(data.sum()) - tot) <= 1e-12 * max(tot, 1e-300)) else 0
            calls.append({'op': op, 'f': fid_c, 'ratio': ratio_c, 'marg': marg})
        traces.append(calls)
        metas.append(desc)
        if len({c['f'] for c in calls if c['op'] in ('scale', 'date')}) >= 2:
            chk.nontrivial('sc|%s' % desc)
    # the cur-factor replay needs canonical ids for "outside" and "read" too: they carry f = 0 and are ignored by TLC
    bad = copy.deepcopy(next(tr for tr in traces if sum(1 for c in tr if c['op'] in ('scale', 'date')) >= 2))
    j = max(i for i, c in enumerate(bad) if c['op'] in ('scale', 'date'))
    first = next(c for c in bad if c['op'] in ('scale', 'date'))
    bad[j]['ratio'] = first['f'] if first['f'] != bad[j]['f'] else -1
    acc, rej = chk.validate_traces('TraceGriddedData', 'Trace_GriddedData.cfg', traces + [bad], chunk=400)
    chk.traces -= len([i for i in acc if i >= len(traces)])
    chk.control('trace: data equal to an earlier factor rejected', len(traces) in {i for i, _ in rej})
    for i, diag in rej:
        if i >= len(traces):
            continue
        k = diag[-1]['explained_events'] if diag else 0
        c = traces[i][min(k, len(traces[i]) - 1)]
        chk.violation('scaling:%s:%s' % (c['op'], 'marginals' if c['marg'] == 0 else ('raised' if c['ratio'] == -2 else 'factor')),
                      {'history': metas[i][:k + 1], 'first_unexplained_call': c})
    chk.sample({'scaling_trace': traces[0][:4], 'calls': metas[0][:4]})
    chk.exhaustive = True
    chk.assume('files are well-formed: every cell lists its magnitude rows consecutively in ascending order with one flag per cell')
    chk.assume('rates are written with repr(); lookups must return exactly float(text)')
