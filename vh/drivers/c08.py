"""C08 - paired T- and W-tests follow Rhoades et al. (2011) and are antisymmetric.

spec/PairedTW.tla   TLC: Antisymmetry (every coefficient of sum X_i and of N_A - N_B changes sign under swapping),
        VarianceSymmetric, SelfComparisonZero, and for the signed-rank machinery WSymmetric, RankSum, VarPositive, over all
        catalogs of 2..4 events on 3 bins and all sign / weak-order patterns of <= 4 differences.
code -> spec (TracePairedTW)  for every real evaluation TLC returns the XR of information gain, t statistic, critical value and
        interval (Poisson and binary per-active-bin variants, both argument orders) and of the Wilcoxon z and p from the
        sign / weak-order pattern; the harness evaluates them at 50 digits and compares with paired_t_test,
        binary_paired_t_test and w_test; swapped calls must mirror / coincide; every call must return a result.
"""
import datetime
import random
from fractions import Fraction

from vh.core import MachineryError, guarded, Raised, spell_flag, same_evaluation
from vh import xr

NB = 24
SHAPES = [(24, 1), (12, 2), (8, 3), (6, 4)]


def run(chk, replay=None):
    import numpy
    import mpmath as mp
    from csep.core import poisson_evaluations as pe, binomial_evaluations as be
    from vh.drivers.c05 import Builder
    if not xr.HAVE_MP:
        raise MachineryError('mpmath not available (run bin/setup)')
    quick = chk.tier == 'quick'
    rng = random.Random(chk.seed + 808)
    B = Builder()
    chk.rule = ('evaluations = random pairs of positive-rate forecasts on a common 24-bin region (rates 1e-9..10, equal rates, '
                'self comparison), catalogs of 2..200 events with repeated bins, alpha in {0.01, 0.05, 0.5}, scale on/off; every '
                'one through paired_t_test, binary_paired_t_test and w_test in both argument orders. non-trivial = distinct '
                '(shape, event-bin multiset class, alpha, scale) with a repeated bin or a tie')
    res = chk.tlc('PairedTW', 'MC_PairedTW.cfg', timeout=900)

    start, end = datetime.datetime(2010, 1, 1), datetime.datetime(2010, 1, 1) + datetime.timedelta(days=30)

    def make(shape, data):
        fc = B.forecast(numpy.array(data, dtype=float).reshape(shape))
        fc.start_time, fc.end_time = start, end
        return fc

    traces, metas = [], []
    n_eval = 60 if quick else 500
    for t in range(n_eval):
        shape = SHAPES[t % 4]
        nc, nb = shape
        style = rng.choice(['wide', 'close', 'equalish', 'dyadic'])
        if style == 'dyadic':
            # B = A with the rates of disjoint bin pairs exchanged; all rates are small multiples of 1/64, so both totals are
            # the same float whatever the summation order and the null median is exactly 0.  The two bins of a pair then have
            # differences +x and -x exactly (float subtraction is anti-commutative): exact ties ACROSS signs.
            ks = rng.sample(range(3, 400), NB)
            a = [k / 64.0 for k in ks]
            b = list(a)
            idxs = list(range(NB))
            rng.shuffle(idxs)
            # every other evaluation leaves some pairs alone: events there have a difference of exactly zero (equal to the
            # null median), which the signed-rank statistic must leave out altogether
            partial = (t % 2 == 0)
            for q in range(0, NB - 1, 2):
                i, j = idxs[q], idxs[q + 1]
                if partial and rng.random() < 0.4:
                    continue
                b[i], b[j] = a[j], a[i]
        elif style == 'wide':
            a = [10 ** rng.uniform(-9, 1) for _ in range(NB)]
            b = [10 ** rng.uniform(-9, 1) for _ in range(NB)]
        elif style == 'close':
            a = [10 ** rng.uniform(-3, 0) for _ in range(NB)]
            b = [x * rng.uniform(0.5, 2.0) for x in a]
        else:
            a = [rng.choice([0.1, 0.2, 0.5, 1.0]) for _ in range(NB)]
            b = [rng.choice([0.1, 0.2, 0.5, 1.0]) for _ in range(NB)]
        same = (t % 9 == 0)
        if same:
            b = list(a)
        n = rng.choice([2, 2, 3, 5, 12, 60, 200])
        hot = [rng.randrange(NB) for _ in range(rng.randint(1, 6))]
        bins = [rng.choice(hot) if rng.random() < 0.6 else rng.randrange(NB) for _ in range(n)]
        if t in (12, 14, 17):
            # one forecast many orders of magnitude below the other in every bin (ratios 1e-16 .. 1e-8): the log-rate differences are
            # differences of logarithms, whatever the ratio
            style = 'wide'
            b = [10 ** rng.uniform(-2, 1) for _ in range(NB)]
            a = [x * 10 ** rng.uniform(-16, -8) for x in b]
            if t == 14:
                a, b = b, a
        if t in (6, 7, 11):
            # the smallest sample the W-test is defined for: exactly ONE log-rate difference distinct from the null median (one
            # exchanged pair of dyadic rates, so the totals are equal and the median is exactly 0; the other events sit in bins
            # the two forecasts agree on)
            style = 'dyadic'
            ks = rng.sample(range(3, 400), NB)
            a = [k / 64.0 for k in ks]
            b = list(a)
            i_, j_ = 0, NB - 1
            b[i_], b[j_] = a[j_], a[i_]
            others = [q for q in range(1, NB - 1)]
            n = [3, 2, 5][(t - 6) % 3] if t != 11 else 4
            bins = [i_ if t != 7 else j_] + [rng.choice(others) for _ in range(n - 1)]
        an, ad = rng.choice([(1, 100), (1, 20), (1, 2)])
        scale = (t % 5 == 0)
        w = [[0] * nb for _ in range(nc)]
        for j in bins:
            w[j // nb][j % nb] += 1
        cat = B.catalog(w, nc, nb, rng)
        fa, fb = make(shape, a), make(shape, b)
        # every third pair is rescaled first (forecast.scale(c) / a scaled total): the comparison is between the forecasts
        # as they stand, i.e. with rates a*c
        if t % 3 == 1 and not same and style != 'dyadic':
            ca, cb = rng.choice([(0.4, 1.0), (1.0, 2.5), (0.5, 3.0)])
            fa.scale(ca)
            fb.scale(cb)
            a = [float(numpy.float64(x) * ca) for x in a]
            b = [float(numpy.float64(x) * cb) for x in b]
        # event order in the catalog is shuffled: the bins sequence handed to TLC is the multiset in bin order
        ev_bins = sorted(j + 1 for j in bins)
        alpha = an / ad
        snap = (numpy.array(fa.data).tobytes(), numpy.array(fb.data).tobytes(), cat.catalog.tobytes())
        scale_lit = scale
        scale = spell_flag(scale_lit, t // 5)       # the option as True / False, a numpy boolean, or 1 / 0
        r_ab = guarded(pe.paired_t_test, fa, fb, cat, alpha=alpha, scale=scale)
        r_ba = guarded(pe.paired_t_test, fb, fa, cat, alpha=alpha, scale=scale)
        nact = len(set(bins))
        rb_ab = guarded(be.binary_paired_t_test, fa, fb, cat, alpha=alpha, scale=scale) if nact >= 2 else None
        rb_ba = guarded(be.binary_paired_t_test, fb, fa, cat, alpha=alpha, scale=scale) if nact >= 2 else None
        rw_ab = guarded(pe.w_test, fa, fb, cat, scale=scale)
        rw_ba = guarded(pe.w_test, fb, fa, cat, scale=scale)
        scale = scale_lit
        chk.count(6)
        if snap != (numpy.array(fa.data).tobytes(), numpy.array(fb.data).tobytes(), cat.catalog.tobytes()):
            chk.violation('comparison tests changed their inputs', {'style': style, 'scale': scale, 'n': n,
                          'forecast_a_changed': snap[0] != numpy.array(fa.data).tobytes(), 'forecast_b_changed': snap[1] != numpy.array(fb.data).tobytes(),
                          'catalog_changed': snap[2] != cat.catalog.tobytes()})
        if t % 7 == 3 and n >= 4 and not isinstance(r_ab, Raised):
            # the catalog is shortened IN PLACE (a user's filter) and the same forecast objects are evaluated against it again: the answer
            # is that of fresh objects holding the same rates and the same remaining events
            kept = cat.catalog[: n - (n // 3)].copy()
            cat.catalog = kept.copy()
            again_t = guarded(pe.paired_t_test, fa, fb, cat, alpha=alpha, scale=scale_lit)
            again_w = guarded(pe.w_test, fa, fb, cat, scale=scale_lit)
            fa2, fb2 = make(shape, [float(x) for x in numpy.array(fa.data).ravel()]), make(shape, [float(x) for x in numpy.array(fb.data).ravel()])
            cat2 = B.catalog(w, nc, nb)
            cat2.catalog = kept.copy()
            fresh_t = guarded(pe.paired_t_test, fa2, fb2, cat2, alpha=alpha, scale=scale_lit)
            fresh_w = guarded(pe.w_test, fa2, fb2, cat2, scale=scale_lit)
            chk.count(4)
            for tag, x_, y_ in (('paired_t_test', again_t, fresh_t), ('w_test', again_w, fresh_w)):
                if not same_evaluation(x_, y_):
                    chk.violation('%s:%s:differs from fresh objects after the catalog was shortened in place' % (tag, style),
                                  {'n_before': n, 'n_after': int(len(kept)), 'same_objects': repr(getattr(x_, 'observed_statistic', x_)),
                                   'fresh_objects': repr(getattr(y_, 'observed_statistic', y_))})
            chk.nontrivial('inplace|%d' % t)
        days = 30.0
        da = numpy.array(a, dtype=float) / days if scale else numpy.array(a, dtype=float)
        db = numpy.array(b, dtype=float) / days if scale else numpy.array(b, dtype=float)
        rates = {j + 1: Fraction(float(da[j])) for j in range(NB)}
        if not same:
            rates.update({NB + j + 1: Fraction(float(db[j])) for j in range(NB)})
        base = {'bins': ev_bins, 'same': same, 'an': an, 'ad': ad, 'pat': [[1, 1]]}
        traces.append(dict(base, kind='t', binary=False))
        metas.append({'what': 'paired_t_test', 'ab': r_ab, 'ba': r_ba, 'rates': rates, 'n': n, 'style': style, 'scale': scale, 'same': same})
        if nact >= 2:
            traces.append(dict(base, kind='t', binary=True))
            metas.append({'what': 'binary_paired_t_test', 'ab': rb_ab, 'ba': rb_ba, 'rates': rates, 'n': nact, 'style': style,
                          'scale': scale, 'same': same})
        # W-test pattern at 50 digits from the exact rates.  N1, N2 are the UNSCALED forecast totals in the library
        # ("this ratio is the same as long as we scale all the forecasts and catalog rates by the same value")
        n1 = sum(Fraction(float(x)) for x in a)
        n2 = sum(Fraction(float(x)) for x in b)
        med = xr._mpf((n1 - n2) / n)
        d = [mp.log(xr._mpf(rates[j])) - mp.log(xr._mpf(rates[j] if same else rates[NB + j])) - med for j in ev_bins]
        absd = sorted(set(abs(x) for x in d))
        # ties are only trusted between events whose two rates are bitwise identical (then the library's float differences
        # are identical too); two different rate pairs whose |d| agree to 1e-9 could be ordered either way by rounding
        groups = {}
        mirror_ok = (n1 == n2)        # null median exactly 0: (a, b) and (b, a) give exactly opposite differences
        for j, x in zip(ev_bins, d):
            pair = (float(da[j - 1]), float(db[j - 1]))
            if mirror_ok and pair[0] == pair[1]:
                continue          # equal rates and a null median of exactly 0: the difference is exactly 0 in floats too
            key = frozenset(pair) if mirror_ok and pair[0] != pair[1] else pair
            groups.setdefault(key, abs(x))
        gv = sorted(groups.values())
        robust = all(gv[i + 1] - gv[i] > mp.mpf('1e-9') * gv[i + 1] for i in range(len(gv) - 1)) and all(x > mp.mpf('1e-12') for x in gv)
        distinct = any(x != 0 for x in d)
        if robust and distinct:
            rank = {v: k + 1 for k, v in enumerate(absd)}
            pat = [[0, 1] if x == 0 else [1 if x > 0 else -1, rank[abs(x)]] for x in d]
            traces.append(dict(base, kind='w', binary=False, pat=pat))
            metas.append({'what': 'w_test', 'ab': rw_ab, 'ba': rw_ba, 'rates': rates, 'n': n, 'style': style, 'scale': scale, 'same': same})
        if len(set(bins)) < len(bins):
            chk.nontrivial('%s|%s|%d|%s|%s|%s' % (shape, style, n, (an, ad), scale, sorted(bins)[:6]))
    import json
    import os
    path = os.path.join(chk.tmp, 'tw.json')
    with open(path, 'w') as f:
        json.dump(traces, f)
    r = chk.tlc('TracePairedTW', 'Trace_PairedTW.cfg', workers=1, env={'TRACE_FILE': path}, coverage=False, timeout=2400)
    exps = {e['tid']: e for e in r.tagged.get('EXPECT', [])}
    if len(exps) != len(traces):
        raise MachineryError('TLC returned %d EXPECT lines for %d records' % (len(exps), len(traces)))

    def ev(node, rates):
        try:
            return xr.evaluate(node, rates)
        except ZeroDivisionError:
            return 'undefined'

    okc = 0
    ctl_done = False
    for i, tr in enumerate(traces):
        e, m = exps[i + 1], metas[i]
        what = m['what']
        tag = '%s:%s' % (what, 'self' if m['same'] else m['style'])
        bad = None
        for order, res in (('ab', m['ab']), ('ba', m['ba'])):
            if isinstance(res, Raised):
                bad = ('returns no result (%s)' % res.text.split(':')[0], {'order': order, 'err': repr(res)})
                break
            if what == 'w_test':
                z, p = ev(e['z'], m['rates']), ev(e['p'], m['rates'])
                got_z, got_p = float(res.observed_statistic), float(res.quantile)
                if z != 'undefined' and not xr.close(got_z, z, rtol=1e-9, atol=1e-12):
                    bad = ('z statistic', {'order': order, 'got': got_z, 'expected': str(z), 'n': e['n'], 't2': e['t2']})
                elif p != 'undefined' and (not xr.close(got_p, p, rtol=1e-9, atol=1e-13) or not (0.0 <= got_p <= 1.0)):
                    bad = ('p value', {'order': order, 'got': got_p, 'expected': str(p)})
            else:
                x = e[order]
                fields = (('ig', float(res.observed_statistic), 'information gain'), ('t', float(res.quantile[0]), 't statistic'),
                          ('tcrit', float(res.quantile[1]), 't critical'), ('lo', float(res.test_distribution[0]), 'interval'),
                          ('hi', float(res.test_distribution[1]), 'interval'))
                # zero (or numerically zero) sample variance - all events share one log-rate difference - makes the t statistic
                # and the interval a 0/0 or x/0 matter of rounding: only gain and critical value are compared then
                se = ev(x['t']['kids'][1], m['rates'])
                igv = ev(x['ig'], m['rates'])
                degenerate = se == 'undefined' or (isinstance(se, float) and se != se) or abs(se) <= 1e-7 * max(1.0, abs(igv))
                for key, got, name in fields:
                    if degenerate and key in ('t', 'lo', 'hi'):
                        continue
                    want = ev(x[key], m['rates'])
                    if want == 'undefined' or (isinstance(want, float) and want != want):
                        continue
                    # the variance is a difference of two close sums: grant its conditioning to t and the interval
                    rt = 1e-9 if key in ('ig', 'tcrit') else 1e-6
                    if not xr.close(got, want, rtol=rt, atol=1e-10):
                        bad = (name, {'order': order, 'field': key, 'got': got, 'expected': str(want), 'n': e['n']})
                        break
                    if not ctl_done and key == 'ig' and abs(float(want)) > 1e-3:
                        chk.control('perturbed information gain flagged', not xr.close(got * (1 + 1e-6), want, rtol=1e-9, atol=1e-10))
                        ctl_done = True
            if bad:
                break
        if not bad and not isinstance(m['ab'], Raised) and not isinstance(m['ba'], Raised):
            a_, b_ = m['ab'], m['ba']
            if what == 'w_test':
                if float(a_.observed_statistic) != float(b_.observed_statistic) and not xr.close(float(a_.observed_statistic), mp.mpf(float(b_.observed_statistic)), rtol=1e-9):
                    bad = ('not symmetric under swapping', {'ab': float(a_.observed_statistic), 'ba': float(b_.observed_statistic)})
            else:
                ig1, ig2 = float(a_.observed_statistic), float(b_.observed_statistic)
                if abs(ig1 + ig2) > 1e-9 * max(abs(ig1), 1e-9) + 1e-12:
                    bad = ('gain not negated by swapping', {'ab': ig1, 'ba': ig2})
                lo1, hi1 = map(float, a_.test_distribution)
                lo2, hi2 = map(float, b_.test_distribution)
                if not bad and all(v == v and abs(v) < 1e300 for v in (lo1, hi1, lo2, hi2)) and (abs(lo1 + hi2) > 1e-6 * max(abs(lo1), 1e-9) + 1e-10
                                                                              or abs(hi1 + lo2) > 1e-6 * max(abs(hi1), 1e-9) + 1e-10):
                    bad = ('interval not mirrored by swapping', {'ab': [lo1, hi1], 'ba': [lo2, hi2]})
                if not bad and m['same'] and abs(ig1) > 1e-12:
                    bad = ('self comparison has non-zero gain', {'ig': ig1})
        if bad:
            chk.violation('%s:%s' % (tag, bad[0]), dict(bad[1], record=tr['bins'][:12], n_events=m['n'], scale=m['scale']))
        else:
            okc += 1
    chk.traces += okc
    chk.sample({'record': {k: v for k, v in traces[0].items()}, 'expected_ig_xr': exps[1].get('ab', {}).get('ig')})
    w_i = next((i for i, t_ in enumerate(traces) if t_['kind'] == 'w'), None)
    if w_i is not None:
        chk.sample({'w_record_pattern': traces[w_i]['pat'][:8], 'tlc': {k: exps[w_i + 1][k] for k in ('n', 't2', 'znum4', 'varnum48')}})
    chk.notes['tolerance'] = 'gain / critical value rtol 1e-9; t statistic and interval rtol 1e-6 (variance is a difference of close sums)'
    chk.assume('W-test patterns are only formed when distinct |differences| are separated by > 1e-9 relative (ties come from '
               'events sharing a bin and are exact)')
    chk.assume('forecasts have positive rates everywhere; catalogs hold >= 2 in-region events; the binary variant needs >= 2 active bins')
