"""X07 (extension, not a listed property) - csep.core.repositories.FileSystem, the layer under write_json / load_json.

spec/Repo.tla   TLC: LoadReturnsLastSaved, LoadFailsOnlyWhenEmpty, BackupsAreOverwrittenDocs, BackupsOnlyGrow over every history
        of 5 operations (save with / without backup of 3 documents, load); a backup taken after the overwrite (MCbug) refuted.
spec -> code / code -> spec   all 2 401 histories of 4 operations are executed on a real FileSystem repository in a scratch
        directory; after each call the file, the backup files (in creation order) and the outcome are projected and the whole
        history is validated step by step by TraceRepo.  The public write_json / load_json wrappers are used every other time.
"""
import glob
import json
import os
import shutil

from vh.core import MachineryError, guarded, Raised


class Doc:
    """a minimal object with the to_dict / from_dict protocol the repository layer expects"""

    def __init__(self, token):
        self.token = token

    def to_dict(self):
        return {'token': self.token, 'payload': [1.5, None, 'x']}

    @classmethod
    def from_dict(cls, adict):
        return cls(adict['token'])


def run(chk, replay=None):
    from csep.core import repositories
    quick = chk.tier == 'quick'
    chk.rule = ('histories = every sequence of 4 operations {save a|b|c with / without backup, load} from TLC, executed on a real '
                'FileSystem repository. non-trivial = distinct histories with a backup of an existing file or a load')
    res = chk.tlc('Repo', 'MC_Repo.cfg', timeout=900)
    chk.require_coverage(res, ['Save', 'Load'])
    r = chk.tlc('Repo', 'MCbug_Repo.cfg', expect='any', coverage=False, count_states=False)
    chk.control('model MCbug_Repo.cfg refuted', r.violated == 'BackupsAreOverwrittenDocs')
    res = chk.tlc('GenRepo', 'Gen_Repo.cfg', workers=1, coverage=False, count_states=False, timeout=900)
    cases = res.tagged.get('CASE', [])
    if len(cases) < 2000:
        raise MachineryError('Gen produced %d histories' % len(cases))
    if quick:
        import random
        pick = random.Random(chk.seed * 7919 + 7)
        cases = [c for c in cases if pick.random() < 0.25]
    base = os.path.join(chk.tmp, 'repo')

    def token_of(path):
        try:
            with open(path) as f:
                return json.load(f).get('token', '?')
        except Exception:            # noqa
            return '?'

    def project(url):
        file_ = token_of(url) if os.path.exists(url) else 'none'
        stem = os.path.splitext(url)[0]
        bfiles = sorted(glob.glob(stem + '_backup_*'), key=lambda p: (os.path.getmtime(p), p))
        return file_, [token_of(p) for p in bfiles]

    def run_history(hist, hi):
        shutil.rmtree(base, ignore_errors=True)
        os.makedirs(base)
        url = os.path.join(base, 'state-%d.json' % (hi % 3))
        repo = repositories.FileSystem(url=url)
        steps = []
        for si, h in enumerate(hist):
            if h['op'] == 'save':
                if not h['b'] and (si + hi) % 2:
                    r = guarded(repositories.write_json, Doc(h['d']), url)
                else:
                    r = guarded(repo.save, Doc(h['d']).to_dict(), backup=h['b'])
                last = {'k': 'raised', 'v': 'none'} if isinstance(r, Raised) else {'k': 'saved', 'v': h['d']}
            else:
                r = guarded(repositories.load_json, Doc, url) if (si + hi) % 2 else guarded(repo.load, Doc)
                if isinstance(r, Raised):
                    last = {'k': 'raised', 'v': 'none'}
                else:
                    last = {'k': 'loaded', 'v': getattr(r, 'token', '?')}
            chk.count()
            f, b = project(url)
            steps.append({'op': h['op'], 'd': h['d'], 'b': bool(h['b']), 'file': f, 'backups': b, 'last': last,
                          'note': r.text if isinstance(r, Raised) else ''})
        return steps

    if replay:
        d = replay['detail']
        steps = run_history(d['hist'], d['index'])
        acc, rej = chk.validate_traces('TraceRepo', 'Trace_Repo.cfg', [[{k: s[k] for k in ('op', 'd', 'b', 'file', 'backups', 'last')} for s in steps]], chunk=10)
        if rej:
            chk.violation(replay['signature'], dict(d, steps=steps))
        chk.sample({'replayed': d['hist']})
        return

    traces, metas = [], []
    for hi, case in enumerate(cases):
        steps = run_history(case['hist'], hi)
        traces.append([{k: s[k] for k in ('op', 'd', 'b', 'file', 'backups', 'last')} for s in steps])
        metas.append((case['hist'], steps, hi))
        if any(h['op'] == 'load' for h in case['hist']) or any(h['b'] for h in case['hist'][1:]):
            chk.nontrivial('%s' % [(h['op'], h['d'], h['b']) for h in case['hist']])
    import copy
    src = next(i for i, t in enumerate(traces) if t[-1]['backups'])
    bad = copy.deepcopy(traces[src])
    bad[-1]['backups'] = bad[-1]['backups'][:-1]
    acc, rej = chk.validate_traces('TraceRepo', 'Trace_Repo.cfg', traces + [bad], chunk=400, parallel=8)
    chk.traces -= len([i for i in acc if i >= len(traces)])
    chk.control('trace: history with one backup missing rejected', len(traces) in {i for i, _ in rej})
    for i, diag in rej:
        if i >= len(traces):
            continue
        hist, steps, hi = metas[i]
        k = diag[-1]['explained_events'] if diag else 0
        st = steps[min(k, len(steps) - 1)]
        chk.violation('history:%s%s:%s' % (st['op'], '+backup' if st['b'] else '', st['last']['k']),
                      {'hist': hist, 'index': hi, 'first_unexplained_step': st})
    chk.sample({'history': metas[10][0], 'steps': traces[10]})
    chk.exhaustive = True
    chk.assume('backup files are ordered by modification time, then name (their names carry a microsecond time stamp)')
