"""X12 (extension, not a listed property) - csep.models.EvaluationConfiguration, the registry of evaluation versions.

spec/EvalConfig.tla   entries [name, version] in order of first registration, two objects that may share one list; named
        behaviour: from_dict(to_dict()) shares the entry list with the original (ALIAS), a copy through a JSON file does not; a
        start list naming an evaluation twice keeps both entries (DUP).  TLC: NoNewDuplicates, GetAfterUpdate, UpdateKeepsOthers,
        OrderKept, QueriesArePure over all sessions of 4 calls from 4 starting lists (506 804 states); Independence of a copy
        is refuted for the code's aliasing dictionary copy (MCalias) and holds for the model without it (MCnoalias).
spec -> code   GenEvalConfig: every session of 3 calls (15 360) and long simulated sessions with the predicted entry lists of
        both objects and the outcome of every call; executed on real EvaluationConfiguration objects (copies through
        to_dict / from_dict and through repositories.write_json / load_json), compared after every call.  The sessions
        generated from the model WITHOUT aliasing (Genbug) must be contradicted by the real object: the binding's control.
"""
import os
import random

from vh.core import MachineryError, guarded, Raised


def files_of(name, version):
    return ['%s_v%d_a.json' % (name, version), '%s_v%d_b.png' % (name, version)]


def run(chk, replay=None):
    from csep.models import EvaluationConfiguration
    from csep.core import repositories
    quick = chk.tier == 'quick'
    chk.rule = ('sessions = every sequence of 3 calls {update, get, files, names, copy through dict, copy through JSON, switch} from 4 '
                'starting lists exhaustively plus long simulated sessions, executed on real objects and compared after every call. '
                'non-trivial = distinct sessions in which an update follows a copy')
    res = chk.tlc('EvalConfig', 'MC_EvalConfig.cfg', timeout=900)
    chk.require_coverage(res, ['Do'])
    r = chk.tlc('EvalConfig', 'MCalias_EvalConfig.cfg', expect='any', coverage=False, count_states=False)
    chk.control('model: a dictionary copy is not independent of its original (Independence refuted)', r.violated == 'Independence')
    res = chk.tlc('GenEvalConfig', 'Gen_EvalConfig.cfg', workers=1, coverage=False, count_states=False, timeout=900)
    cases = list(res.tagged.get('CASE', []))
    n_ex = len(cases)
    res = chk.tlc('GenEvalConfig', 'Sim_EvalConfig.cfg', workers=1, coverage=False, count_states=False, timeout=900,
                  simulate='num=%d' % (400 if quick else 6000), depth=11, expect='any')
    cases += res.tagged.get('CASE', [])
    if n_ex < 15000 or len(cases) - n_ex < 300:
        raise MachineryError('Gen produced %d + %d sessions' % (n_ex, len(cases) - n_ex))
    if quick:
        pick = random.Random(chk.seed * 7919 + 12)
        cases = [c for i, c in enumerate(cases) if i >= n_ex or pick.random() < 0.25]
    jpath = os.path.join(chk.tmp, 'config.json')

    def project(obj):
        if obj is None:
            return []
        out = []
        for e in obj.evaluations:
            ok = e.get('fnames') == files_of(e['name'], e['version'])
            out.append({'name': e['name'], 'version': e['version'] if ok else -e['version']})
        return out

    def run_session(case, si, start):
        objs = {'a': EvaluationConfiguration(forecast_name='f', n_cat=3,
                                             evaluations=[{'name': e['name'], 'version': e['version'], 'fnames': files_of(e['name'], e['version'])} for e in start]),
                'b': None}
        focus = 'a'
        for step, (op, out) in enumerate(zip(case['hist'], case['outs'])):
            name, arg, ver = op
            obj = objs[focus]
            other = 'b' if focus == 'a' else 'a'
            got = None
            if name == 'update':
                got = guarded(obj.update_version, arg, ver, files_of(arg, ver))
            elif name == 'get':
                got = guarded(obj.get_evaluation_version, arg)
            elif name == 'files':
                got = guarded(obj.get_fnames, arg)
            elif name == 'names':
                got = len(obj.evaluations)
            elif name == 'copy_dict':
                got = guarded(lambda: EvaluationConfiguration.from_dict(obj.to_dict()))
                if not isinstance(got, Raised):
                    objs[other] = got
            elif name == 'copy_json':
                w = guarded(repositories.write_json, obj, jpath)
                got = w if isinstance(w, Raised) else guarded(repositories.load_json, EvaluationConfiguration, jpath)
                if not isinstance(got, Raised):
                    objs[other] = got
            elif name == 'switch':
                if objs[other] is not None:
                    focus = other
            else:
                raise MachineryError(name)
            chk.count()
            if isinstance(got, Raised):
                return [(step, name, 'raised', got.text)]
            exp = out['last']
            if exp['k'] == 'version' and (got if got is not None else 0) != exp['v']:
                return [(step, name, 'version', got, exp['v'])]
            if exp['k'] == 'files' and got != (files_of(arg, exp['v']) if exp['v'] else None):
                return [(step, name, 'file names', got, exp['v'])]
            if exp['k'] == 'names' and got != exp['v']:
                return [(step, name, 'number of entries', got, exp['v'])]
            for slot in ('a', 'b'):
                if slot == 'b' and not out['hasb']:
                    if objs['b'] is not None:
                        return [(step, name, 'a second object exists', '', '')]
                    continue
                want = [{'name': e['name'], 'version': e['version']} for e in out[slot]]
                if project(objs[slot]) != want:
                    return [(step, name, 'entries of object %s (%s)' % (slot, 'in focus' if slot == focus else 'not in focus'), project(objs[slot]), want)]
            if out['focus'] != focus:
                raise MachineryError('focus bookkeeping differs at step %d of %r' % (step, case['hist']))
        return []

    if replay:
        d = replay['detail']
        bad = run_session(d['case'], d['si'], d['start'])
        if bad:
            chk.violation(replay['signature'], dict(d, mismatch=bad))
        chk.sample({'replayed': d['case']['hist']})
        return

    ok = 0
    for si, case in enumerate(cases):
        st = case['start']
        bad = run_session(case, si, st)
        names = [o[0] for o in case['hist']]
        if any(a in ('copy_dict', 'copy_json') and 'update' in names[i + 1:] for i, a in enumerate(names)):
            chk.nontrivial('%s|%s' % (st, case['hist']))
        if bad:
            step, name = bad[0][0], bad[0][1]
            chk.violation('session:%s:%s:after %s' % (name, bad[0][2].split(' (')[0], names[step - 1] if step else 'start'),
                          {'case': case, 'si': si, 'start': st, 'mismatch': bad})
        else:
            ok += 1
        if si in (77, n_ex + 2):
            chk.sample({'start': st, 'session': case['hist'], 'predicted_lists': [[o['a'], o['b']] for o in case['outs']][-2:]})
    chk.traces += ok
    # control of the binding: sessions predicted by the model WITHOUT aliasing must be contradicted by the real object
    res = chk.tlc('GenEvalConfig', 'Genbug_EvalConfig.cfg', workers=1, coverage=False, count_states=False, timeout=900)
    wrong = [c for c in res.tagged.get('CASE', []) if c['start'] and [o[0] for o in c['hist']][:2] == ['copy_dict', 'update']][:40]
    flagged = 0
    for c in wrong:
        if run_session(c, 0, c['start']):
            flagged += 1
    chk.control('gen: predictions of the model without aliasing contradicted by the real object', flagged > 0)
    chk.exhaustive = True
    chk.notes['sessions_exhaustive'] = n_ex
    chk.assume('the file names registered with a version are a fixed rendering of (name, version), so one look-up stands for both getters')
