"""C15 - time conversions are exact to the millisecond and order-preserving.

spec/Civil.tla, spec/TimeConv.tla   TLC: CivilRoundTrip, FieldsInRange, LeapYears, StrictlyMonotone (instants and decimal-year
        keys) over complete millisecond windows around year / leap-day / epoch boundaries 1900..2200.
code -> spec (TraceTimeConv)  for every sampled integer millisecond the real conversions are run (epoch -> datetime -> epoch,
        formatted string -> epoch, decimal year and its inverse, datetimes with a sub-millisecond phase, naive and aware) and
        TLC checks the civil fields against its own calendar, the round trips, the one-millisecond bounds and strict monotonicity
        of the decimal year along the sorted chunk.
"""
import calendar
import datetime
import random

from vh.core import MachineryError, guarded, Raised

MS_DAY = 86400000
EPOCH = datetime.datetime(1970, 1, 1, tzinfo=datetime.timezone.utc)


def split(ms):
    return ms // MS_DAY, ms % MS_DAY


def ms_of(y, mo, d, h=0, mi=0, s=0, msec=0):
    return calendar.timegm((y, mo, d, h, mi, s)) * 1000 + msec


def run(chk, replay=None):
    import numpy
    from csep.utils import time_utils as tu
    from csep.core.catalogs import CSEPCatalog
    quick = chk.tier == 'quick'
    rng = random.Random(chk.seed + 1515)
    chk.rule = ('records = integer epoch milliseconds: uniform over 1900..2200 plus complete windows around year, leap-day, '
                'day, second and epoch-sign boundaries; each through every conversion (aware / naive datetimes, strings with and '
                'without fraction and +00:00, decimal year and inverse, sub-millisecond phases). non-trivial = distinct instants '
                'within 2 s of a boundary or before 1970')
    res = chk.tlc('TimeConv', 'MC_TimeConv.cfg' if quick else 'MCT_TimeConv.cfg', timeout=2400)
    chk.require_coverage(res, ['Next'])

    lo, hi = ms_of(1900, 1, 1), ms_of(2200, 1, 1)
    instants = set()
    n_uniform = 12000 if quick else 400000
    for _ in range(n_uniform):
        instants.add(rng.randrange(lo, hi))
    anchors = [ms_of(y, 1, 1) for y in ((1900, 1901, 1970, 1972, 2000, 2001, 2100, 2101, 2199) if quick else range(1900, 2200))]
    anchors += [ms_of(y, 3, 1) for y in (1900, 2000, 2024, 2100)] + [ms_of(2024, 2, 29), ms_of(1969, 12, 31, 23, 59, 59), 0,
                                                                      ms_of(2038, 1, 19, 3, 14, 8), ms_of(2106, 2, 7, 6, 28, 16)]
    w = 400 if quick else 1500
    for a in anchors:
        for k in range(-w, w + 1):
            if lo <= a + k < hi:
                instants.add(a + k)
    # every millisecond phase at sampled seconds
    for _ in range(4 if quick else 40):
        base = rng.randrange(lo // 1000, hi // 1000) * 1000
        for k in range(1000):
            instants.add(base + k)
    # instants that fit the narrow integer types catalogs of short sequences are stored in (the first days around the epoch)
    narrow = [86_400_000, -86_400_000, 2 ** 31 - 1, -2 ** 31, 2_147_484, -2_147_484, 1_000_000_007, 40_000, -40_000, 32_767, -32_768, 33, -33]
    instants.update(narrow)
    instants = sorted(instants)
    chk.log('%d instants' % len(instants))

    def typed(ms, idx):
        """the instant as the caller's arrays hold it: a Python int, or a numpy integer of a type that holds it"""
        if ms in narrow or idx % 7 == 3:
            if -2 ** 15 <= ms < 2 ** 15 and idx % 2:
                return numpy.int16(ms)
            if -2 ** 31 <= ms < 2 ** 31:
                return numpy.int32(ms)
            return numpy.int64(ms)
        return ms

    def pair_of(x):
        return (-999999, 0) if isinstance(x, Raised) or x is None else split(int(x))

    records, raw = [], []
    for idx, ms in enumerate(instants):
        day, msd = split(ms)
        dt = guarded(tu.epoch_time_to_utc_datetime, typed(ms, idx))
        chk.count()
        if not isinstance(dt, Raised) and not isinstance(dt, datetime.datetime):
            dt = Raised(TypeError('returned %r instead of a datetime' % (dt,)))        # (no datetime is no answer)
        if isinstance(dt, Raised):
            records.append([day, msd] + [-1] * 7 + [-999999, 0] * 3 + [0, -999999, 0, 0])
            raw.append((ms, repr(dt)))
            continue
        msec = dt.microsecond // 1000 if dt.microsecond % 1000 == 0 else -1
        variant = idx % 4
        # datetime -> epoch: aware or naive
        dt_in = dt if variant % 2 == 0 else dt.replace(tzinfo=None)
        back = guarded(tu.datetime_to_utc_epoch, dt_in)
        # string forms
        if msd % 1000 == 0 and variant == 1:
            sstr = dt.strftime('%Y-%m-%d %H:%M:%S')
        elif variant == 2:
            sstr = dt.strftime('%Y-%m-%d %H:%M:%S.%f') + '+00:00'
            if idx % 8 == 2 and msd % 1000:
                # a shorter fraction in front of the offset: .5+00:00, .25+00:00, .123+00:00
                frac = ('%03d' % (msd % 1000)).rstrip('0')
                sstr = dt.strftime('%Y-%m-%d %H:%M:%S.') + frac + '+00:00'
        elif variant == 3 and msd % 1000 == 0:
            sstr = dt.strftime('%Y-%m-%d %H:%M:%S') + '+00:00'
        else:
            sstr = dt.strftime('%Y-%m-%d %H:%M:%S.%f')
            # shorter fractions mean the same instant: .5 = 500 ms, .25 = 250 ms, .123 = 123 ms
            if idx % 5 == 0:
                frac = '%03d' % (msd % 1000)
                while len(frac) > 1 and frac.endswith('0'):
                    frac = frac[:-1]
                sstr = dt.strftime('%Y-%m-%d %H:%M:%S.') + frac
        if dt.year < 1000:
            sstr = sstr.zfill(len(sstr) + 1)
        sback = guarded(tu.strptime_to_utc_epoch, sstr)
        dy = guarded(tu.decimal_year, dt_in)
        yback = guarded(tu.decimal_year_to_utc_epoch, dy) if not isinstance(dy, Raised) else dy
        us = 0 if idx % 3 else rng.randrange(1, 1000)
        uback = guarded(tu.datetime_to_utc_epoch, dt_in + datetime.timedelta(microseconds=us))
        chk.count(5)
        b, s_, y_, u_ = pair_of(back), pair_of(sback), pair_of(yback), pair_of(uback)
        records.append([day, msd, dt.year, dt.month, dt.day, dt.hour, dt.minute, dt.second, msec,
                        b[0], b[1], s_[0], s_[1], y_[0], y_[1], us, u_[0], u_[1], 0])
        raw.append((ms, float('nan') if isinstance(dy, Raised) else float(dy)))
        d2 = min(abs(ms - a) for a in anchors[:12])
        if ms < 0 or d2 < 2000:
            chk.nontrivial(ms)
    # catalogs expose the same conversion
    cat = CSEPCatalog(data=[('e%d' % i, ms, 0.0, 0.0, 1.0, 5.0) for i, ms in enumerate(instants[:2000])])
    dts = guarded(cat.get_datetimes)
    chk.count()
    if isinstance(dts, Raised):
        chk.violation('get_datetimes raised', {'err': repr(dts)})
    else:
        for ms, d in zip(instants[:2000], dts):
            if (d - EPOCH) // datetime.timedelta(milliseconds=1) != ms or (d - EPOCH) % datetime.timedelta(milliseconds=1):
                chk.violation('get_datetimes: datetime differs from the epoch millisecond', {'ms': ms, 'datetime': str(d)})
                break
    # the conversions are about UTC whatever the local time zone of the process: the same round trips with the zone
    # set to US Eastern (a POSIX rule string, no zone files needed), including the instants of its clock changes
    import os
    import time as _time
    old_tz = os.environ.get('TZ')
    try:
        os.environ['TZ'] = 'EST5EDT,M3.2.0,M11.1.0'
        _time.tzset()
        sub = instants[:: max(1, len(instants) // 400)] + [ms_of(2021, 3, 14, 7, 0, 0) + k for k in (-3600000, -1, 0, 1, 1800000, 3600000)] + \
            [ms_of(2021, 11, 7, 6, 0, 0) + k for k in (-3600000, -1, 0, 1, 1800000, 3600000)]
        for ms in sub:
            dt = guarded(tu.epoch_time_to_utc_datetime, ms)
            if isinstance(dt, Raised):
                continue
            naive = dt.replace(tzinfo=None)
            b1, b2 = guarded(tu.datetime_to_utc_epoch, naive), guarded(tu.datetime_to_utc_epoch, dt)
            s1 = guarded(tu.strptime_to_utc_epoch, naive.strftime('%Y-%m-%d %H:%M:%S.%f'))
            chk.count(3)
            if any(isinstance(x, Raised) or int(x) != ms for x in (b1, b2, s1)) or (dt.year, dt.month, dt.day, dt.hour) != \
                    tuple((EPOCH + datetime.timedelta(milliseconds=ms)).timetuple()[:4]):
                chk.violation('local time zone changes a UTC conversion', {'epoch_ms': ms, 'TZ': os.environ['TZ'], 'datetime': str(dt),
                              'naive->epoch': repr(b1), 'aware->epoch': repr(b2), 'string->epoch': repr(s1)})
                break
        chk.nontrivial('tz|EST5EDT')
    finally:
        if old_tz is None:
            os.environ.pop('TZ', None)
        else:
            os.environ['TZ'] = old_tz
        _time.tzset()
    # chunks with decimal-year ranks
    chunk = 500
    traces = []
    for i in range(0, len(records), chunk):
        part = records[i:i + chunk]
        vals = [raw[i + j][1] for j in range(len(part))]
        order = sorted(set(v for v in vals if isinstance(v, float) and v == v))
        rk = {v: k for k, v in enumerate(order)}
        for j, r in enumerate(part):
            v = vals[j]
            r[18] = rk.get(v, -1) if isinstance(v, float) else -1
        traces.append(part)
    import copy
    bad = copy.deepcopy(traces[0])
    bad[3][8] = (bad[3][8] + 1) % 1000          # one civil millisecond field corrupted
    bad2 = copy.deepcopy(traces[0])
    bad2[5][18] = bad2[4][18]                     # decimal year not strictly increasing
    if bad2[5][:2] == bad2[4][:2]:
        bad2[5][18] += 5
    acc, rej = chk.validate_traces('TraceTimeConv', 'Trace_TimeConv.cfg', traces + [bad, bad2], chunk=40, parallel=14, timeout=2400)
    chk.traces = sum(len(traces[i]) for i in acc if i < len(traces))
    rej_idx = {i for i, _ in rej}
    chk.control('trace: corrupted civil millisecond rejected', len(traces) in rej_idx)
    chk.control('trace: non-increasing decimal year rejected', len(traces) + 1 in rej_idx)
    for i, diag in rej:
        if i >= len(traces):
            continue
        k = diag[-1]['explained_events'] if diag else 0
        r = traces[i][k]
        ms = r[0] * MS_DAY + r[1]
        x = (r[0], r[1])
        why = []
        if r[8] == -1 or r[2] == -1:
            why.append('epoch->datetime')
        if (r[9], r[10]) != x:
            why.append('datetime->epoch')
        if (r[11], r[12]) != x:
            why.append('string->epoch')
        if abs((r[13] * MS_DAY + r[14]) - ms) > 1:
            why.append('decimal-year inverse')
        if (r[16] * MS_DAY + r[17]) - ms not in ((0,) if r[15] == 0 else (0, 1)):
            why.append('sub-millisecond datetime')
        if not why:
            why.append('civil fields or decimal-year order')
        era = 'pre-1970' if ms < 0 else ('post-2106' if ms >= ms_of(2106, 2, 7, 6, 28, 16) else '1970-2106')
        chk.violation('trace:%s:%s' % ('+'.join(why), era), {'epoch_ms': ms, 'record': r,
                      'fields': '[day, ms, Y, M, D, h, mi, s, msec, bDay, bMs, sDay, sMs, yDay, yMs, us, uDay, uMs, dyRank]'})
    chk.sample({'record': traces[0][0], 'fields': '[day, ms, Y, M, D, h, mi, s, msec, bDay, bMs, sDay, sMs, yDay, yMs, us, uDay, uMs, dyRank]'})
    chk.sample({'record_near_2000': next((r for t in traces for r in t if r[2] == 2000), None)})
    chk.notes['instants'] = len(instants)
    chk.notes['window_half_width_ms'] = w
    chk.assume('the formatted string is produced by strftime of the datetime the library itself returned')
