"""X11 (extension, not a listed property) - Kagan's information score I_1 of gridded forecasts.

spec/KaganI1.tla   the case analysis of get_Kagan_I1_score (cells with zero rate add nothing but their events count in N; no
        event: not a number) and the algebra its docstring advertises, on exact rationals: RateScaleInvariant, GridInsensitive
        (a cell split into two halves with its events shared out), UniformIsZero, SingleCellSign, ZeroRateEventsKeepItFinite over
        all rows of <= 3 cells x 4 densities x 2 area classes x 0..2 events (28 849 states).  MCbug (events in zero-rate cells
        not counted) must be refuted.
spec -> code   GenKaganI1: all 14 424 cases are realised as a real region (cells of two latitude rows, so of two real areas),
        forecast (rate = density x real area) and catalog; the score must be sum_{contributing} n_i log2(d_i A / R) / N evaluated at
        50 digits with the areas from the closed formula, nan exactly when the specification says so.  The invariances are
        replayed on the real function too: the forecast scaled by 3, and - where TLC's split applies - the split row.
"""
import math
import random

from vh.core import MachineryError, guarded, Raised
from vh import xr


def run(chk, replay=None):
    import numpy
    import mpmath
    from csep.core.catalogs import CSEPCatalog
    from csep.core.regions import CartesianGrid2D
    from csep.core.forecasts import GriddedForecast
    from csep.utils import stats
    quick = chk.tier == 'quick'
    rng = random.Random(chk.seed + 1111)
    chk.rule = ('cases = every row of <= 3 cells x densities {0, 1, 2, 4} x 2 area classes x 0..2 events per cell from TLC (quick: a '
                'third), realised on real regions / forecasts / catalogs. non-trivial = distinct cases with an event in a zero-rate '
                'cell, several contributing cells, or no event')
    res = chk.tlc('KaganI1', 'MC_KaganI1.cfg', timeout=900)
    chk.require_coverage(res, ['AddCell', 'Finish'])
    r = chk.tlc('KaganI1', 'MCbug_KaganI1.cfg', expect='any', coverage=False, count_states=False)
    chk.control('model MCbug_KaganI1.cfg refuted', r.violated == 'ZeroRateEventsKeepItFinite')
    res = chk.tlc('GenKaganI1', 'Gen_KaganI1.cfg', workers=1, coverage=False, count_states=False, timeout=900)
    cases = res.tagged.get('CASE', [])
    if len(cases) < 14000:
        raise MachineryError('Gen produced %d cases' % len(cases))
    if quick:
        pick = random.Random(chk.seed * 7919 + 11)
        cases = [c for c in cases if pick.random() < 1.0 / 3]

    mags = numpy.array([4.0, 5.0])
    LAT = {2: 0.0, 1: 60.0}          # area class -> latitude of the row (a 1-degree cell at 60 N has about half the area)

    def area(lat0):
        return mpmath.mpf(6371) ** 2 * mpmath.radians(1) * (mpmath.sin(mpmath.radians(lat0 + 1)) - mpmath.sin(mpmath.radians(lat0)))

    def build(cells, factor=1.0):
        origins = [(float(i), LAT[c['a']]) for i, c in enumerate(cells)]
        region = CartesianGrid2D.from_origins(numpy.array(origins), dh=1.0, magnitudes=mags)
        real_areas = [area(LAT[c['a']]) for c in cells]
        rates = [float(c['d'] * real_areas[i]) for i, c in enumerate(cells)]
        data = numpy.array([[0.75 * r_, 0.25 * r_] for r_ in rates])
        fc = GriddedForecast(region=region, magnitudes=mags, data=data, name='f')
        if factor != 1.0:
            fc.scale(factor)
        ev = []
        for i, c in enumerate(cells):
            for k in range(c['n']):
                ev.append(('e%d_%d' % (i, k), 1000 * len(ev), LAT[c['a']] + [0.5, 0.0, 0.9][k % 3], i + [0.5, 0.0][k % 2], 10.0, 4.5 + k))
        rng.shuffle(ev)
        cat = CSEPCatalog(data=ev, region=region)
        return fc, cat, real_areas, rates

    def expected(case, real_areas, rates):
        if not case['number']:
            return None
        cells = case['cells']
        R = mpmath.fsum(mpmath.mpf(x) for x in rates)
        A = mpmath.fsum(real_areas)
        tot = mpmath.mpf(0)
        for i in case['contrib']:
            c = cells[i - 1]
            tot += c['n'] * mpmath.log((mpmath.mpf(rates[i - 1]) / real_areas[i - 1]) / (R / A), 2)
        return tot / case['n']

    def score(fc, cat, as_list):
        import warnings
        with warnings.catch_warnings(), numpy.errstate(all='ignore'):
            warnings.simplefilter('ignore')
            r_ = guarded(stats.get_Kagan_I1_score, [fc] if as_list else fc, cat)
        chk.count()
        return r_

    def check_case(case, ci):
        cells = case['cells']
        fc, cat, real_areas, rates = build(cells)
        got = score(fc, cat, ci % 2 == 0)
        want = expected(case, real_areas, rates)
        if isinstance(got, Raised):
            return {'why': 'raised', 'err': repr(got)}
        got = numpy.asarray(got, dtype=float).reshape(-1)
        if len(got) != 1:
            return {'why': 'shape', 'got': got.tolist()}
        g = float(got[0])
        if want is None:
            return None if math.isnan(g) else {'why': 'expected not-a-number (no observed event)', 'got': g}
        # the cell areas of the library are compared with the closed formula to 1e-6 by X06: the score inherits that
        if math.isnan(g) or not xr.close(g, want, rtol=1e-9, atol=1e-6):
            return {'why': 'value', 'got': g, 'expected': float(want)}
        # insensitive to the overall rate: the same forecast scaled by 3
        fc3, cat3, _, _ = build(cells, factor=3.0)
        g3 = score(fc3, cat3, ci % 2 == 1)
        if isinstance(g3, Raised) or abs(float(numpy.asarray(g3).reshape(-1)[0]) - g) > 1e-12 * max(1.0, abs(g)):
            return {'why': 'changes when the forecast is scaled by 3', 'got': repr(g3), 'unscaled': g}
        return None

    if replay:
        d = replay['detail']
        bad = check_case(d['case'], d['ci'])
        if bad:
            chk.violation(replay['signature'], dict(d, mismatch=bad))
        chk.sample({'replayed': d['case']['cells']})
        return

    ok = 0
    for ci, case in enumerate(cases):
        bad = check_case(case, ci)
        cells = case['cells']
        zero_hit = any(c['d'] == 0 and c['n'] > 0 for c in cells)
        if zero_hit or len(case['contrib']) > 1 or case['n'] == 0:
            chk.nontrivial('%s' % [(c['d'], c['a'], c['n']) for c in cells])
        if bad:
            cls = 'no-event' if case['n'] == 0 else ('event-in-zero-rate-cell' if zero_hit else ('no-contributing-cell' if not case['contrib'] else 'ordinary'))
            chk.violation('i1:%s:%s' % (bad['why'].split(' (')[0], cls), {'case': case, 'ci': ci, 'mismatch': bad})
        else:
            ok += 1
        if ci in (40, 3000):
            chk.sample({'case': case})
    chk.traces += ok
    import copy
    ctl = copy.deepcopy(next(c for c in cases if len(c['contrib']) >= 1 and any(x['d'] == 0 and x['n'] > 0 for x in c['cells'])))
    ctl['n'] -= 1
    chk.control('gen: N without the event in the zero-rate cell flagged', check_case(ctl, 0) is not None)
    chk.exhaustive = True
    chk.assume('cell areas: the closed formula of the spherical rectangle (checked against the library by X06); score compared to 1e-6 absolute')
