"""C07 - number tests report the exact tail probabilities of the forecast count law.

spec/NumberTest.tla   TLC: the library's eps-shifted cdf expressions denote exactly the events {N >= n} and {N <= n}
        (ImplMatchesSpec), InclusiveTails, SumIdentity (the two events cover everything and overlap in {n}),
        EmpiricalExact, MonotoneInN; n = 0..6, all multisets of <= 5 catalog sizes.
code -> spec (TraceNumberTest)  for every evaluation TLC states which outcome interval each delta must be the mass of; the
        harness evaluates that mass for the concrete Poisson / negative-binomial law at 50 digits; empirical laws are
        checked exactly by TLC; monotonicity in the forecast mean is checked by TLC on exact float ranks.
"""
import random
from fractions import Fraction

from vh.core import MachineryError, guarded, Raised
from vh import xr


def _mass_by_recurrence(mp, lo, hi, pmf0, ratio):
    """P(lo <= N <= hi) by summing the probability mass function with its one-step recurrence
    pmf(j+1) = pmf(j) * ratio(j) (50-digit arithmetic; hi = -1 means infinity -> 1 - P(N <= lo-1))."""
    def cdf(k):
        if k < 0:
            return mp.mpf(0)
        tot = mp.mpf(0)
        term = pmf0
        for j in range(0, k + 1):
            tot += term
            term = term * ratio(j)
        return tot
    if hi == -1:
        return 1 - cdf(lo - 1)
    return cdf(hi) - cdf(lo - 1)


def mass_poisson(mp, lo, hi, mean):
    mean = mp.mpf(mean)
    return _mass_by_recurrence(mp, lo, hi, mp.exp(-mean), lambda j: mean / (j + 1))


def mass_nbd(mp, lo, hi, mean, var):
    mean, var = mp.mpf(mean), mp.mpf(var)
    p = mean / var
    r = mean * mean / (var - mean)
    return _mass_by_recurrence(mp, lo, hi, mp.exp(r * mp.log(p)), lambda j: (j + r) / (j + 1) * (1 - p))


def run(chk, replay=None):
    import numpy
    import mpmath as mp
    from csep.core import poisson_evaluations as pe, binomial_evaluations as be, catalog_evaluations as ce
    from vh.drivers.c05 import Builder
    from vh.drivers.c13 import World, build_forecast
    quick = chk.tier == 'quick'
    rng = random.Random(chk.seed + 707)
    B = Builder()
    world = World()
    chk.rule = ('evaluations = n_obs 0..6 exhaustively x forecast totals 1e-6..1e5 (also after scale()) for the Poisson and NBD '
                'tests, large counts up to 1e5, NBD variances from just above the mean to 1e6, catalog N-tests on random multisets '
                'of synthetic-catalog sizes with ties at n_obs, and monotone sequences of means. non-trivial = distinct (law, n, '
                'mean class) with n at / next to the mode, n = 0, or a tie in the empirical law')
    res = chk.tlc('NumberTest', 'MC_NumberTest.cfg', timeout=900)
    chk.require_coverage(res, ['Next'])

    traces, meta = [], []

    def forecast_with_total(total, nc=3, nb=2, scale=None, dtype=None):
        share = numpy.array([[0.5, 0.1], [0.2, 0.05], [0.1, 0.05]])[:nc, :nb]
        share = share / share.sum()
        data = share * (total / (scale if scale else 1.0))
        fc = B.forecast(data, dtype=dtype)
        if scale:
            fc.scale(scale)
        return fc

    def catalog_with(n, nc=3, nb=2):
        # several events per cell: n_obs must be the number of events, not of occupied cells
        w = [[0] * nb for _ in range(nc)]
        for i in range(n):
            w[(i // 3) % nc][0 if i % 2 else (nb - 1)] += 1
        return B.catalog(w, nc, nb)

    def add_tails(law, n, d1, d2, params):
        traces.append({'kind': 'tails', 'law': law, 'n': int(n), 'sizes': [], 'ge': 0, 'le': 0, 'r1': [], 'r2': []})
        meta.append({'law': law, 'n': int(n), 'd1': d1, 'd2': d2, 'params': params})

    totals = [1e-6, 1e-3, 0.1, 0.5, 1.0, 2.5, 6.0, 17.3, 250.0, 1e4, 1e5]
    ns = list(range(0, 7))
    # Poisson and NBD, small n exhaustively
    for total in totals:
        for n in ns:
            for scale in (None, 0.25) if not quick else ((None,) if n % 2 else (0.25,)):
                fc = forecast_with_total(total, scale=scale)
                mean = float(fc.event_count)
                cat = catalog_with(n)
                r = guarded(pe.number_test, fc, cat)
                chk.count()
                if isinstance(r, Raised):
                    chk.violation('poisson:raised', {'total': total, 'n': n, 'err': repr(r)})
                else:
                    add_tails('poisson', n, float(r.quantile[0]), float(r.quantile[1]), {'mean': mean, 'scale': scale})
                    if r.observed_statistic != n:
                        chk.violation('poisson:observed_statistic is not the event count', {'n': n, 'got': r.observed_statistic})
                chk.nontrivial('p|%s|%d|%s' % (total, n, scale))
            for vf in (1.0000001, 1.5, 10.0, 1e3) + ((1e6 / max(total, 1e-6),) if total < 1e6 else ()):
                var = total * vf if vf < 1e5 else 1e6
                if var <= total:
                    continue
                fc = forecast_with_total(total)
                mean = float(fc.event_count)
                if var <= mean:
                    continue
                r = guarded(be.negative_binomial_number_test, fc, catalog_with(n), var)
                chk.count()
                if isinstance(r, Raised):
                    chk.violation('nbd:raised', {'total': total, 'n': n, 'var': var, 'err': repr(r)})
                else:
                    add_tails('nbd', n, float(r.quantile[0]), float(r.quantile[1]), {'mean': mean, 'var': var})
                chk.nontrivial('nb|%s|%d|%s' % (total, n, vf))
    # observed counts of the size of the forecast total (tens to hundreds), forecasts held in double or single precision:
    # P(N >= n) must still include P(N = n) when n - 1e-6 is not representable next to n in the forecast's own precision
    for total, n in ((40.0, 40), (40.0, 33), (35.5, 50), (250.0, 250), (100.0, 64), (1000.0, 1024), (16.0, 17)) + \
            (((1e4, 10000), (1e5, 100000), (1e5, 99000)) if not quick else ((1e4, 10000),)):
        for dtype in (None, 'float32'):
            for scale in (None, 0.5):
                fc = forecast_with_total(total, scale=scale, dtype=dtype)
                mean = float(fc.event_count)
                cat = catalog_with(n)
                r = guarded(pe.number_test, fc, cat)
                r2 = guarded(be.negative_binomial_number_test, fc, cat, 3.0 * mean)
                chk.count(2)
                # (the NBD parameters are derived from the total in the forecast's own precision: compared for double only)
                for law, rr, prm in (('poisson', r, {'mean': mean, 'scale': scale, 'dtype': dtype}),) + \
                        ((('nbd', r2, {'mean': mean, 'var': 3.0 * mean, 'dtype': dtype}),) if dtype is None else ()):
                    if isinstance(rr, Raised):
                        chk.violation('%s:raised' % law, {'total': total, 'n': n, 'dtype': dtype, 'err': repr(rr)})
                    else:
                        add_tails(law, n, float(rr.quantile[0]), float(rr.quantile[1]), prm)
                chk.nontrivial('big|%s|%d|%s|%s' % (total, n, dtype, scale))
    # forecasts whose rate array holds whole numbers (an integer dtype) scaled by a non-integer factor: the total is the
    # scaled sum whatever the storage type of the rates
    for factor in (0.5, 0.25, 2.5, 0.99999, 1.000004, 1 - 2.0 ** -20):       # (the last three: almost, but not, unscaled)
        for dtype in ('int64', 'int32', 'float64'):
            data = numpy.array([[12, 3], [20, 1], [4, 0]], dtype=dtype)
            fci = B.forecast(numpy.array(data, dtype=float), dtype=dtype)
            fci.scale(factor)
            mean = 40.0 * factor
            got_total = guarded(lambda: float(fci.event_count))
            chk.count()
            if isinstance(got_total, Raised) or abs(got_total - mean) > 1e-12 * mean:
                chk.violation('poisson:scaled total of an integer-typed forecast', {'dtype': dtype, 'factor': factor, 'got': repr(got_total), 'expected': mean})
                continue
            for n in (0, int(mean), int(mean) + 7):
                r = guarded(pe.number_test, fci, catalog_with(n))
                chk.count()
                if isinstance(r, Raised):
                    chk.violation('poisson:raised', {'dtype': dtype, 'factor': factor, 'n': n, 'err': repr(r)})
                else:
                    add_tails('poisson', n, float(r.quantile[0]), float(r.quantile[1]), {'mean': mean, 'scale': factor, 'dtype': dtype})
            chk.nontrivial('intscale|%s|%s' % (dtype, factor))
    # array scale factors (one per cell, one per magnitude bin, one per bin): the total is the sum of the scaled rates
    base = numpy.array([[12.0, 3.0], [20.0, 1.0], [4.0, 0.5]])
    for tag, factor in (('per-cell', numpy.array([[0.5], [2.0], [0.25]])), ('per-magnitude', numpy.array([[0.5, 4.0]])),
                        ('per-bin', numpy.array([[1.0, 2.0], [0.5, 0.0], [4.0, 8.0]]))):
        fca = B.forecast(base)
        fca.scale(factor)
        mean = float((base * factor).sum())
        got_total = guarded(lambda: fca.event_count)
        chk.count()
        if isinstance(got_total, Raised) or numpy.ndim(got_total) != 0 or abs(float(got_total) - mean) > 1e-12 * mean:
            chk.violation('poisson:scaled total of a forecast with an array scale factor', {'factor': tag, 'got': repr(got_total), 'expected': mean})
            continue
        for n in (0, int(mean), int(mean) + 9):
            r = guarded(pe.number_test, fca, catalog_with(n))
            chk.count()
            if isinstance(r, Raised) or numpy.ndim(r.quantile[0]) != 0:
                chk.violation('poisson:raised', {'factor': tag, 'n': n, 'err': repr(r) if isinstance(r, Raised) else 'quantile is not a pair of numbers'})
            else:
                add_tails('poisson', n, float(r.quantile[0]), float(r.quantile[1]), {'mean': mean, 'scale': tag, 'dtype': 'float64'})
        chk.nontrivial('arrayscale|%s' % tag)
    # the same forecast object evaluated, rescaled and evaluated again: the law must follow the current total
    for total in (0.5, 6.0, 250.0):
        for n in (0, 3, 9):
            fc = forecast_with_total(total)
            cat = catalog_with(n)
            for step, factor in enumerate((None, 2.0, 0.25, 1.0, 3.0)):
                if factor is not None:
                    fc.scale(factor)
                mean_now = total * (factor if factor is not None else 1.0)
                _ = float(fc.event_count)           # reading the total must not freeze it
                r = guarded(pe.number_test, fc, cat)
                r2 = guarded(be.negative_binomial_number_test, fc, cat, 4.0 * max(mean_now, 1.0) + 1.0)
                chk.count(2)
                exact_mean = float(numpy.sum(numpy.asarray(fc.data, dtype=float)))
                if isinstance(r, Raised) or isinstance(r2, Raised):
                    chk.violation('rescaled:raised', {'total': total, 'n': n, 'factor': factor, 'err': repr(r) + repr(r2)})
                    continue
                add_tails('poisson', n, float(r.quantile[0]), float(r.quantile[1]), {'mean': exact_mean, 'scale': factor, 'sequence_step': step})
                add_tails('nbd', n, float(r2.quantile[0]), float(r2.quantile[1]), {'mean': exact_mean, 'var': 4.0 * max(mean_now, 1.0) + 1.0, 'sequence_step': step})
                chk.nontrivial('seq|%s|%d|%d' % (total, n, step))
    # large counts around the mean
    for total in (30.0, 1e3, 1e5):
        for n in sorted(set(int(total + k * total ** 0.5) for k in (-6, -2, -1, 0, 1, 2, 6)) | {int(total) + 1}):
            if n < 0 or (quick and n > 2000 and n % 2):
                continue
            r = guarded(pe._number_test_ndarray, total, n)
            chk.count()
            if isinstance(r, Raised):
                chk.violation('poisson:raised', {'total': total, 'n': n, 'err': repr(r)})
            else:
                add_tails('poisson', n, float(r[0]), float(r[1]), {'mean': total})
            r = guarded(be._nbd_number_test_ndarray, total, n, total * 3.0)
            chk.count()
            if not isinstance(r, Raised):
                add_tails('nbd', n, float(r[0]), float(r[1]), {'mean': total, 'var': total * 3.0})
            chk.nontrivial('big|%s|%d' % (total, n))
    # monotone in the mean
    for n in (0, 1, 3, 10, 200):
        means = [10 ** (-3 + 0.25 * i) for i in range(28)]
        for law in ('poisson', 'nbd'):
            vals = []
            for m in means:
                if law == 'poisson':
                    r = guarded(pe._number_test_ndarray, m, n)
                else:
                    r = guarded(be._nbd_number_test_ndarray, m, n, 1.0e4)      # fixed variance above every mean
                chk.count()
                if isinstance(r, Raised):
                    chk.violation('%s:raised' % law, {'mean': m, 'n': n, 'err': repr(r)})
                    vals = None
                    break
                vals.append((float(r[0]), float(r[1])))
            if not vals:
                continue

            def ranks(xs):
                # exact float order, values within 8 ulps are ties (rounding of 1 - cdf)
                order = sorted(set(xs))
                rk, cur, last = {}, 0, None
                for v in order:
                    if last is not None and abs(v - last) > 8 * numpy.spacing(max(abs(v), abs(last), 1e-300)):
                        cur += 1
                    rk[v] = cur
                    last = v
                return [rk[v] for v in xs]
            traces.append({'kind': 'monotone', 'law': law, 'n': n, 'sizes': [], 'ge': 0, 'le': 0,
                           'r1': ranks([v[0] for v in vals]), 'r2': ranks([v[1] for v in vals])})
            meta.append({'law': law, 'n': n, 'means_head': means[:4], 'values_head': vals[:4]})
            for v in vals:
                if not (0.0 <= v[0] <= 1.0 and 0.0 <= v[1] <= 1.0):
                    chk.violation('%s:delta outside [0,1]' % law, {'n': n, 'value': v})
    # catalog N-test: empirical law
    import os
    path = os.path.join(chk.tmp, 'c07.csv')
    for t in range(40 if quick else 3000):
        ncat = rng.randint(1, 12)
        sizes = [rng.choice([0, 1, 1, 2, 3, 3, 5]) for _ in range(ncat)]
        u = 0
        cats = []
        for sz in sizes:
            c = []
            for _ in range(sz):
                u += 1
                c.append({'u': u, 'b': rng.randint(1, 4), 'm': True, 's': True})
            cats.append(c)
        conf = {'src': rng.choice(['list', 'store', 'nostore']) if t % 3 != 2 else 'list', 'filt': False, 'spat': False}
        fcst = build_forecast(world, conf, cats, path)
        n = rng.choice(sizes + [0, 4, 6])
        from csep.core.catalogs import CSEPCatalog
        obs = CSEPCatalog(data=[('o%d' % i, 10 ** 12 + i, 0.5, 0.5 + (i % 2), 5.0, 4.5) for i in range(n)], region=world.make_region())
        if t % 3 == 2 and conf['src'] == 'list':
            # the probabilities describe the synthetic catalogs as they are when the test is called: a complete pass that
            # drops every second event of each catalog in place (a user's filtering loop) comes first
            for c_ in fcst:
                c_.catalog = c_.catalog[::2]
            sizes = [(sz + 1) // 2 for sz in sizes]
            n = rng.choice(sizes + [0, 2])
            obs = CSEPCatalog(data=[('o%d' % i, 10 ** 12 + i, 0.5, 0.5 + (i % 2), 5.0, 4.5) for i in range(n)], region=world.make_region())
        r = guarded(ce.number_test, fcst, obs, verbose=False)
        chk.count()
        if isinstance(r, Raised):
            chk.violation('empirical:raised', {'sizes': sizes, 'n': n, 'err': repr(r)})
            continue
        d1, d2 = float(r.quantile[0]), float(r.quantile[1])
        k1, k2 = int(round(d1 * ncat)), int(round(d2 * ncat))
        if k1 / ncat != d1 or k2 / ncat != d2:
            chk.violation('empirical:not a multiple of 1/n_cat', {'sizes': sizes, 'n': n, 'd1': d1, 'd2': d2})
            continue
        traces.append({'kind': 'empirical', 'law': 'empirical', 'n': n, 'sizes': sizes, 'ge': k1, 'le': k2, 'r1': [], 'r2': []})
        meta.append({'law': 'empirical', 'sizes': sizes, 'n': n, 'd1': d1, 'd2': d2, 'src': conf['src']})
        if n in sizes:
            chk.nontrivial('emp|%s|%d' % (sorted(sizes), n))
    # ... and on large catalogs, whose sizes differ from the observed number by exactly one event
    from csep.core.catalogs import CSEPCatalog
    from csep.core.forecasts import CatalogForecast
    base = numpy.zeros(100003, dtype=CSEPCatalog.dtype)
    base['id'] = [b'b%d' % i for i in range(len(base))]
    base['origin_time'] = 10 ** 12 + numpy.arange(len(base))
    base['latitude'], base['longitude'], base['depth'], base['magnitude'] = 0.5, 0.5, 5.0, 4.5
    for sizes, n in (([99999, 100001], 100000), ([100000, 100001, 99999, 100002], 100000), ([100001, 100001, 100003], 100002),
                     ([99998, 99999], 99999)):
        fcst = CatalogForecast(catalogs=[CSEPCatalog(data=base[:sz].copy(), catalog_id=i) for i, sz in enumerate(sizes)],
                               region=world.make_region(), name='big')
        obs = CSEPCatalog(data=base[:n].copy(), region=world.make_region())
        r = guarded(ce.number_test, fcst, obs, verbose=False)
        chk.count()
        if isinstance(r, Raised):
            chk.violation('empirical:raised', {'sizes': sizes, 'n': n, 'err': repr(r)})
            continue
        ncat = len(sizes)
        d1, d2 = float(r.quantile[0]), float(r.quantile[1])
        k1, k2 = int(round(d1 * ncat)), int(round(d2 * ncat))
        if k1 / ncat != d1 or k2 / ncat != d2:
            chk.violation('empirical:not a multiple of 1/n_cat', {'sizes': sizes, 'n': n, 'd1': d1, 'd2': d2})
            continue
        traces.append({'kind': 'empirical', 'law': 'empirical', 'n': n, 'sizes': sizes, 'ge': k1, 'le': k2, 'r1': [], 'r2': []})
        meta.append({'law': 'empirical', 'sizes': sizes, 'n': n, 'd1': d1, 'd2': d2, 'src': 'list'})
        chk.nontrivial('emp-large|%s|%d' % (sizes, n))
    # negative controls
    import copy
    ctl = copy.deepcopy(next(t for t in traces if t['kind'] == 'empirical'))
    ctl['ge'] += 1
    ctl2 = {'kind': 'monotone', 'law': 'poisson', 'n': 1, 'sizes': [], 'ge': 0, 'le': 0, 'r1': [0, 2, 1], 'r2': [2, 1, 0]}
    import json
    path = os.path.join(chk.tmp, 'nt.json')
    with open(path, 'w') as f:
        json.dump(traces + [ctl, ctl2], f)
    r = chk.tlc('TraceNumberTest', 'Trace_NumberTest.cfg', workers=1, env={'TRACE_FILE': path}, coverage=False, timeout=1800)
    acc = set(r.tagged.get('ACCEPT', []))
    exps = {e['tid']: e for e in r.tagged.get('EXPECT', [])}
    chk.control('trace: corrupted empirical numerator rejected', (len(traces) + 1) not in acc)
    chk.control('trace: non-monotone rank sequence rejected', (len(traces) + 2) not in acc)
    okc = 0
    ctl_done = False
    for i, tr in enumerate(traces):
        m = meta[i]
        if (i + 1) not in acc:
            chk.violation('%s:%s' % (tr['kind'], m['law']), m)
            continue
        if tr['kind'] != 'tails':
            okc += 1
            continue
        e = exps[i + 1]
        good = True
        for key, got in (('d1', m['d1']), ('d2', m['d2'])):
            iv = e[key]
            if m['law'] == 'poisson':
                ex = mass_poisson(mp, iv['lo'], iv['hi'], Fraction(m['params']['mean']).numerator / mp.mpf(Fraction(m['params']['mean']).denominator))
            else:
                ex = mass_nbd(mp, iv['lo'], iv['hi'], mp.mpf(m['params']['mean']), mp.mpf(m['params']['var']))
            rtol = 1e-9
            if m['law'] == 'nbd':
                # p = mean/var and r = mean^2/(var-mean) are formed in double precision: ill-conditioned when the variance
                # is only just above the mean (relative rounding eps*var/(var-mean) in the parameters themselves)
                rtol += 64 * 2.0 ** -52 * m['params']['var'] / (m['params']['var'] - m['params']['mean']) * max(1, m['n'])
            if not xr.close(got, ex, rtol=rtol, atol=2e-12) or not (0.0 <= got <= 1.0):
                good = False
                pos = 'n=0' if m['n'] == 0 else ('n<mean' if m['n'] < m['params']['mean'] else 'n>=mean')
                chk.violation('tails:%s:%s:%s' % (m['law'], 'delta1' if key == 'd1' else 'delta2', pos),
                              dict(m, interval=iv, got=got, expected=str(ex)))
            elif not ctl_done and float(ex) > 1e-3:
                chk.control('tails: perturbed probability flagged', not xr.close(got + 1e-9, ex, rtol=1e-12, atol=2e-12))
                ctl_done = True
        okc += 1 if good else 0
    chk.traces += okc
    chk.sample({'tails_record': traces[0], 'expected_intervals': exps.get(1), 'code_values': [meta[0]['d1'], meta[0]['d2']]})
    emp = next(i for i, t in enumerate(traces) if t['kind'] == 'empirical')
    chk.sample({'empirical_record': traces[emp]})
    chk.notes['tolerance'] = 'rtol 1e-9, atol 2e-12 against 50-digit incomplete gamma / beta'
    chk.assume('NBD variance strictly larger than the mean; n_obs is an integer event count')
