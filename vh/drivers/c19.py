"""C19 - catalog readers decode every well-formed record of each supported format.

spec/Readers.tla (uses Civil.tla)  TLC: RolloverCorrect (a second written as 60 is the start of the next minute, across hour /
        day / month / year / leap-day ends), OffsetCorrect, ResolutionCorrect, DateValid on boundary records for all formats.
code -> spec (TraceReaders)  files of 1..N random records are rendered in each format's text layout (ZMAP columns, JMA ';'-CSV
        with UTC offsets, HORUS table, NDK 5-line fixed-width blocks, CSEP CSV), loaded with csep.load_catalog(type=...), and
        TLC checks one event per record, file order, and that each event's instant equals the specification's normalisation
        of the written civil time at the format's resolution; coordinates / depth / magnitude are compared by the harness.
"""
import math
import os
import random

from vh.core import MachineryError, guarded, Raised, other_surroundings

MS_DAY = 86400000


def days_in_month(y, m):
    if m == 2:
        return 29 if (y % 4 == 0 and y % 100 != 0) or y % 400 == 0 else 28
    return 31 if m in (1, 3, 5, 7, 8, 10, 12) else 30


def random_record(rng, fmt):
    boundary = rng.random() < 0.35
    y = rng.choice([1960, 1969, 1970, 1999, 2000, 2010, 2019, 2020, 2024, 2037, 2038, 2099, 2004, 1987, 1978, 1952]) if boundary else rng.randint(1950, 2099)
    if fmt in ('ndk', 'ingv_horus') and y < 1970 and False:
        y += 50
    mo = rng.choice([1, 2, 3, 12]) if boundary else rng.randint(1, 12)
    d = rng.choice([1, days_in_month(y, mo)]) if boundary else rng.randint(1, days_in_month(y, mo))
    h = rng.choice([0, 23]) if boundary else rng.randint(0, 23)
    mi = rng.choice([0, 59]) if boundary else rng.randint(0, 59)
    s = rng.choice([0, 59]) if boundary else rng.randint(0, 59)
    ms = rng.choice([0, 1, 500, 999]) if boundary else rng.randint(0, 999)
    if y in (2004, 1987, 1978, 1952, 2038):
        # (years in which the count of seconds since 1970 has just passed a power of two: a double holds it with the coarsest
        #  fraction of its binade, so every millisecond value is tried, not only the round ones)
        ms = rng.randint(1, 999)
    off = 0
    if fmt == 'jma-csv':
        off = rng.choice([540, 540, 0, -300, 330])
    if fmt in ('ndk', 'ingv_horus') and rng.random() < 0.15:
        s, ms = 60, 0
    if fmt == 'ndk':
        ms = (ms // 100) * 100
    if fmt == 'zmap':
        ms = 0
    if fmt == 'ingv_horus':
        ms = (ms // 10) * 10
    lon = round(rng.uniform(-180, 180), 2 if fmt == 'ndk' else 4)
    lat = round(rng.uniform(-90, 90), 2)
    dep = round(rng.uniform(0, 99.9), 1)
    mag = round(rng.uniform(1.0, 9.0), 2)
    # exactly zero is a legitimate value of every numeric field (surface events, the equator, the prime meridian)
    if rng.random() < 0.12:
        dep = 0.0
    if rng.random() < 0.06:
        lat = 0.0
    if rng.random() < 0.06:
        lon = 0.0
    # ... and so are the ends of the coordinate ranges: the date line written as +180 or -180, the poles
    if rng.random() < 0.07:
        lon = rng.choice([180.0, -180.0])
    if rng.random() < 0.04:
        lat = rng.choice([90.0, -90.0])
    return {'y': y, 'mo': mo, 'd': d, 'h': h, 'mi': mi, 's': s, 'ms': ms, 'off': off, 'lon': lon, 'lat': lat, 'dep': dep, 'mag': mag}


def render(fmt, recs, rng):
    """Text of a file holding recs; returns (text, expected magnitudes)."""
    lines = []
    mags = []
    if fmt == 'zmap':
        # every third file size writes the real numbers the way Matlab / numpy.savetxt do (17 significant digits, exponent
        # notation): the same doubles, spelled out in full
        ff = (lambda v: '%.16e' % v) if len(recs) % 3 == 2 else repr
        for r in recs:
            lines.append('%s %s %d %d %d %s %s %d %d %d' % (ff(r['lon']), ff(r['lat']), r['y'], r['mo'], r['d'], ff(r['mag']), ff(r['dep']), r['h'], r['mi'], r['s']))
            mags.append(r['mag'])
    elif fmt == 'jma-csv':
        lines.append('timestamp;longitude;latitude;depth;magnitude')
        for i, r in enumerate(recs):
            sign = '+' if r['off'] >= 0 else '-'
            o = abs(r['off'])
            offs = '%s%02d:%02d' % (sign, o // 60, o % 60) if i % 2 else '%s%02d%02d' % (sign, o // 60, o % 60)
            lines.append('%04d-%02d-%02dT%02d:%02d:%02d.%06d%s;%r;%r;%r;%r' % (r['y'], r['mo'], r['d'], r['h'], r['mi'], r['s'], r['ms'] * 1000,
                                                                             offs, r['lon'], r['lat'], r['dep'], r['mag']))
            mags.append(r['mag'])
    elif fmt == 'ingv_horus':
        lines.append('Year Mo Da Ho Mi Se Lat Lon Depth Mw')
        for r in recs:
            lines.append('%d %d %d %d %d %.2f %r %r %r %r' % (r['y'], r['mo'], r['d'], r['h'], r['mi'], r['s'] + r['ms'] / 1000.0, r['lat'], r['lon'], r['dep'], r['mag']))
            mags.append(r['mag'])
    elif fmt == 'csep-csv':
        lines.append('lon,lat,mag,time_string,depth,catalog_id,event_id')
        for i, r in enumerate(recs):
            t = '%04d-%02d-%02dT%02d:%02d:%02d' % (r['y'], r['mo'], r['d'], r['h'], r['mi'], r['s'])
            if r['ms'] % 10 == 0 and r['ms'] and i % 3 == 0:
                t += '.' + ('%03d' % r['ms']).rstrip('0')            # .5 = 500 ms, .25 = 250 ms
            elif r['ms'] or i % 2:
                t += '.%06d' % (r['ms'] * 1000)
            lines.append('%r,%r,%r,%s,%r,%s,%s' % (r['lon'], r['lat'], r['mag'], t, r['dep'], '0' if i % 3 else '', 'ev%d' % i))
            mags.append(r['mag'])
    elif fmt == 'ndk':
        for i, r in enumerate(recs):
            date = '%04d/%02d/%02d' % (r['y'], r['mo'], r['d'])
            time_ = '%02d:%02d:%02d.%d' % (r['h'], r['mi'], r['s'], r['ms'] // 100)
            l1 = '%-4s %-10s %-10s %6.2f %7.2f %5.1f %3.1f %3.1f %-24s' % ('PDE', date, time_, r['lat'], r['lon'], r['dep'], 5.0, 5.1, 'SOMEWHERE ON EARTH')
            l2 = '%-16s %-44s %-6s %s' % ('C%013dA' % i, 'B: 10   20  40 S: 10   20  50 M:  0    0   0', 'CMT: 1', 'TRIHD:  1.5')
            l3 = 'CENTROID: ' + '%8.1f%4.1f%7.2f%5.2f%8.2f%5.2f%6.1f%5.1f' % (2.5, 0.1, r['lat'], 0.01, r['lon'], 0.01, r['dep'], 0.1) + ' FREE S-20100101000000'
            expo = rng.choice([22, 23, 24, 25, 26, 27])
            l4 = '%2d' % expo + ''.join(' %6.3f %5.3f' % (rng.uniform(-9, 9), 0.01) for _ in range(6))
            m0 = round(rng.uniform(1.0, 9.999), 3)
            l5 = 'V10' + ''.join(' %7.3f %2d %3d' % (rng.uniform(-9, 9), rng.randint(0, 89), rng.randint(0, 359)) for _ in range(3)) + \
                 ' %7.3f' % m0 + ' %3d %2d %4d %3d %2d %4d' % (10, 20, 30, 190, 70, -150)
            lines += [l1, l2, l3, l4, l5]
            mags.append(2.0 / 3.0 * (math.log10(float('%7.3f' % m0) * (10 ** (expo - 7))) - 9.1))
    return '\n'.join(lines) + '\n', mags


def run(chk, replay=None):
    import numpy
    import csep
    quick = chk.tier == 'quick'
    rng = random.Random(chk.seed + 1919)
    chk.rule = ('files = random record lists (1..200 quick / 1..2000 thorough records; 35% on minute / hour / day / month / year / leap-day '
                'ends; seconds written as 60 for NDK and HORUS; UTC offsets for JMA) rendered in each of the 5 formats. non-trivial = '
                'distinct (format, record) on a boundary, with second 60, a non-zero offset or a pre-1970 time')
    res = chk.tlc('Readers', 'MC_Readers.cfg', timeout=600)
    path = os.path.join(chk.tmp, 'cat.txt')
    traces, metas = [], []
    formats = ['csep-csv', 'zmap', 'jma-csv', 'ingv_horus', 'ndk']
    sizes = [1, 2, 3, 17, 200] if quick else [1, 2, 3, 17, 200, 2000]
    reps = 3 if quick else 80
    for fmt in formats:
        for n in sizes:
            for rep in range(reps if n < 200 else max(1, reps // 3)):
                recs = [random_record(rng, fmt) for _ in range(n)]
                text, mags = render(fmt, recs, rng)
                if rep % 3 == 1:
                    text = text.rstrip('\n')          # the last record need not be followed by a line break
                with open(path, 'w', newline='') as f:
                    f.write(text)
                # the file is named by a str, by a pathlib.Path, or relative to the working directory of a program that
                # changed its process-wide settings
                if rep % 3 == 2:
                    import pathlib
                    cat = guarded(csep.load_catalog, pathlib.Path(path), type=fmt)
                elif rep % 3 == 1 and n % 2:
                    with other_surroundings(cwd=os.path.dirname(path)):
                        cat = guarded(csep.load_catalog, os.path.basename(path), type=fmt)
                else:
                    cat = guarded(csep.load_catalog, path, type=fmt)
                chk.count(n)
                if isinstance(cat, Raised):
                    traces.append({'fmt': fmt, 'n': n, 'loaded': -1, 'recs': [[r['y'], r['mo'], r['d'], r['h'], r['mi'], r['s'], r['ms'], r['off'], 0, 0, 0] for r in recs[:3]]})
                    metas.append({'fmt': fmt, 'n': n, 'err': cat.text, 'first_lines': text.splitlines()[:6]})
                    continue
                rows = cat.catalog.tolist()
                out = []
                for i, r in enumerate(recs):
                    if i < len(rows):
                        t = int(rows[i][1])
                        glat, glon, gdep, gmag = float(rows[i][2]), float(rows[i][3]), float(rows[i][4]), float(rows[i][5])
                        tol = 1e-6 if fmt == 'ingv_horus' else (1e-12 if fmt == 'ndk' else 0.0)

                        def eq(a, b):
                            return a == b or abs(a - b) <= tol * max(1.0, abs(b))
                        same = 1 if (eq(glat, r['lat']) and eq(glon, r['lon']) and eq(gdep, r['dep']) and eq(gmag, mags[i])) else 0
                        out.append([r['y'], r['mo'], r['d'], r['h'], r['mi'], r['s'], r['ms'], r['off'], t // MS_DAY, t % MS_DAY, same])
                    else:
                        out.append([r['y'], r['mo'], r['d'], r['h'], r['mi'], r['s'], r['ms'], r['off'], 0, 0, 0])
                    if r['s'] == 60 or r['off'] or r['y'] < 1970 or (r['mi'] == 59 and r['s'] == 59) or r['d'] in (1, 28, 29, 30, 31):
                        chk.nontrivial('%s|%s' % (fmt, (r['y'], r['mo'], r['d'], r['h'], r['mi'], r['s'], r['ms'], r['off'])))
                traces.append({'fmt': fmt, 'n': n, 'loaded': len(rows), 'recs': out})
                metas.append({'fmt': fmt, 'n': n, 'first_lines': text.splitlines()[:6], 'recs': recs[:3], 'rows': rows[:3]})
    import copy
    src = next(i for i, t in enumerate(traces) if t['loaded'] == t['n'] and t['n'] >= 2)
    bad = copy.deepcopy(traces[src])
    bad['recs'][1][9] = (bad['recs'][1][9] + 1000) % MS_DAY
    acc, rej = chk.validate_traces('TraceReaders', 'Trace_Readers.cfg', traces + [bad], chunk=20, parallel=12, timeout=1800)
    chk.traces -= len([i for i in acc if i >= len(traces)])
    chk.control('trace: event time shifted by one second rejected', len(traces) in {i for i, _ in rej})
    for i, diag in rej:
        if i >= len(traces):
            continue
        m, tr = metas[i], traces[i]
        if 'err' in m:
            why = 'load raised %s' % m['err'].split(':')[0]
            detail = m
        else:
            k = diag[-1]['explained_events'] if diag else 0
            if k == 0:
                why = 'number of events'
                detail = dict(m, loaded=tr['loaded'])
            else:
                r = tr['recs'][k - 1]
                why = ('values' if r[10] == 0 and tr['loaded'] == tr['n'] else 'time') + (':second-60' if r[5] == 60 else '') + (':offset' if r[7] else '')
                detail = dict(m, record_index=k - 1, record=r, fields='[y, mo, d, h, mi, s, ms, off, observed day, observed ms, values_equal]')
        chk.violation('%s:%s:%s' % (tr['fmt'], why, 'single-record' if tr['n'] == 1 else 'multi-record'), detail)
    chk.sample({'trace': {'fmt': traces[0]['fmt'], 'n': traces[0]['n'], 'loaded': traces[0]['loaded'], 'recs': traces[0]['recs'][:2]},
                'first_lines': metas[0]['first_lines'][:3]})
    k = next((i for i, t in enumerate(traces) if t['fmt'] == 'ndk'), None)
    if k is not None:
        chk.sample({'ndk_block': metas[k]['first_lines'][:5]})
    chk.notes['formats'] = formats
    chk.assume('HORUS stores coordinates / magnitudes in single precision (documented dtype): compared at 1e-6 relative; NDK magnitude is '
               'Mw = 2/3 (log10 M0 - 9.1) from the written scalar moment')
    chk.assume('seconds = 60 is written as ":60.0" in NDK and as 60.00 in HORUS; other formats never carry it')
