"""X06 (extension, not a listed property) - derived views of a Cartesian region.

spec/RegionViews.tla (on CartRegion.tla)   TLC: ViewIsCellMap, EachValidCellOnce, BoxTight, MidpointsAndOrigins for every
        region configuration of lattices up to 3x3 (7 416 configurations).
spec -> code   every configuration TLC emits (GenCartRegion, shared with C01) is concretised on the anchor / spacing table
        and built as a real CartesianGrid2D; the real get_cartesian, get_bbox, midpoints, origins, xs / ys, num_nodes,
        get_cell_area and a forecast's spatial_counts(cartesian=True) must be what the specification's views say.
"""
import math
import random
from fractions import Fraction

from vh.core import MachineryError, guarded, Raised
from vh.drivers.c01 import TABLE, lattice_edges, build_region


def run(chk, replay=None):
    import numpy
    from csep.core.forecasts import GriddedForecast
    from csep.core.regions import geographical_area_from_bounds
    quick = chk.tier == 'quick'
    rng = random.Random(chk.seed + 606)
    chk.rule = ('regions = every bounding-box-tight cell subset of lattices up to 3x2 (quick) / 3x3 x flags x cell orders from '
                'TLC, on an anchor / spacing table, built from origins or from polygons + mask. non-trivial = distinct regions '
                'with a hole, a flagged-out cell or a non-lexicographic cell order')
    res = chk.tlc('RegionViews', 'MC_RegionViews.cfg', timeout=1800)
    chk.require_coverage(res, ['Vary'])
    res = chk.tlc('GenCartRegion', 'Genq_CartRegion.cfg' if quick else 'Gen_CartRegion.cfg', workers=1, coverage=False,
                  count_states=False, timeout=1500)
    cases = res.tagged.get('CASE', [])
    if len(cases) < 500:
        raise MachineryError('Gen produced %d regions' % len(cases))

    def check_region(case, ti, how):
        x0, y0, dh = TABLE[ti % len(TABLE)]
        nx, ny = case['nx'], case['ny']
        xe, ye = lattice_edges(x0, dh, nx), lattice_edges(y0, dh, ny)
        dhf = float(Fraction(dh))
        region = guarded(build_region, case, xe, ye, dhf, how)
        chk.count()
        if isinstance(region, Raised):
            return {'why': 'build raised', 'err': repr(region)}
        cmap = case['cmap']
        polys = case['polys']
        nq = len(polys)
        if region.num_nodes != nq:
            return {'why': 'num_nodes', 'got': region.num_nodes, 'expected': nq}
        if [float(x) for x in region.xs] != xe or [float(y) for y in region.ys] != ye:
            return {'why': 'xs / ys are not the lattice edges', 'xs': [float(x) for x in region.xs], 'expected': xe}
        # cartesian view of identifying data
        data = numpy.array([10.0 * (q + 1) for q in range(nq)])
        view = guarded(region.get_cartesian, data)
        chk.count()
        want = [[float('nan') if cmap[j][i] == -1 else 10.0 * (cmap[j][i] + 1) for i in range(nx)] for j in range(ny)]
        if isinstance(view, Raised) or numpy.asarray(view).shape != (ny, nx) or not numpy.array_equal(numpy.asarray(view), numpy.array(want), equal_nan=True):
            return {'why': 'get_cartesian', 'got': repr(view)[:300], 'expected': want}
        # bounding box
        bb = guarded(region.get_bbox)
        wb = (xe[0], xe[-1] + dhf, ye[0], ye[-1] + dhf)
        if isinstance(bb, Raised) or any(abs(float(a) - b) > 1e-12 * max(1.0, abs(b)) for a, b in zip(bb, wb)):
            return {'why': 'get_bbox', 'got': repr(bb), 'expected': wb}
        # origins / midpoints and their lookups
        org = numpy.asarray(region.origins())
        mid = numpy.asarray(region.midpoints())
        for q, (i, j) in enumerate(polys):
            if (float(org[q][0]), float(org[q][1])) != (xe[i], ye[j]):
                return {'why': 'origins', 'cell': q, 'got': org[q].tolist(), 'expected': [xe[i], ye[j]]}
            wm = (xe[i] + dhf / 2, ye[j] + dhf / 2)
            if abs(float(mid[q][0]) - wm[0]) > 1e-9 * max(1.0, abs(wm[0])) or abs(float(mid[q][1]) - wm[1]) > 1e-9 * max(1.0, abs(wm[1])):
                return {'why': 'midpoints', 'cell': q, 'got': mid[q].tolist(), 'expected': list(wm)}
            valid = cmap[j][i] == q
            for (lon, lat), what in ((tuple(float(v) for v in mid[q]), 'midpoint'), ((xe[i], ye[j]), 'origin')):
                r = guarded(region.get_index_of, [lon], [lat])
                m_ = guarded(region.get_masked, [lon], [lat])
                chk.count(2)
                if valid:
                    if isinstance(r, Raised) or int(r[0]) != q or isinstance(m_, Raised) or bool(m_[0]):
                        return {'why': '%s of a cell is not looked up to it' % what, 'cell': q, 'got': repr(r), 'masked': repr(m_)}
                elif not (isinstance(r, Raised) and r.text.startswith('ValueError')) or isinstance(m_, Raised) or not bool(m_[0]):
                    return {'why': '%s of a flagged-out cell is inside' % what, 'cell': q, 'got': repr(r), 'masked': repr(m_)}
        # areas: one per cell, the spherical rectangle of its box
        ar = guarded(region.get_cell_area)
        chk.count()
        if isinstance(ar, Raised) or len(ar) != nq:
            return {'why': 'get_cell_area', 'got': repr(ar)[:200]}
        if abs(ye[0]) <= 89 and abs(ye[-1] + dhf) <= 90:
            for q, (i, j) in enumerate(polys):
                wa = 6371.0 ** 2 * math.radians(dhf) * (math.sin(math.radians(ye[j] + dhf)) - math.sin(math.radians(ye[j])))
                if abs(float(ar[q]) - wa) > 1e-6 * abs(wa):
                    return {'why': 'cell area', 'cell': q, 'got': float(ar[q]), 'expected': wa}
        # a forecast's spatial counts in the same layout
        mags = numpy.array([4.0, 5.0])
        rates = numpy.array([[q + 1.0, 0.5] for q in range(nq)])
        fc = guarded(lambda: GriddedForecast(region=build_region(case, xe, ye, dhf, how), magnitudes=mags, data=rates, name='v'))
        if isinstance(fc, Raised):
            return {'why': 'forecast on the region raised', 'err': repr(fc)}
        sv = guarded(fc.spatial_counts, cartesian=True)
        chk.count()
        want2 = [[float('nan') if cmap[j][i] == -1 else cmap[j][i] + 1.5 for i in range(nx)] for j in range(ny)]
        if isinstance(sv, Raised) or not numpy.array_equal(numpy.asarray(sv), numpy.array(want2), equal_nan=True):
            return {'why': 'spatial_counts(cartesian=True)', 'got': repr(sv)[:300], 'expected': want2}
        return None

    if replay:
        d = replay['detail']
        bad = check_region(d['case'], d['ti'], d['how'])
        if bad:
            chk.violation(replay['signature'], dict(d, mismatch=bad))
        chk.sample({'replayed': d['case']})
        return

    ok = 0
    for ci, case in enumerate(cases):
        for rep in range(1 if quick else 3):
            ti = ci * 5 + rep * 7
            how = 'from_origins' if (ci + rep) % 2 == 0 else 'polygons'
            bad = check_region(case, ti, how)
            holes = len(case['polys']) < case['nx'] * case['ny']
            if holes or case['flags'] or case['polys'] != sorted(case['polys'], key=lambda c: (c[1], c[0])):
                chk.nontrivial('%d|%d' % (ci, ti % len(TABLE)))
            if bad:
                shape = 'single-row-or-column' if min(case['nx'], case['ny']) == 1 else 'general'
                chk.violation('views:%s:%s%s' % (bad['why'], shape, ':flags' if case['flags'] else ''),
                              {'case': case, 'ti': ti, 'how': how, 'mismatch': bad})
            else:
                ok += 1
        if ci == len(cases) // 2:
            chk.sample({'abstract_region': case})
    chk.traces += ok
    import copy
    ctl = copy.deepcopy(next(c for c in cases if len(c['polys']) >= 3 and not c['flags']))
    q0 = ctl['cmap'][ctl['polys'][0][1]][ctl['polys'][0][0]]
    ctl['cmap'][ctl['polys'][0][1]][ctl['polys'][0][0]] = ctl['cmap'][ctl['polys'][1][1]][ctl['polys'][1][0]]
    ctl['cmap'][ctl['polys'][1][1]][ctl['polys'][1][0]] = q0
    chk.control('gen: expected cell map with two cells exchanged flagged', check_region(ctl, 0, 'polygons') is not None)
    chk.exhaustive = True
    chk.assume('anchors / spacings come from the decimal table shared with C01; cell areas are compared to 1e-6 relative')
