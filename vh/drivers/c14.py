"""C14 - catalog persistence round trips preserve every event.

spec/Persist.tla   the stores (ASCII file with per-row catalog id, dict / JSON document, DataFrame) and the operations as a
        state machine; TLC: EventsFromSource, RoundTripIdentity, AppendConcatenates, IdSurvives over all histories of <= 3 (4)
        operations from 7 source catalogs (empty, with / without id, name, region).
gen -> code -> spec   every history TLC emits is executed on real CSEPCatalog objects whose events carry typed field classes
        (ids with ',', '"', ';', spaces, 255 characters; times 1900..2200 at millisecond phases, pre-1970; shortest-repr,
        17-digit and extreme doubles, negative zero); after every operation the current real object is projected (event
        identities, catalog id, name, region) with a bit-exactness flag and TLC replays the machine (TracePersist).
        Random catalogs of up to 2000 events go through the same machinery.
"""
import calendar
import datetime
import math
import os
import random

from vh.core import MachineryError, guarded, Raised, spell_flag, other_surroundings

OPS = ['write', 'write_noheader', 'append', 'load_ascii', 'to_dict', 'from_dict', 'write_json', 'load_json', 'to_df', 'from_df']


def typed_event(e, variant, rng_seed):
    """Concrete event for abstract identity e (1..6 fixed classes, larger = random classes)."""
    r = random.Random(e * 1000003 + variant * 7919 + rng_seed)
    idc = [None, 'plain', 'comma', 'quote', 'semi', 'long', 'spacey'][e] if e <= 6 else r.choice(['plain', 'comma', 'quote', 'semi', 'long', 'spacey'])
    tc = [None, 'whole', 'ms', 'pre1970', 'ms', 'far', 'pre1970'][e] if e <= 6 else r.choice(['whole', 'ms', 'pre1970', 'far'])
    fc = [None, 'short', 'digits17', 'extreme', 'negzero', 'short', 'digits17'][e] if e <= 6 else r.choice(['short', 'digits17', 'extreme', 'negzero'])
    tag = 'E%dv%d' % (e, variant)
    if (e + variant) % 4 == 0:
        # ids that look like numbers but are text: leading zeros, a sign, digit separators, exponent letters
        idc = 'numeric'
    num = 1000 * (variant % 50) + e
    if idc == 'numeric':
        ident = ['00%d' % num, '+%d' % num, '%d_%02d' % (2019 + variant % 5, e), '%de%d' % (e, 3 + variant % 4), '0x%x' % num,
                 '%d.0' % num, '1_000%d' % e][(e * 3 + variant) % 7]
    else:
        ident = {'plain': tag, 'comma': tag + ',a,b', 'quote': tag + '"q"x\'y', 'semi': tag + ';u; v', 'spacey': ' ' + tag + '  x ',
                 'long': (tag + '-' + 'L' * 300)[:255]}[idc]
    year = {'whole': r.randint(1971, 2100), 'ms': r.randint(1971, 2199), 'pre1970': r.randint(1900, 1969), 'far': r.randint(2107, 2199)}[tc]
    sec = calendar.timegm((year, r.randint(1, 12), r.randint(1, 28), r.randint(0, 23), r.randint(0, 59), r.randint(0, 59)))
    ms = sec * 1000 + (0 if tc == 'whole' else r.randint(1, 999))
    if fc == 'short':
        lat, lon, dep, mag = round(r.uniform(-89, 89), 2), round(r.uniform(-179, 179), 3), round(r.uniform(0, 50), 1), round(r.uniform(2, 8), 1)
    elif fc == 'digits17':
        lat, lon, dep, mag = r.uniform(-89, 89), r.uniform(-179, 179), 0.1 + 0.2 + r.random(), r.uniform(2, 8) / 3
    elif fc == 'extreme':
        lat, lon, dep, mag = r.choice([90.0, -90.0]), r.choice([180.0, -180.0]), r.choice([700.0, -5.0, 1e-300]), r.choice([9.9, -1.0, 1e22])
    else:
        lat, lon, dep, mag = -0.0, 0.0, -0.0, 5e-324
    return (ident, ms, lat, lon, dep, mag)


def same_float(a, b):
    return (a == b and math.copysign(1.0, a) == math.copysign(1.0, b)) or (a != a and b != b)


class Runner:
    def __init__(self, chk, numpy):
        self.chk = chk
        self.numpy = numpy
        self.path = os.path.join(chk.tmp, 'cat.csv')
        self.jpath = os.path.join(chk.tmp, 'cat.json')

    def region(self):
        from csep.core.regions import CartesianGrid2D
        # two cells of 400 degrees: every full-range coordinate (lon = 180, lat = 90 included) lies inside
        # (a space-magnitude region: the magnitude bins bound to it are part of what must survive)
        return CartesianGrid2D.from_origins(self.numpy.array([[-180.0, -90.0], [220.0, -90.0]]), dh=400.0,
                                            magnitudes=self.numpy.array([-2.0, 4.95, 5.05, 8.5]))

    def make(self, src, table):
        from csep.core.catalogs import CSEPCatalog
        data = [table[e] for e in src['evs']]
        kw = {}
        if src['cid'] != -1:
            kw['catalog_id'] = src['cid']
        if src['name'] != -1:
            kw['name'] = 'name-%d' % src['name']
        cat = CSEPCatalog(data=data, **kw)
        if src['region']:
            cat.region = self.region()
        return cat

    def project(self, cat, table, src):
        """alpha: real catalog -> [evs, cid, name, region] + exactness flag."""
        back = {v[0]: k for k, v in table.items()}
        evs, exact = [], 1
        for row in cat.catalog.tolist():
            ident = row[0].decode('utf-8') if isinstance(row[0], bytes) else str(row[0])
            e = back.get(ident, 0)
            evs.append(e)
            if e == 0:
                exact = 0
                continue
            t = table[e]
            if int(row[1]) != t[1] or not all(same_float(float(row[k]), float(t[k])) for k in (2, 3, 4, 5)):
                exact = 0
        cid = cat.catalog_id
        if cid is None:
            cid = -1
        elif isinstance(cid, (int, self.numpy.integer)) and not isinstance(cid, bool):
            cid = int(cid)
        else:
            cid = -2            # e.g. the integer came back as a string
        name = -1
        if cat.name is not None:
            name = int(str(cat.name).split('-')[-1]) if str(cat.name).startswith('name-') else -2
        reg = False
        if cat.region is not None:
            r0 = self.region()
            ok = guarded(lambda: cat.region.to_dict() == r0.to_dict() and getattr(cat.region, 'magnitudes', None) is not None and
                         [float(x) for x in cat.region.magnitudes] == [float(x) for x in r0.magnitudes] and [int(x) for x in cat.region.get_index_of([-90.0, 10.0, 300.0], [-45.0, 45.0, 0.0])] ==
                         [int(x) for x in r0.get_index_of([-90.0, 10.0, 300.0], [-45.0, 45.0, 0.0])])
            reg = True if ok is True else 'broken'
        return {'evs': evs, 'cid': cid, 'name': name, 'region': reg}, exact

    def run_history(self, src, hist, table, tz=None):
        """tz: the process's local time zone during the history (catalog times are UTC whatever the zone of the machine)"""
        if tz is None:
            return self._run_history(src, hist, table)
        if tz == 'other surroundings':
            # not a time zone: the embedding program's decimal context / numpy print options / working directory
            with other_surroundings(cwd=os.path.dirname(self.path)):
                return self._run_history(src, hist, table)
        import time
        old = os.environ.get('TZ')
        os.environ['TZ'] = tz
        time.tzset()
        try:
            return self._run_history(src, hist, table)
        finally:
            if old is None:
                os.environ.pop('TZ', None)
            else:
                os.environ['TZ'] = old
            time.tzset()

    def _run_history(self, src, hist, table):
        import csep
        from csep.core.catalogs import CSEPCatalog
        cat = self.make(src, table)
        doc = df = None
        steps = []
        for p_ in (self.path, self.jpath):
            if os.path.exists(p_):
                os.remove(p_)
        for op in hist:
            r = None
            sp = len(steps) + len(src['evs'])       # options are spelled True / False, as numpy booleans, or 1 / 0
            if op == 'write':
                r = guarded(cat.write_ascii, self.path, write_header=spell_flag(True, sp))
            elif op == 'write_noheader':
                r = guarded(cat.write_ascii, self.path, write_header=spell_flag(False, sp), append=spell_flag(False, sp + 1))
            elif op == 'append':
                r = guarded(cat.write_ascii, self.path, write_header=spell_flag(False, sp + 1), append=spell_flag(True, sp))
            elif op == 'load_ascii':
                r = guarded(csep.load_catalog, self.path)
                if not isinstance(r, Raised):
                    cat = r
            elif op == 'to_dict':
                r = guarded(cat.to_dict)
                if not isinstance(r, Raised):
                    doc = r
            elif op == 'from_dict':
                r = guarded(CSEPCatalog.from_dict, doc)
                if not isinstance(r, Raised):
                    cat = r
            elif op == 'write_json':
                r = guarded(cat.write_json, self.jpath)
            elif op == 'load_json':
                r = guarded(csep.load_catalog, self.jpath) if len(steps) % 2 else guarded(CSEPCatalog.load_json, self.jpath)
                if not isinstance(r, Raised):
                    cat = r
            elif op == 'to_df':
                # both forms of the frame: plain, and with the datetime column / index
                r = guarded(cat.to_dataframe, with_datetime=bool((len(steps) + len(src['evs'])) % 2))
                if not isinstance(r, Raised):
                    df = r
            elif op == 'from_df':
                r = guarded(CSEPCatalog.from_dataframe, df)
                if not isinstance(r, Raised):
                    cat = r
            self.chk.count()
            if isinstance(r, Raised):
                steps.append({'op': op, 'obj': {'evs': [], 'cid': -9, 'name': -9, 'region': False}, 'exact': 0, 'raised': r.text})
                break
            proj, exact = self.project(cat, table, src)
            steps.append({'op': op, 'obj': proj, 'exact': exact})
        return steps


ZONES = [None, None, 'JST-9', 'EST5EDT,M3.2.0,M11.1.0', 'other surroundings']      # local time zones the histories run under (None = as started)


def normalise(src, steps):
    """The model resets name/region to None where a format cannot carry them; projection of the catalog id: an id that
    the model calls None (-1) is also accepted as the loader's own placeholder -1."""
    return steps


def run(chk, replay=None):
    import numpy
    quick = chk.tier == 'quick'
    rng = random.Random(chk.seed + 1414)
    R = Runner(chk, numpy)
    chk.rule = ('histories = every sequence of 3 (thorough 4) persistence operations TLC allows from 7 source catalogs, executed with '
                'typed field values; plus random catalogs of 0..2000 events with random classes through single round trips. '
                'non-trivial = distinct (source, history) containing a load after a write / append or a dict / JSON / DataFrame '
                'round trip')
    res = chk.tlc('Persist', 'MC_Persist.cfg' if quick else 'MCT_Persist.cfg', timeout=1200)
    chk.require_coverage(res, ['Do'])
    res = chk.tlc('GenPersist', 'Gen_Persist.cfg' if quick else 'GenT_Persist.cfg', workers=1, coverage=False, count_states=False, timeout=1200)
    cases = res.tagged.get('CASE', [])
    if len(cases) < 1000:
        raise MachineryError('Gen produced %d histories' % len(cases))
    chk.log('Gen: %d histories' % len(cases))
    # long histories from TLC's simulator (random walks of 8 operations through Persist.tla)
    res = chk.tlc('GenPersist', 'Sim_Persist.cfg', workers=1, coverage=False, count_states=False, timeout=1200,
                  simulate='num=%d' % (150 if quick else 4000), depth=9, expect='any')
    sim_cases = res.tagged.get('CASE', [])
    if len(sim_cases) < 100:
        raise MachineryError('simulator produced %d histories' % len(sim_cases))
    cases = list(cases) + sim_cases
    chk.notes['simulated_histories'] = len(sim_cases)
    if quick:
        # the quick tier bounds TLC's histories at 3 operations; chains of two different round trips (4 operations) are
        # added for every source catalog of the model (the trace specification judges them like any other history)
        trips = [['write', 'load_ascii'], ['to_dict', 'from_dict'], ['write_json', 'load_json'], ['to_df', 'from_df']]
        srcs = []
        for c in cases:
            if c['src'] not in srcs:
                srcs.append(c['src'])
        for s_ in srcs:
            for a in trips:
                for b in trips:
                    if a != b:
                        cases.append({'src': s_, 'hist': a + b})

    def fix_src(s):
        return {'evs': list(s['evs']), 'cid': s['cid'], 'name': s['name'], 'region': bool(s['region'])}

    traces, metas = [], []
    for ci, case in enumerate(cases):
        src = fix_src(case['src'])
        variant = rng.randrange(5)
        table = {e: typed_event(e, variant, chk.seed) for e in range(1, 7)}
        tz = rng.choice(ZONES)
        steps = R.run_history(src, case['hist'], table, tz)
        traces.append({'src': src, 'steps': [{'op': s['op'], 'obj': s['obj'], 'exact': s['exact']} for s in steps]})
        metas.append({'src': src, 'hist': case['hist'], 'variant': variant, 'steps': steps, 'tz': tz})
        if any(op in case['hist'] for op in ('load_ascii', 'from_dict', 'load_json', 'from_df')):
            chk.nontrivial('%s|%s' % (src, case['hist']))
    # random large catalogs, single round trips
    for t in range(10 if quick else 80):
        n = rng.choice([0, 1, 5, 200, 2000])
        table = {e: typed_event(e + 6, t, chk.seed) for e in range(1, n + 1)}
        table = {e: ((v[0] + '#%d' % e)[:255],) + v[1:] for e, v in table.items()}
        src = {'evs': list(range(1, n + 1)), 'cid': rng.choice([-1, 0, 42, -12345]), 'name': rng.choice([-1, 3]), 'region': rng.random() < 0.5}
        hist = rng.choice([['write', 'load_ascii'], ['write_noheader', 'append', 'load_ascii'], ['to_dict', 'from_dict'],
                           ['write_json', 'load_json'], ['to_df', 'from_df'], ['write', 'load_ascii', 'write_json', 'load_json', 'to_df', 'from_df']])
        tz = ZONES[t % len(ZONES)]
        steps = R.run_history(src, hist, table, tz)
        traces.append({'src': src, 'steps': [{'op': s['op'], 'obj': s['obj'], 'exact': s['exact']} for s in steps]})
        metas.append({'src': {k: (v if k != 'evs' else len(v)) for k, v in src.items()}, 'hist': hist, 'variant': t, 'tz': tz, 'steps': [dict(s, obj=dict(s['obj'], evs=len(s['obj']['evs']))) for s in steps]})
        chk.nontrivial('rand|%d|%s' % (n, hist))
    # the loader's placeholder for a missing id (-1) and None are the same abstract value; regions projected as booleans
    for tr in traces:
        for s in tr['steps']:
            if s['obj']['region'] == 'broken':
                s['obj']['region'] = False
                s['exact'] = 0
    import copy
    src_i = next(i for i, t_ in enumerate(traces) if len(t_['steps']) >= 2 and len(t_['steps'][-1]['obj']['evs']) >= 2 and t_['steps'][-1]['exact'])
    bad = copy.deepcopy(traces[src_i])
    bad['steps'][-1]['obj']['evs'] = bad['steps'][-1]['obj']['evs'][:-1]
    acc, rej = chk.validate_traces('TracePersist', 'Trace_Persist.cfg', traces + [bad], chunk=300, timeout=1800)
    chk.traces -= len([i for i in acc if i >= len(traces)])
    chk.control('trace: loaded catalog with one event missing rejected', len(traces) in {i for i, _ in rej})
    for i, diag in rej:
        if i >= len(traces):
            continue
        m = metas[i]
        k = diag[-1]['explained_events'] if diag else 0
        st = m['steps'][min(k, len(m['steps']) - 1)]
        empty = (m['src']['evs'] == [] or m['src']['evs'] == 0)
        why = 'raised %s' % st['raised'].split(':')[0] if 'raised' in st else ('fields not bit-identical' if st['exact'] == 0 else 'object differs')
        chk.violation('%s:%s:%s' % (st['op'], why, 'empty-catalog' if empty else 'non-empty'),
                      {'source': m['src'], 'history': m['hist'], 'first_unexplained_step': st, 'variant': m['variant'],
                       'local_time_zone': m.get('tz')})
    chk.sample({'history': metas[5]['hist'], 'source': metas[5]['src'], 'steps': traces[5]['steps']})
    chk.sample({'typed_event_examples': [list(map(str, typed_event(e, 0, chk.seed)))[:3] for e in (2, 3, 5)]})
    chk.exhaustive = True
    chk.assume('ASCII and DataFrame stores are not required to carry name or region; a row-based store cannot carry the id of an empty catalog')
    chk.assume('a catalog id the source does not have (None) may come back as the loader placeholder')
