"""X01 (extension, not a listed property) - time-dependent completeness after a mainshock (catalog.apply_mct).

spec/MctFilter.tla   TLC: ImplMatchesSpec (the library's loop - early return, break at the first late event, continue
        before the mainshock - equals the formula on every time-sorted catalog), OnlyRemoves, KeepsOrder, Idempotent,
        OutsideWindowUntouched.  MCbug_MctFilter.cfg (unsorted catalogs allowed) and MCbug2 (empty catalog raises, the
        repaired defect) must be refuted.
spec -> code   every catalog of <= 2 (thorough 3) events over 5 time classes x 8 magnitude positions - sorted or not -
        realised with exact threshold magnitudes (mainshock 7.0, mc 1.0: thresholds 2.5, 1.75, 1.0 at 1, 10, 100 days) and
        with times one millisecond either side of the window; the library must return what its specification (Impl) says.
code -> spec   random time-sorted catalogs with arbitrary elapsed times: kept events compared with the formula evaluated
        at 50 digits (events within 1e-9 of their threshold are not generated).
"""
import random

from vh.core import MachineryError, guarded, Raised

K = 3
T0 = 1_000_000_000_000          # mainshock epoch (ms)
DAY = 86_400_000
M_MAIN, MC = 7.0, 1.0
ELAPSED = {1: 1 * DAY, 2: 10 * DAY, 3: 100 * DAY}     # d_1..d_3 ; d_3 = critical time
THR = {1: 1.0, 2: 1.75, 3: 2.5}                       # j-th smallest threshold


def run(chk, replay=None):
    import math
    import numpy
    import mpmath
    from csep.core.catalogs import CSEPCatalog
    quick = chk.tier == 'quick'
    rng = random.Random(chk.seed + 101)
    chk.rule = ('catalogs = every sequence of <= 2 (thorough 3) events over {before, at, 1 d, 10 d, 100 d = critical, after} x '
                '8 magnitude positions (on / between the three exact thresholds), sorted or not; plus random sorted catalogs. '
                'non-trivial = distinct catalogs with an event exactly on its threshold, at the mainshock time, at the critical '
                'time, or out of time order')
    res = chk.tlc('MctFilter', 'MC_MctFilter.cfg', timeout=900)
    chk.require_coverage(res, ['Add'])
    for cfg in ('MCbug_MctFilter.cfg', 'MCbug2_MctFilter.cfg'):
        r = chk.tlc('MctFilter', cfg, expect='any', coverage=False, count_states=False)
        chk.control('model %s refuted' % cfg, r.violated == 'ImplMatchesSpec')
    res = chk.tlc('GenMctFilter', 'Gen_MctFilter.cfg' if quick else 'GenT_MctFilter.cfg', workers=1, coverage=False,
                  count_states=False, timeout=1800)
    cases = res.tagged.get('CASE', [])
    if len(cases) < 2000:
        raise MachineryError('Gen produced %d catalogs' % len(cases))
    if not quick:
        cases = [c for i, c in enumerate(cases) if len(c['cat']) <= 2 or i % 9 == 0]

    def mag_of(mpos, variant):
        if mpos % 2 == 0:
            j = mpos // 2
            return 0.5 if j == 0 else THR[j]
        j = mpos // 2            # strictly between threshold j and j+1
        lo = THR[j] if j >= 1 else 0.5
        if j == K:
            return [3.0, 6.5, float(numpy.nextafter(2.5, 9.0))][variant % 3]
        hi = THR[j + 1]
        return [lo + (hi - lo) / 2, float(numpy.nextafter(hi, 0.0)), float(numpy.nextafter(lo, 9.0))][variant % 3] if j >= 1 else \
            [0.75, float(numpy.nextafter(1.0, 0.0)), 0.51][variant % 3]

    def time_of(t, variant):
        if t == -1:
            return T0 - [1, 5000, 40 * DAY][variant % 3]
        if t == 0:
            return T0
        if t == K + 1:
            return T0 + ELAPSED[K] + [1, 7 * DAY, 1000][variant % 3]
        return T0 + ELAPSED[t]

    def realise(cat_abs, variant):
        return [('e%d' % i, time_of(t, variant + i), 1.0, 2.0, 5.0, mag_of(m, variant + 2 * i)) for i, (t, m) in enumerate(cat_abs)]

    def run_case(case, variant):
        rows = realise(case['cat'], variant)
        cat = CSEPCatalog(data=rows)
        with numpy.errstate(all='ignore'):
            r = guarded(cat.apply_mct, M_MAIN, T0, mc=MC)
        chk.count()
        if isinstance(r, Raised):
            return None if case['rej'] else {'why': 'raised', 'err': repr(r)}
        if case['rej']:
            return {'why': 'expected a refusal'}
        got = [int(x.decode()[1:]) for x in r.get_event_ids()] if r.event_count else []
        # expected: indices of the kept events (Impl keeps a subsequence; identical events are matched left to right)
        want, j = [], 0
        for i, e in enumerate(case['cat']):
            if j < len(case['keep']) and list(e) == list(case['keep'][j]):
                want.append(i)
                j += 1
        if j != len(case['keep']):
            raise MachineryError('Impl result is not a subsequence: %r' % case)
        if got != want:
            return {'why': 'kept events', 'got': got, 'expected': want, 'rows': [(r_[1] - T0, r_[5]) for r_ in rows]}
        if r is not cat or cat.event_count != len(want):
            return {'why': 'not applied in place'}
        return None

    if replay:
        d = replay['detail']
        bad = run_case(d['case'], d['variant'])
        if bad:
            chk.violation(replay['signature'], dict(d, mismatch=bad))
        chk.sample({'replayed': d['case']['cat']})
        return

    ok = 0
    for ci, case in enumerate(cases):
        for variant in ((ci % 3,) if quick else (0, 1, 2)):
            bad = run_case(case, variant)
            ca = case['cat']
            if not case['sorted'] or any(t == 0 or t == K or (1 <= t <= K and m == 2 * (K + 1 - t)) for t, m in ca):
                chk.nontrivial('%s' % ca)
            if bad:
                kinds = 'unsorted' if not case['sorted'] else ('on-threshold' if any(1 <= t <= K and m == 2 * (K + 1 - t) for t, m in ca)
                                                              else ('empty' if not ca else 'sorted'))
                chk.violation('gen:%s:%s' % (bad['why'], kinds), {'case': case, 'variant': variant, 'mismatch': bad})
            else:
                ok += 1
        if ci in (50, 1500):
            chk.sample({'abstract_catalog': case['cat'], 'kept_by_spec': case['keep'], 'sorted': case['sorted']})
    chk.traces += ok
    import copy
    ctl = copy.deepcopy(next(c for c in cases if len(c['cat']) == 2 and len(c['keep']) == 1))
    ctl['keep'] = []
    chk.control('gen: expectation with the kept event removed flagged', run_case(ctl, 0) is not None)

    # ---------------------------------------------------------------- random sorted catalogs against the formula
    mpmath.mp.dps = 50
    for t in range(40 if quick else 600):
        m_main = rng.choice([5.5, 6.1, 7.0, 7.3, 8.2])
        mc = rng.choice([1.0, 2.5, 2.95, 3.5])
        tcrit_days = mpmath.mpf(10) ** (-(mpmath.mpf(mc) - mpmath.mpf(m_main) + mpmath.mpf('4.5')) / mpmath.mpf('0.75'))
        n = rng.choice([0, 1, 5, 60, 400])
        times = sorted(T0 + int(rng.choice([-1, 1]) * 10 ** rng.uniform(0, 10.5)) for _ in range(n))
        rows, want = [], []
        for i, tm in enumerate(times):
            el_days = mpmath.mpf(tm - T0) / DAY
            if tm < T0 or el_days > tcrit_days * (1 + mpmath.mpf('1e-9')):
                mag = rng.uniform(0.0, 8.0)
                keep = True
            elif el_days > tcrit_days * (1 - mpmath.mpf('1e-9')):
                continue        # within rounding of the critical time: not generated
            else:
                mct = mpmath.mpf(m_main) - mpmath.mpf('4.5') - mpmath.mpf('0.75') * mpmath.log10(el_days)
                mag = rng.uniform(0.0, 9.0)
                if abs(mag - float(mct)) < 1e-9:
                    continue
                keep = mag >= mct
            rows.append(('r%d' % i, tm, 1.0, 2.0, 5.0, mag))
            if keep:
                want.append('r%d' % i)
        cat = CSEPCatalog(data=rows)
        with numpy.errstate(all='ignore'):
            r = guarded(cat.apply_mct, m_main, T0, mc=mc)
        chk.count()
        got = None if isinstance(r, Raised) else [x.decode() for x in r.get_event_ids()]
        if got != want:
            chk.violation('random:kept events', {'m_main': m_main, 'mc': mc, 'n': len(rows), 'got': repr(r) if got is None else got[:10], 'expected': want[:10]})
        else:
            chk.traces += 1
        chk.nontrivial('rand|%d' % t)
    chk.exhaustive = True
    chk.assume('thresholds 2.5, 1.75, 1.0 at 1, 10, 100 days are exact in double precision (log10 of 1, 10, 100 and the products with 0.75)')
    chk.assume('random events are kept 1e-9 away from their threshold and from the critical time')
