"""C16 - binary likelihood and Brier scores equal their definitions.

spec/BinaryBrier.tla  TLC: structure of BLL / spatial BLL / Brier as XR for every 2x2 rate-id matrix and activity pattern;
        DependsOnlyOnActivity (adding events to an active bin never changes the expression), NIsBinCount,
        NegInfIffActiveZeroRate, OneTermPerBin.
gen -> code   each case through binary_conditional_likelihood_test / binary_spatial_test / brier_score_test and the ndarray
        functions, several rate tables, counts 1..3 per active bin.
code -> spec  random forecasts (rates 1e-9..10, zeros): observed value and every simulated value (simulated activity arrays
        captured from the real sampler) against the expression TLC returns (TraceBinaryBrier).
"""
import random
from fractions import Fraction

from vh.core import MachineryError, guarded, guarded_timeout, Raised, same_evaluation
from vh import xr

INT_TABLE = {1: 1.0, 2: 3.0}          # whole-number rates, also held in integer arrays
# (8e-6: small enough for 1 - exp(-x) to be 'almost x', large enough for the difference x/2 to be far above the rounding of the definition)
RATE_TABLES = [{1: 0.5, 2: 2.0}, {1: 1e-9, 2: 10.0}, {1: 8e-6, 2: 0.4}, {1: 0.1, 2: 0.7}, {1: 3.3e-7, 2: 5.25}, {1: 9.5, 2: 0.02}]


def cancel_atol(rates_of_active_bins):
    """log(1 - exp(-x)) evaluated in double precision loses about eps/x in absolute terms (cancellation in
    1 - exp(-x)); the property asks for the definition, not for a particular numerical scheme, so this much
    is granted per active bin on top of the usual tolerance."""
    return sum(16 * 2.0 ** -52 / min(float(x), 1.0) for x in rates_of_active_bins if x > 0)


def run(chk, replay=None):
    import numpy
    from csep.core import binomial_evaluations as be, brier_evaluations as br, poisson_evaluations as pe
    from vh.drivers.c05 import Builder
    from vh.drivers.c06 import Capture
    if not xr.HAVE_MP:
        raise MachineryError('mpmath not available (run bin/setup)')
    quick = chk.tier == 'quick'
    rng = random.Random(chk.seed + 1616)
    B = Builder()
    chk.rule = ('cases = every 2x2 rate-id matrix x activity pattern x {BLL, spatial BLL, Brier} from TLC (with 1..2 events per '
                'active bin), several rate tables; traces = random forecasts with captured simulated catalogs. non-trivial = '
                'distinct (kind, rate-ids, activity) with several events in a bin, a zero rate, or no event')

    def call(kind, fc, cat, nsim, seed, random_numbers=None):
        fn = {'BLL': be.binary_conditional_likelihood_test, 'BLLS': be.binary_spatial_test, 'BRIER': br.brier_score_test}[kind]
        if random_numbers is not None:
            return guarded_timeout(20, fn, fc, cat, num_simulations=nsim, random_numbers=random_numbers)
        return guarded_timeout(20, fn, fc, cat, num_simulations=nsim, seed=seed)

    def laid(a, lay):
        a = numpy.array(a, dtype=float)
        if a.ndim < 2 or lay == 'C':
            return a
        return numpy.asfortranarray(a) if lay == 'F' else numpy.ascontiguousarray(a.T).T

    def check_case(case, table, mult, lay='C', clay='C', dtype=None):
        # lay / clay: memory layout of the rate array and of the count array (same values per (cell, bin) in all of them)
        kind, rid, w = case['kind'], case['rid'], case['w']
        nc, nb = len(rid), len(rid[0])
        data = laid([[table.get(rid[c][b], 0.0) for b in range(nb)] for c in range(nc)], lay)
        if dtype is not None:
            data = data.astype(dtype)        # whole-number rates held in an integer array (the array's type is the caller's)
        wm = [[x * (mult if (c + b) % 2 == 0 else 1) for b, x in enumerate(row)] for c, row in enumerate(w)]
        rates = {i: Fraction(float(v)) for i, v in table.items()}
        exp = xr.evaluate(case['stat'], rates)
        bad = []
        if kind == 'BLLS':
            act_rates = [data[c].sum() for c in range(nc) if sum(wm[c]) > 0]
        else:
            act_rates = [data[c][b] for c in range(nc) for b in range(nb) if wm[c][b] > 0]
        extra = cancel_atol(act_rates) if kind != 'BRIER' else 0.0
        # ndarray level
        if kind == 'BLL':
            g = guarded(be.binary_joint_log_likelihood_ndarray, data, laid(wm, clay))
            fnname = 'binary_joint_log_likelihood_ndarray'
        elif kind == 'BLLS':
            g = guarded(be.binary_joint_log_likelihood_ndarray, data.sum(axis=1), numpy.array(wm, dtype=float).sum(axis=1))
            fnname = 'binary_joint_log_likelihood_ndarray(spatial)'
        else:
            g = guarded(br._brier_score_ndarray, data, laid(wm, clay))
            fnname = '_brier_score_ndarray'
        chk.count()
        if isinstance(g, Raised) or not xr.close(g, exp, atol=1e-11 + extra):
            bad.append((fnname, repr(g), str(exp)))
        elif kind in ('BLL', 'BRIER'):
            # the caller re-scales the very array it passed (rates *= 4, exact) and scores it again: the value is that of the
            # rates the array holds now
            arr = numpy.array(data, dtype=float)
            fn_ = be.binary_joint_log_likelihood_ndarray if kind == 'BLL' else br._brier_score_ndarray
            first = guarded(fn_, arr, laid(wm, clay))
            arr *= 4.0
            second = guarded(fn_, arr, laid(wm, clay))
            exp4 = xr.evaluate(case['stat'], {i: v * 4 for i, v in rates.items()})
            chk.count(2)
            if isinstance(second, Raised) or not xr.close(second, exp4, atol=1e-11 + 4 * extra):
                bad.append((fnname + ' after the caller re-scaled the array in place', repr(second), str(exp4)))
        # public test level (only when every event sits in a positive-rate bin or the spec says -inf)
        fc = B.forecast(data, layout=lay, dtype=dtype)
        cat = B.catalog(wm, nc, nb)
        n_act = sum(1 for r in wm for x in r if x > 0)
        n_pos = int((data > 0).sum()) if kind != 'BLLS' else int((data.sum(axis=1) > 0).sum())
        # the rejection sampler needs ~1/weight draws to activate a bin: drive the public tests only where every positive
        # rate carries a reasonable share of the total (the ndarray functions above are evaluated for every table)
        balanced = min(table.values()) / max(table.values()) >= 1e-3
        if balanced and (n_act if kind != 'BLLS' else sum(1 for r in wm if sum(r) > 0)) <= n_pos:
            res = call(kind, fc, cat, 2, 3)
            chk.count()
            if isinstance(res, Raised) or not xr.close(res.observed_statistic, exp, atol=1e-11 + extra):
                bad.append(('public test', repr(res if isinstance(res, Raised) else float(res.observed_statistic)), str(exp)))
            elif lay != 'F' and sum(1 for r in wm for x in r if x > 0) <= int((data > 0).sum()) and \
                    sum(1 for r in wm if sum(r) > 0) <= int((data.sum(axis=1) > 0).sum()):
                # the same call again on the same objects, after the other two tests ran on them
                before = numpy.array(fc.data, dtype=float).tobytes()
                for other in ('BLL', 'BLLS', 'BRIER'):
                    if other != kind:
                        call(other, fc, cat, 2, 3)
                again = call(kind, fc, cat, 2, 3)
                chk.count(3)
                if not same_evaluation(res, again) or numpy.array(fc.data, dtype=float).tobytes() != before:
                    bad.append(('public test re-evaluated on the same objects', repr(again if isinstance(again, Raised) else float(again.observed_statistic)),
                                repr(float(res.observed_statistic))))
                # ... and after the forecast was re-scaled (by a power of two: the scaled rates are exact): the value must be
                # that of the rates the forecast holds now
                for factor in (0.5, 4.0):
                    fc.scale(factor)
                    half = {i: v * Fraction(factor) for i, v in rates.items()}
                    exp2 = xr.evaluate(case['stat'], half)
                    res2 = call(kind, fc, cat, 2, 3)
                    chk.count()
                    if isinstance(res2, Raised) or not xr.close(res2.observed_statistic, exp2, atol=1e-11 + extra * max(1.0, factor)):
                        bad.append(('public test after the forecast was re-scaled by %s' % factor,
                                    repr(res2 if isinstance(res2, Raised) else float(res2.observed_statistic)), str(exp2)))
                    fc.scale(1.0)
        return bad

    res = chk.tlc('BinaryBrier', 'MC_BinaryBrier.cfg', timeout=900)
    chk.require_coverage(res, ['Bump'])
    res = chk.tlc('GenBinaryBrier', 'Gen_BinaryBrier.cfg', workers=1, coverage=False, count_states=False, timeout=900)
    cases = [c for c in res.tagged.get('CASE', []) if all(x <= 1 for r in c['w'] for x in r)]
    if len(cases) < 3000:
        raise MachineryError('Gen produced %d cases' % len(cases))

    if replay:
        d = replay['detail']
        bad = check_case(d['case'], {int(k): v for k, v in d['table'].items()}, d['mult'], d.get('lay', 'C'), d.get('clay', 'C'))
        if bad:
            chk.violation(replay['signature'], dict(d, mismatches=bad))
        chk.sample({'replayed': d['case']['rid']})
        return

    tables = RATE_TABLES[:3] if quick else RATE_TABLES
    vary = random.Random(chk.seed * 7919 + 16)     # pseudo-random choices (TLC emits cases in a regular order)
    nbad = 0
    ok_cases = set()
    for ci, case in enumerate(cases):
        w = case['w']
        if any(i == 0 for r in case['rid'] for i in r) or sum(map(sum, w)) == 0:
            chk.nontrivial('%s|%s|%s' % (case['kind'], case['rid'], w))
        for ti, table in enumerate(tables if not quick else [vary.choice(tables)]):
            mult = 1 + vary.randrange(3)
            if mult > 1:
                chk.nontrivial('%s|%s|%s|m%d' % (case['kind'], case['rid'], w, mult))
            lay, clay = vary.choice([('C', 'C'), ('F', 'C'), ('T', 'C'), ('C', 'F'), ('F', 'F')])
            bad = check_case(case, table, mult, lay, clay)
            if not bad:
                ok_cases.add(ci)
            if bad:
                ok_cases.discard(ci)
                nbad += 1
                zero_active = case['stat']['op'] == 'neginf'
                chk.violation('gen:%s:%s:%s' % (case['kind'], bad[0][0].split('(')[0],
                                                'active-zero-rate-bin' if zero_active else 'finite'),
                              {'case': case, 'table': {str(k): v for k, v in table.items()}, 'mult': mult, 'lay': lay, 'clay': clay,
                               'mismatches': bad})
        if vary.random() < 0.2:
            dt = vary.choice(['int64', 'int32'])
            bad = check_case(case, INT_TABLE, 1 + vary.randrange(2), 'C', 'C', dtype=dt)
            if bad:
                ok_cases.discard(ci)
                nbad += 1
                chk.violation('gen:%s:%s:%s' % (case['kind'], bad[0][0].split('(')[0],
                                                'active-zero-rate-bin' if case['stat']['op'] == 'neginf' else 'dtype-' + dt),
                              {'case': case, 'table': {str(k): v for k, v in INT_TABLE.items()}, 'dtype': dt, 'mismatches': bad})
        if ci in (50, 2000):
            chk.sample({'case': {'kind': case['kind'], 'rid': case['rid'], 'w': w}, 'xr_stat': case['stat']})
    chk.traces += len(ok_cases)
    import copy
    ctl = next(c for c in cases if c['kind'] == 'BRIER' and sum(map(sum, c['w'])) >= 1)
    b = copy.deepcopy(ctl)
    b['stat']['cd'] *= 2
    chk.control('gen: Brier divided by twice the bin count flagged', bool(check_case(b, RATE_TABLES[0], 1)))

    # ---------------------------------------------------------------- traces with captured simulated catalogs
    traces, results, metas = [], [], []
    for t in range(30 if quick else 1500):
        nc = rng.choice([2, 3, 8, 25])
        nb = rng.choice([1, 2, 4])
        kind = ['BLL', 'BLLS', 'BRIER'][t % 3]
        data = numpy.zeros((nc, nb))
        for c in range(nc):
            for b_ in range(nb):
                if rng.random() > 0.12:
                    data[c, b_] = 10 ** rng.uniform(-3, 1)
        if (data > 0).sum() < 2:
            data[0, 0] = 1.0
            data[-1, -1] = 0.3
        ids = {}
        rid = [[0] * nb for _ in range(nc)]
        for c in range(nc):
            for b_ in range(nb):
                if data[c, b_] > 0:
                    rid[c][b_] = ids.setdefault(float(data[c, b_]), len(ids) + 1)
        rates = {i: Fraction(v) for v, i in ids.items()}
        pos = [(c, b_) for c in range(nc) for b_ in range(nb) if data[c, b_] > 0]
        w = [[0] * nb for _ in range(nc)]
        for (c, b_) in rng.sample(pos, rng.randint(0, min(len(pos), 4))):
            w[c][b_] = rng.choice([1, 1, 2, 7])
        fc = B.forecast(data)
        cat = B.catalog(w, nc, nb, rng)
        mod = {'BLL': ('binary', be), 'BLLS': ('binary', be), 'BRIER': ('brier', br)}[kind]
        rn = None
        if t % 3 == 2:
            # injected uniform numbers, several of them in one bin: the simulated catalog then holds more than one event
            # there, and its score still depends on activity only
            from vh.invcdf import Cdf
            flat = [float(x) for x in (data.sum(axis=1) if kind == 'BLLS' else data.ravel())]
            cdf_ = Cdf(flat)
            n_act = sum(1 for r_ in w if sum(r_) > 0) if kind == 'BLLS' else sum(1 for r_ in w for x in r_ if x > 0)
            rn = numpy.zeros((3, n_act))
            for s_ in range(3):
                for e_ in range(n_act):
                    u_, k_ = cdf_.safe_draw(rng)
                    rn[s_, e_] = u_ if (e_ == 0 or rng.random() < 0.5) else rn[s_, e_ - 1]
        with Capture(numpy, {mod[0]: mod[1]}) as cap:
            res = call(kind, fc, cat, 3, chk.seed + t, random_numbers=rn if (rn is not None and rn.shape[1] > 0) else None)
        chk.count()
        sims = []
        for (name, tgt, weights, draws, out) in cap.calls:
            a = numpy.asarray(out).reshape(-1)
            if kind == 'BLLS':
                sims.append([[int(a[c])] + [0] * (nb - 1) for c in range(nc)])
            else:
                sims.append([[int(a[c * nb + b_]) for b_ in range(nb)] for c in range(nc)])
        traces.append({'kind': kind, 'rid': rid, 'w': w, 'sims': sims})
        results.append(res)
        metas.append({'kind': kind, 'shape': [nc, nb], 'rates': rates,
                      'extra': 0.0 if kind == 'BRIER' else cancel_atol([x for x in data.ravel() if x > 0])})
        chk.nontrivial('tr|%s|%d|%d|%d' % (kind, nc, nb, t))
    import json
    import os
    path = os.path.join(chk.tmp, 'bb.json')
    with open(path, 'w') as f:
        json.dump(traces, f)
    r = chk.tlc('TraceBinaryBrier', 'Trace_BinaryBrier.cfg', workers=1, env={'TRACE_FILE': path}, coverage=False, timeout=1800)
    exps = {e['tid']: e for e in r.tagged.get('EXPECT', [])}
    if len(exps) != len(traces):
        raise MachineryError('TLC returned %d EXPECT lines for %d traces' % (len(exps), len(traces)))
    okc = 0
    for i, tr in enumerate(traces):
        e, res, m = exps[i + 1], results[i], metas[i]
        if isinstance(res, Raised):
            chk.violation('trace:%s:raised' % tr['kind'], {'shape': m['shape'], 'err': repr(res)})
            continue
        good = xr.close(res.observed_statistic, xr.evaluate(e['obs'], m['rates']), atol=1e-11 + m['extra'])
        if not good:
            chk.violation('trace:%s:observed_statistic' % tr['kind'], {'shape': m['shape'], 'got': float(res.observed_statistic),
                                                                      'expected': str(xr.evaluate(e['obs'], m['rates']))})
        if len(e['sims']) != len(res.test_distribution):
            # (how many catalogs the test simulates is the library's doing: reported, not a failure of the machinery)
            chk.violation('trace:%s:number of simulated catalogs differs from the number of distribution entries' % tr['kind'],
                          {'shape': m['shape'], 'captured': len(e['sims']), 'entries': len(res.test_distribution)})
            continue
        for s, ex in enumerate(e['sims']):
            ev = xr.evaluate(ex, m['rates'])
            if not xr.close(res.test_distribution[s], ev, atol=1e-11 + m['extra']):
                good = False
                chk.violation('trace:%s:test_distribution' % tr['kind'], {'shape': m['shape'], 'sim': s,
                                                                        'got': float(res.test_distribution[s]), 'expected': str(ev)})
                break
        okc += 1 if good else 0
    chk.traces += okc
    chk.control('trace: perturbed value flagged', not xr.close(1.0000001 * float(results[0].observed_statistic) - 1e-9,
                                                                xr.evaluate(exps[1]['obs'], metas[0]['rates'])) if not isinstance(results[0], Raised) else True)
    # per-cell likelihood maps (positive rates only): same per-bin terms
    for t in range(10 if quick else 60):
        nc = rng.choice([2, 5, 12])
        data = numpy.array([[10 ** rng.uniform(-6, 1)] for _ in range(nc)])
        w = [[rng.choice([0, 0, 1, 3])] for _ in range(nc)]
        if sum(map(sum, w)) == 0:
            w[0][0] = 1
        fc = B.forecast(data)
        cat = B.catalog(w, nc, 1, rng)
        n_obs = sum(map(sum, w))
        scale = Fraction(n_obs) / sum(Fraction(float(x)) for x in data.ravel())
        pm = guarded(pe.poisson_spatial_likelihood, fc, cat)
        bm = guarded(pe.binary_spatial_likelihood, fc, cat)
        chk.count(2)
        import mpmath
        for c in range(nc):
            lam = xr._mpf(Fraction(float(data[c, 0])) * scale)
            ep = -lam + w[c][0] * mpmath.log(lam) - mpmath.loggamma(w[c][0] + 1)
            eb = mpmath.log(-mpmath.expm1(-lam)) if w[c][0] > 0 else -lam
            if isinstance(pm, Raised) or not xr.close(pm[c], ep):
                chk.violation('cellmap:poisson_spatial_likelihood', {'cell': c, 'got': repr(pm if isinstance(pm, Raised) else float(pm[c])), 'expected': str(ep)})
                break
            if isinstance(bm, Raised) or not xr.close(bm[c], eb):
                chk.violation('cellmap:binary_spatial_likelihood', {'cell': c, 'got': repr(bm if isinstance(bm, Raised) else float(bm[c])), 'expected': str(eb)})
                break
    chk.sample({'trace': {'kind': traces[0]['kind'], 'rid': traces[0]['rid'][:3], 'w': traces[0]['w'][:3], 'sims_head': traces[0]['sims'][:1]}})
    chk.exhaustive = True
    chk.notes['tolerance'] = 'rtol 1e-9, atol 1e-11 against 50-digit evaluation'
    chk.assume('public tests are only driven with at most as many active bins as positive-rate bins')
    chk.assume('per-cell likelihood maps are checked for positive-rate forecasts only (the statement names the tests, not the maps)')
