"""X03 (extension, not a listed property) - csep.utils.basic_types.AdaptiveHistogram.

spec/AdaptiveHist.tla   TLC: Conservation, EachInOwnBin, Covers, TopEdgeIsABin, OnlyGrows, OldCountsKept over every history of
        3 insertions of <= 2 values on 10 lattice positions (1.1 M states); MCbug_AdaptiveHist.cfg (the widened array does not
        receive the old counts) must be refuted.
spec -> code   every history of 2 insertions (12 321) realised on several (dh, anchor) lattices - values exactly on an edge
        or inside a bin - and executed on a real AdaptiveHistogram.
code -> spec   after every insertion the object's bins are mapped back to lattice indices (they must be anchor + k*dh) and
        its counts read; TLC accepts the recorded history only if each step is the specification's step (TraceAdaptiveHist).
        Long random histories (hundreds of insertions of up to 50 values) are recorded the same way.
"""
import random
from fractions import Fraction

from vh.core import MachineryError, guarded, Raised

LATTICES = [('0.1', '0'), ('0.5', '0.25'), ('1', '-3'), ('0.25', '0'), ('0.1', '5.95'), ('2', '0')]


def run(chk, replay=None):
    import numpy
    from csep.utils.basic_types import AdaptiveHistogram
    quick = chk.tier == 'quick'
    rng = random.Random(chk.seed + 303)
    chk.rule = ('histories = every sequence of 2 insertions of <= 2 values over lattice positions -4..5 (on an edge / inside a bin) '
                'from TLC on 6 (dh, anchor) lattices (quick: one lattice per history), plus long random histories. non-trivial = '
                'distinct histories whose second insertion widens the range, or holding a value exactly on an edge')
    res = chk.tlc('AdaptiveHist', 'MC_AdaptiveHist.cfg', timeout=1800)
    chk.require_coverage(res, ['Add'])
    r = chk.tlc('AdaptiveHist', 'MCbug_AdaptiveHist.cfg', expect='any', coverage=False, count_states=False)
    chk.control('model MCbug_AdaptiveHist.cfg refuted', r.violated in ('Conservation', 'EachInOwnBin'))
    res = chk.tlc('GenAdaptiveHist', 'Gen_AdaptiveHist.cfg', workers=1, coverage=False, count_states=False, timeout=1800)
    cases = res.tagged.get('CASE', [])
    if len(cases) < 12000:
        raise MachineryError('Gen produced %d histories' % len(cases))

    def value(p, dh, anchor, variant):
        k = p // 2
        if p % 2 == 0:
            return float(anchor + k * dh)
        f = [Fraction(1, 2), Fraction(1, 10), Fraction(9, 10)][variant % 3]
        return float(anchor + (k + f) * dh)

    def project(h, dh, anchor):
        bins = [float(x) for x in numpy.asarray(h.bins).reshape(-1)]
        data = [float(x) for x in numpy.asarray(h.data).reshape(-1)]
        if not bins:
            return {'lo': 1, 'hi': 0, 'cnt': []}
        ks = []
        for b in bins:
            k = round((Fraction(b) - anchor) / dh)
            if abs(b - float(anchor + k * dh)) > 1e-9 * max(1.0, abs(b)):
                return {'lo': 1, 'hi': 0, 'cnt': [-7]}          # an edge off the lattice
            ks.append(int(k))
        if ks != list(range(ks[0], ks[0] + len(ks))) or len(data) != len(bins) or any(x != int(x) for x in data):
            return {'lo': 1, 'hi': 0, 'cnt': [-8]}              # edges not contiguous / counts not whole numbers
        return {'lo': ks[0], 'hi': ks[-1], 'cnt': [int(x) for x in data]}

    def run_history(batches, li, variant):
        dh, anchor = Fraction(LATTICES[li][0]), Fraction(LATTICES[li][1])
        h = AdaptiveHistogram(dh=float(dh), anchor=float(anchor))
        steps = []
        for bi, b in enumerate(batches):
            vals = [value(p, dh, anchor, variant + i + bi) for i, p in enumerate(b)]
            arg = numpy.array(vals, dtype=float) if (bi + variant) % 2 == 0 else list(vals)
            r_ = guarded(h.add, arg)
            chk.count()
            if isinstance(r_, Raised):
                steps.append({'batch': list(b), 'lo': 1, 'hi': 0, 'cnt': [-9], 'err': r_.text})
                break
            steps.append(dict(project(h, dh, anchor), batch=list(b)))
        return steps

    if replay:
        d = replay['detail']
        steps = run_history(d['batches'], d['lattice'], d['variant'])
        acc, rej = chk.validate_traces('TraceAdaptiveHist', 'Trace_AdaptiveHist.cfg',
                                       [[{k: s[k] for k in ('batch', 'lo', 'hi', 'cnt')} for s in steps]], chunk=10)
        if rej:
            chk.violation(replay['signature'], dict(d, steps=steps))
        chk.sample({'replayed': d['batches']})
        return

    traces, metas = [], []
    for ci, case in enumerate(cases):
        for li in ([ci % len(LATTICES)] if quick else range(len(LATTICES))):
            steps = run_history(case['batches'], li, ci)
            traces.append([{k: s[k] for k in ('batch', 'lo', 'hi', 'cnt')} for s in steps])
            metas.append({'batches': case['batches'], 'lattice': li, 'variant': ci, 'steps': steps})
        b = case['batches']
        if any(p % 2 == 0 for x in b for p in x) or (len(b) == 2 and b[0] and b[1] and (min(b[1]) < min(b[0]) or max(b[1]) > max(b[0]))):
            chk.nontrivial('%s' % b)
    for t in range(10 if quick else 100):
        li = t % len(LATTICES)
        batches = [[rng.randint(-60, 60) if rng.random() < 0.9 else rng.randint(-2000, 2000) for _ in range(rng.choice([0, 1, 3, 50]))]
                   for _ in range(rng.choice([5, 40, 300]))]
        steps = run_history(batches, li, t)
        traces.append([{k: s[k] for k in ('batch', 'lo', 'hi', 'cnt')} for s in steps])
        metas.append({'batches': 'random %d insertions' % len(batches), 'lattice': li, 'variant': t, 'steps': steps[-2:]})
        chk.nontrivial('rand|%d' % t)
    import copy
    src = next(i for i, t in enumerate(traces) if len(t) == 2 and t[1]['cnt'] and sum(t[1]['cnt']) >= 2 and t[1]['cnt'][0] >= 0)
    bad = copy.deepcopy(traces[src])
    j = next(i for i, x in enumerate(bad[1]['cnt']) if x > 0)
    bad[1]['cnt'][j] -= 1
    acc, rej = chk.validate_traces('TraceAdaptiveHist', 'Trace_AdaptiveHist.cfg', traces + [bad], chunk=1500, parallel=14, timeout=1800)
    chk.traces -= len([i for i in acc if i >= len(traces)])
    chk.control('trace: history with one count lowered rejected', len(traces) in {i for i, _ in rej})
    for i, diag in rej:
        if i >= len(traces):
            continue
        m = metas[i]
        k = diag[-1]['explained_events'] if diag else 0
        st = m['steps'][min(k, len(m['steps']) - 1)] if isinstance(m['batches'], list) else m['steps'][-1]
        why = 'raised' if 'err' in st else ('edges off the lattice' if st['cnt'] == [-7] else ('malformed' if st['cnt'] == [-8] else 'counts or range'))
        chk.violation('history:%s:%s' % (why, 'dh=%s anchor=%s' % LATTICES[m['lattice']]),
                      {'batches': m['batches'], 'lattice': m['lattice'], 'variant': m['variant'], 'first_unexplained_step': st, 'index': k})
    chk.sample({'history': metas[100]['batches'], 'lattice': LATTICES[metas[100]['lattice']], 'steps': traces[100]})
    chk.exhaustive = True
    chk.assume('values are exactly on a lattice edge (the double nearest to anchor + k*dh) or 10% / 50% / 90% into a bin')
