"""X08 (extension, not a listed property) - the life cycle of a GriddedForecast object.

spec/ForecastSession.tla   TLC: FractionInUnit, FractionMonotone, LastDayIsWhole, ReportsCurrentScale, ObserversArePure,
        Isolation (a copy is independent of its original), ScaleSets (scale() sets the factor, it does not compound) over all
        sessions of 3 (thorough 4) calls from 5 forecast windows (none, a common year, into a leap year, around a leap day,
        across a year end) x 13 test dates.  MCbug (scale() compounds) and MCbug2 (test taken at the start of the test
        date) must be refuted.
spec -> code  GenForecastSession: every session of 2 calls exhaustively (4 805) and long random sessions from TLC's
        simulator, each with the specification's prediction after every call: the scale term of BOTH objects (original and
        copy) and the outcome of the call.  The harness executes the session on real GriddedForecast objects and compares
        after every call: the totals of both objects, and the returned total / spatial / magnitude marginals / looked-up
        rates / target-event rates (also scaled to one day) / N-test probabilities with the values the predicted term gives
        in exact rational arithmetic.
"""
import copy
import datetime
import pickle
import random
from fractions import Fraction

from vh.core import MachineryError, guarded, Raised

RATES = [[0.5, 0.125], [2.0, 0.03125]]       # stored rates (powers of two: products with quarters are exact)
BASE = Fraction(85, 32)


def term_array(t):
    """scale term -> 2 x 2 table of exact factors (cell, bin)"""
    if t['k'] == 'cells':
        return [[Fraction(t['n'], 4)] * 2, [Fraction(t['d'], 4)] * 2]
    f = Fraction(t['n'], t['d'])
    return [[f, f], [f, f]]


def dec_year_exact(d):
    y = d[0]
    leap = (y % 4 == 0 and y % 100 != 0) or y % 400 == 0
    doy = (datetime.date(*d) - datetime.date(y, 1, 1)).days
    return y + Fraction(doy, 366 if leap else 365)


def run(chk, replay=None):
    import numpy
    import scipy.stats
    from csep.core.catalogs import CSEPCatalog
    from csep.core.regions import CartesianGrid2D
    from csep.core.forecasts import GriddedForecast
    from csep.core import poisson_evaluations as pe
    quick = chk.tier == 'quick'
    rng = random.Random(chk.seed + 808)
    chk.rule = ('sessions = every sequence of 2 calls on a GriddedForecast from 5 windows exhaustively plus long random sessions '
                'from the TLC simulator, each executed on real objects and compared after every call. non-trivial = distinct '
                'sessions in which an observation follows a change of scale, or a copy exists')
    res = chk.tlc('ForecastSession', 'MC_ForecastSession.cfg' if quick else 'MCT_ForecastSession.cfg', timeout=1800)
    chk.require_coverage(res, ['Do'])
    r = chk.tlc('ForecastSession', 'MCbug_ForecastSession.cfg', expect='any', coverage=False, count_states=False)
    chk.control('model MCbug_ForecastSession.cfg refuted', r.violated == 'ScaleSets')
    r = chk.tlc('ForecastSession', 'MCbug2_ForecastSession.cfg', expect='any', coverage=False, count_states=False)
    chk.control('model MCbug2_ForecastSession.cfg refuted', r.violated == 'LastDayIsWhole')
    res = chk.tlc('GenForecastSession', 'Gen_ForecastSession.cfg', workers=1, coverage=False, count_states=False, timeout=1800)
    cases = list(res.tagged.get('CASE', []))
    n_ex = len(cases)
    res = chk.tlc('GenForecastSession', 'Sim_ForecastSession.cfg', workers=1, coverage=False, count_states=False, timeout=1800,
                  simulate='num=%d' % (600 if quick else 8000), depth=11, expect='any')
    cases += res.tagged.get('CASE', [])
    if n_ex < 4000 or len(cases) - n_ex < 400:
        raise MachineryError('Gen produced %d + %d sessions' % (n_ex, len(cases) - n_ex))
    chk.log('Gen: %d exhaustive + %d simulated sessions' % (n_ex, len(cases) - n_ex))
    if quick:
        pick = random.Random(chk.seed * 7919 + 8)
        cases = [c for i, c in enumerate(cases) if i >= n_ex or pick.random() < 0.5]

    mags = numpy.array([4.0, 5.0])
    # target events: one or two in every (cell, bin)
    EV = [(0, 0), (1, 1), (0, 1), (1, 0), (1, 1)]

    def region():
        return CartesianGrid2D.from_origins(numpy.array([[0.0, 0.0], [1.0, 0.0]]), dh=1.0, magnitudes=mags)

    def catalog():
        data = [('e%d' % i, 1000 * i, 0.5, 0.25 + c, 10.0, 4.5 + b) for i, (c, b) in enumerate(EV)]
        return CSEPCatalog(data=data, region=region())

    def new_forecast(win, si):
        kw = {}
        if win:
            kw = {'start_time': datetime.datetime(*win[0]), 'end_time': datetime.datetime(*win[1])}
        data = numpy.array(RATES)
        if si % 3 == 1:
            data = numpy.asfortranarray(data)
        return GriddedForecast(region=region(), magnitudes=mags, data=data, name='f', **kw)

    def tol_of(term, win):
        """absolute tolerance on a factor: quarters are exact; a window fraction carries the rounding of four decimal years
        (about 2.3e-13 each) divided by the window length"""
        if term['k'] != 'frac':
            return 1e-15
        dur = float(dec_year_exact(win[1]) - dec_year_exact(win[0]))
        return 2e-12 / dur

    def close(got, want, tol):
        try:
            g = numpy.asarray(got, dtype=float)
        except Exception:      # noqa
            return False
        w = numpy.array([[float(x) for x in row] for row in want]) if isinstance(want[0], list) else numpy.array([float(x) for x in want])
        if g.shape != w.shape:
            return False
        return bool(numpy.all(numpy.abs(g - w) <= tol * numpy.maximum(1.0, numpy.abs(w)) + 1e-300))

    def expected_obs(kind, term, days):
        f = term_array(term)
        cell = [[Fraction(RATES[c][b]) * f[c][b] for b in range(2)] for c in range(2)]
        total = sum(sum(r) for r in cell)
        if kind == 'total':
            return [total]
        if kind == 'sc':
            return [sum(cell[0]), sum(cell[1])]
        if kind == 'mc':
            return [cell[0][0] + cell[1][0], cell[0][1] + cell[1][1]]
        if kind == 'rates':
            return [cell[c][b] for c, b in EV]
        if kind == 'ter':
            return [cell[c][b] / days for c, b in EV] + [total / days]
        raise MachineryError(kind)

    def run_session(case, si):
        """execute; returns list of mismatches (step, what, got, expected)"""
        win = case['win']
        objs = {'a': new_forecast(win, si), 'b': None}
        focus = 'a'
        cat = catalog()
        for step, (op, out) in enumerate(zip(case['hist'], case['outs'])):
            name, arg = op
            fc = objs[focus]
            got = None
            if name == 'scale_q':
                # several spellings of the same number
                val = [arg / 4.0, numpy.float64(arg / 4.0), Fraction(arg, 4) if arg % 4 else arg // 4, numpy.array(arg / 4.0)][(si + step) % 4]
                got = guarded(fc.scale, val)
            elif name == 'scale_cells':
                got = guarded(fc.scale, numpy.array([[0.5], [2.0]]))
            elif name == 'to_date':
                got = guarded(fc.scale_to_test_date, datetime.datetime(*arg))
            elif name == 'total':
                got = guarded(lambda: [fc.event_count if (si + step) % 2 else fc.sum()])
            elif name == 'sc':
                got = guarded(fc.spatial_counts)
            elif name == 'mc':
                got = guarded(fc.magnitude_counts)
            elif name == 'rates':
                got = guarded(fc.get_rates, cat.get_longitudes(), cat.get_latitudes(), cat.get_magnitudes())
            elif name in ('ter', 'ter_day'):
                got = guarded(fc.target_event_rates, cat, scale=(name == 'ter_day'))
                if not isinstance(got, Raised):
                    got = list(numpy.asarray(got[0], dtype=float)) + [float(got[1])]
            elif name == 'eval':
                got = guarded(pe.number_test, fc, cat)
            elif name == 'copy':
                other = 'b' if focus == 'a' else 'a'
                objs[other] = copy.deepcopy(fc) if (si + step) % 2 else pickle.loads(pickle.dumps(fc))
            elif name == 'switch':
                other = 'b' if focus == 'a' else 'a'
                if objs[other] is not None:
                    focus = other
            elif name == 'pickle':
                r = guarded(lambda: pickle.loads(pickle.dumps(fc)))
                if isinstance(r, Raised):
                    got = r
                else:
                    objs[focus] = r
            elif name == 'scribble':
                # the arrays an observation hands out belong to the caller
                for fn_ in (lambda: fc.data, fc.spatial_counts, fc.magnitude_counts, lambda: fc.spatial_counts(cartesian=True)):
                    arr = guarded(fn_)
                    if isinstance(arr, Raised):
                        got = arr
                        break
                    try:
                        arr[...] = -7.0
                    except (ValueError, TypeError):
                        pass
            else:
                raise MachineryError('unknown op %r' % (op,))
            chk.count()
            exp = out['last']
            term = exp['s']
            tol = tol_of(term, win)
            # outcome of the call
            if exp['k'] == 'raised':
                if not isinstance(got, Raised):
                    return [(step, name, 'expected the call to raise', repr(got)[:200])]
            elif isinstance(got, Raised):
                return [(step, name, 'raised', got.text)]
            elif exp['k'] in ('total', 'sc', 'mc', 'rates', 'ter'):
                want = expected_obs(exp['k'], term, exp['days'])
                if not close(numpy.asarray(got, dtype=float).ravel(), want, tol):
                    return [(step, name, 'observation', repr(got)[:300], [float(x) for x in want])]
            elif exp['k'] == 'eval':
                total = float(expected_obs('total', term, 1)[0])
                n = len(EV)
                want_q = (1.0 - scipy.stats.poisson.cdf(n - 1, total), scipy.stats.poisson.cdf(n, total))
                gq = [float(x) for x in got.quantile]
                if int(got.observed_statistic) != n or any(abs(a - b) > 1e-9 + 50 * tol for a, b in zip(gq, want_q)):
                    return [(step, name, 'N-test', gq, list(want_q))]
            # both objects: the total each reports is that of its own scale term
            for slot in ('a', 'b'):
                st = out[slot]
                if not st['alive']:
                    if objs[slot] is not None:
                        return [(step, name, 'slot %s should not exist' % slot, '', '')]
                    continue
                if objs[slot] is None:
                    return [(step, name, 'slot %s missing' % slot, '', '')]
                want = expected_obs('total', st['scale'], 1)
                g = guarded(lambda: [float(objs[slot].event_count)])
                if isinstance(g, Raised) or not close(g, want, tol_of(st['scale'], win)):
                    return [(step, name, 'total of object %s after the call (%s)' % (slot, 'in focus' if slot == focus else 'not in focus'),
                             repr(g), [float(x) for x in want])]
                g2 = guarded(lambda: objs[slot].data)
                want2 = [[Fraction(RATES[c][b]) * term_array(st['scale'])[c][b] for b in range(2)] for c in range(2)]
                if isinstance(g2, Raised) or not close(g2, want2, tol_of(st['scale'], win)):
                    return [(step, name, 'rates of object %s after the call' % slot, repr(g2), [[float(x) for x in r_] for r_ in want2])]
            if out['focus'] != focus:
                raise MachineryError('focus bookkeeping differs from the specification at step %d of %r' % (step, case['hist']))
        return []

    if replay:
        d = replay['detail']
        bad = run_session(d['case'], d['si'])
        if bad:
            chk.violation(replay['signature'], dict(d, mismatch=bad))
        chk.sample({'replayed': d['case']['hist']})
        return

    ok = 0
    observers = {'total', 'sc', 'mc', 'rates', 'ter', 'ter_day', 'eval'}
    for si, case in enumerate(cases):
        bad = run_session(case, si)
        names = [o[0] for o in case['hist']]
        if 'copy' in names or any(a in ('scale_q', 'scale_cells', 'to_date') and b in observers for a, b in zip(names, names[1:])):
            chk.nontrivial('%s|%s' % (case['win'], case['hist']))
        if bad:
            step, name = bad[0][0], bad[0][1]
            prev = names[step - 1] if step else 'start'
            chk.violation('session:%s:%s:after %s%s' % (name, bad[0][2].split(' (')[0], prev, '' if case['win'] else ':no-window'),
                          {'case': case, 'si': si, 'mismatch': bad})
        else:
            ok += 1
        if si in (100, n_ex + 5):
            chk.sample({'session': case['hist'], 'window': case['win'], 'predicted': [o['last'] for o in case['outs']][:6]})
    chk.traces += ok
    # control: a prediction with the window fraction of the day before must be flagged
    ctl = next(c for c in cases if c['win'] and any(o['a']['scale']['k'] == 'frac' and o['a']['scale']['n'] < o['a']['scale']['d'] for o in c['outs'])
               and c['hist'][-1][0] == 'total')
    b = copy.deepcopy(ctl)
    for o in b['outs']:
        for slot in ('a', 'b'):
            if o[slot]['scale']['k'] == 'frac':
                o[slot]['scale']['n'] -= 1
        if o['last']['s']['k'] == 'frac':
            o['last']['s']['n'] -= 1
    chk.control('gen: window fraction smaller by 1/(365*366) year flagged', bool(run_session(b, 0)))
    chk.exhaustive = True
    chk.notes['sessions_exhaustive'] = n_ex
    chk.notes['sessions_simulated'] = len(cases) - n_ex
    chk.assume('test dates and window ends at midnight (the specification counts whole days); a window fraction is compared to '
               '2e-12 / (window length in years)')
