"""Shared machinery of the pyCSEP TLA+ conformance checks.

Exit codes of a check:
  0  every explored case conforms (known findings printed as KNOWN-FINDING lines)
  1  at least one VIOLATION not listed in known_findings.json
  2  machinery failure (TLC error, vacuity guard, negative control not rejected, ...)
"""
import hashlib
import json
import os
import re
import shutil
import subprocess
import sys
import tempfile
import time

ROOT = os.path.dirname(os.path.dirname(os.path.abspath(__file__)))
SPEC = os.path.join(ROOT, 'spec')
EVID = os.path.join(ROOT, 'evidence')
REPLAYS = os.environ.get('VERIF_REPLAY_DIR') or os.path.join(ROOT, 'replays')      # (trials of changed copies write theirs elsewhere)
FINDINGS = os.path.join(ROOT, 'known_findings.json')
TLA_CP = '/opt/veriftools/tla/tla2tools.jar:/opt/veriftools/tla/CommunityModules-deps.jar'


class MachineryError(Exception):
    pass


class Raised:
    """Marker for 'the code under test raised': never equal to any expected value."""

    def __init__(self, exc):
        self.text = '%s: %s' % (type(exc).__name__, str(exc)[:200])

    def __repr__(self):
        return 'Raised(%s)' % self.text

    def __eq__(self, other):
        return False

    def __ne__(self, other):
        return True

    def __float__(self):
        return float('nan')


class CallTimeout(Exception):
    pass


def guarded_timeout(secs, fn, *a, **k):
    """guarded() with a wall-clock limit (SIGALRM): a call that does not return is an observation too."""
    import signal

    def handler(signum, frame):
        raise CallTimeout('no result after %ss' % secs)
    old = signal.signal(signal.SIGALRM, handler)
    signal.setitimer(signal.ITIMER_REAL, secs)
    try:
        return fn(*a, **k)
    except Exception as e:   # noqa
        return Raised(e)
    finally:
        signal.setitimer(signal.ITIMER_REAL, 0)
        signal.signal(signal.SIGALRM, old)


def guarded(fn, *a, **k):
    """Call code under test; an exception is an observation (Raised), not a harness crash."""
    try:
        return fn(*a, **k)
    except Exception as e:   # noqa
        return Raised(e)


class TlcResult:
    def __init__(self):
        self.generated = 0
        self.distinct = 0
        self.ok = False
        self.violated = None       # name of violated invariant/property, if any
        self.errors = []
        self.tagged = {}           # tag -> list of decoded JSON payloads / scalars
        self.coverage = {}         # action name -> (distinct, total)
        self.wall = 0.0
        self.raw_tail = ''
        self.cmd = ''


_TAG_JSON = re.compile(r'^<<"([A-Z_]+)", "(.*)">>$')
_TAG_SCALAR = re.compile(r'^<<"([A-Z_]+)", (-?\d+)>>$')
_TAG_PAIR = re.compile(r'^<<"([A-Z_]+)", (-?\d+), (-?\d+)>>$')
_FINAL = re.compile(r'^(\d+) states generated, (\d+) distinct states found')
_COV = re.compile(r'^<(\w+) line (\d+), col (\d+) to line (\d+), col (\d+) of module (\w+)>: (\d+):(\d+)')
_COVINIT = re.compile(r'^<(\w+) line (\d+), col (\d+) to line (\d+), col (\d+) of module (\w+)>: (\d+)$')


def parse_tlc_output(text, res):
    for line in text.splitlines():
        line = line.rstrip()
        if line.startswith('<<"'):
            m = _TAG_JSON.match(line)
            if m:
                try:
                    inner = json.loads('"' + m.group(2) + '"')
                    res.tagged.setdefault(m.group(1), []).append(json.loads(inner))
                except Exception:
                    res.tagged.setdefault(m.group(1), []).append(m.group(2))
                continue
            m = _TAG_SCALAR.match(line)
            if m:
                res.tagged.setdefault(m.group(1), []).append(int(m.group(2)))
                continue
            m = _TAG_PAIR.match(line)
            if m:
                res.tagged.setdefault(m.group(1), []).append((int(m.group(2)), int(m.group(3))))
                continue
        m = _FINAL.match(line)
        if m:
            res.generated = int(m.group(1))
            res.distinct = int(m.group(2))
            continue
        m = _COV.match(line)
        if m:
            res.coverage[m.group(1)] = (int(m.group(7)), int(m.group(8)))
            continue
        m = _COVINIT.match(line)
        if m:
            res.coverage[m.group(1)] = (int(m.group(7)), int(m.group(7)))
            continue
        if line.startswith('Error:'):
            res.errors.append(line)
            mm = re.search(r'Invariant (\w+) is violated', line)
            if mm:
                res.violated = mm.group(1)
            mm = re.search(r'The invariant of (\w+) is equal to FALSE', line)      # (an invariant that is a constant formula)
            if mm:
                res.violated = mm.group(1)
            mm = re.search(r'Action property (\w+) is violated', line)
            if mm:
                res.violated = mm.group(1)
            mm = re.search(r'Temporal properties were violated', line)
            if mm and not res.violated:
                res.violated = 'temporal'
    if 'Model checking completed. No error has been found.' in text:
        res.ok = True
    if re.search(r'^Finished in ', text, re.M) and not res.errors and 'states generated' in text:
        # -simulate and -generate runs end differently
        pass
    return res


class Check:
    def __init__(self, pid, tier='quick', seed=0, level='model_checking'):
        self.pid = pid
        self.tier = tier
        self.seed = int(seed)
        self.level = level
        self.t0 = time.time()
        self.tmp = tempfile.mkdtemp(prefix='verif-%s-' % pid)
        self.states = 0
        self.transitions = 0
        self.traces = 0
        self.evaluations = 0
        self._nontrivial = set()
        self.samples = []
        self.violations = []      # (signature, detail, replay)
        self.known_hits = []
        self.assumptions = []
        self.notes = {}
        self.tlc_runs = []
        self.rule = ''
        self.exhaustive = None
        self.controls = []        # negative controls executed (name, rejected?)
        self._known = self._load_known()

    # ---------------------------------------------------------------- known findings
    def _load_known(self):
        if not os.path.exists(FINDINGS):
            return []
        with open(FINDINGS) as f:
            data = json.load(f)
        return [e for e in data.get('findings', []) if e.get('property') == self.pid and e.get('status') == 'open']

    # ---------------------------------------------------------------- bookkeeping
    def count(self, n=1):
        self.evaluations += n

    def nontrivial(self, key):
        if not isinstance(key, (str, bytes, int)):
            key = json.dumps(key, sort_keys=True, default=str)
        self._nontrivial.add(key if isinstance(key, (int,)) else hashlib.blake2b(
            key.encode() if isinstance(key, str) else key, digest_size=8).digest())

    def sample(self, obj, limit=6):
        if len(self.samples) < limit:
            self.samples.append(obj)

    def assume(self, text):
        if text not in self.assumptions:
            self.assumptions.append(text)

    def log(self, *a):
        print('[%s %6.1fs]' % (self.pid, time.time() - self.t0), *a, flush=True)

    # ---------------------------------------------------------------- TLC
    def tlc(self, module, cfg, *, workers=16, simulate=None, depth=None, env=None, timeout=900,
            coverage=True, expect='ok', deadlock=False, extra=None, stdout_file=None, heap=None,
            count_states=True, dfs=False):
        """Run TLC on spec/<module>.tla with spec/<cfg>.  Returns TlcResult.

        expect: 'ok' (model checking must complete without error), 'any' (caller inspects).
        """
        res = TlcResult()
        meta = tempfile.mkdtemp(prefix='meta-', dir=self.tmp)
        cmd = ['java', '-XX:+UseParallelGC', '-Xss64m']
        if heap:
            cmd.append('-Xmx%s' % heap)
        if dfs:
            cmd.append('-Dtlc2.tool.queue.IStateQueue=StateDeque')
        cmd += ['-cp', TLA_CP, 'tlc2.TLC', '-workers', str(workers), '-metadir', meta,
                '-noGenerateSpecTE', '-config', cfg]
        if coverage and not simulate:
            cmd += ['-coverage', '1']
        if simulate:
            cmd += ['-simulate', simulate]
            cmd += ['-seed', str(self.seed)]
        if depth:
            cmd += ['-depth', str(depth)]
        if deadlock:
            cmd += ['-deadlock']
        if extra:
            cmd += list(extra)
        cmd.append(module + '.tla')
        e = dict(os.environ)
        if env:
            e.update({k: str(v) for k, v in env.items()})
        res.cmd = ' '.join(cmd)
        t = time.time()
        out_path = stdout_file or os.path.join(meta, 'out.txt')
        with open(out_path, 'w') as fo:
            try:
                p = subprocess.run(cmd, cwd=SPEC, env=e, stdout=fo, stderr=subprocess.STDOUT, timeout=timeout)
                rc = p.returncode
            except subprocess.TimeoutExpired:
                rc = -9
                res.errors.append('TLC timeout after %ss' % timeout)
        res.wall = time.time() - t
        with open(out_path, errors='replace') as fi:
            text = fi.read()
        parse_tlc_output(text, res)
        res.raw_tail = '\n'.join(l[:300] for l in text.splitlines() if not l.startswith('<<"'))[-6000:]
        res.rc = rc
        if count_states:
            self.states += res.distinct
            self.transitions += res.generated
        self.tlc_runs.append({'module': module, 'cfg': cfg, 'distinct': res.distinct, 'generated': res.generated,
                              'wall_s': round(res.wall, 2), 'simulate': simulate,
                              'coverage_actions': {k: v[1] for k, v in res.coverage.items()} if res.coverage else None})
        shutil.rmtree(meta, ignore_errors=True) if not stdout_file else None
        if expect == 'ok':
            if simulate:
                if res.errors or rc not in (0,):
                    raise MachineryError('TLC simulate failed for %s/%s:\n%s' % (module, cfg, res.raw_tail))
            elif not res.ok:
                raise MachineryError('TLC did not complete cleanly for %s/%s (rc=%s):\n%s' % (module, cfg, rc, res.raw_tail))
        return res

    def require_coverage(self, res, actions):
        """Vacuity guard: every named action must have fired at least once."""
        for a in actions:
            if a not in res.coverage:
                raise MachineryError('coverage: action %s not reported by TLC' % a)
            if res.coverage[a][1] == 0:
                raise MachineryError('vacuity: action %s never taken' % a)


    # ---------------------------------------------------------------- trace validation
    def validate_traces(self, module, cfg, traces, *, diag_cfg=None, chunk=2000, timeout=900, label='trace',
                        max_diag=3, parallel=8, count=True):
        """Validate recorded traces (list of JSON-able dicts) with TLC; returns (accepted_idx_set, rejected list).

        Each chunk is one TLC run (one initial state per trace).  A trace is accepted iff TLC prints
        <<"ACCEPT", tid>> for it.  rejected = list of (index, diag) where diag is the list of states of
        the longest explained prefix (when diag_cfg is given).
        """
        from concurrent.futures import ThreadPoolExecutor
        accepted = set()
        rejected = []
        chunks = [(i, traces[i:i + chunk]) for i in range(0, len(traces), chunk)]

        def run_chunk(args):
            base, part = args
            path = os.path.join(self.tmp, '%s-%d.json' % (label, base))
            with open(path, 'w') as f:
                json.dump(part, f)
            res = self.tlc(module, cfg, workers=1, env={'TRACE_FILE': path}, coverage=False, timeout=timeout,
                           expect='any', count_states=False)
            return base, part, path, res

        with ThreadPoolExecutor(max_workers=max(1, min(parallel, len(chunks)))) as ex:
            results = list(ex.map(run_chunk, chunks))
        for base, part, path, res in results:
            if not res.ok:
                raise MachineryError('trace validation run failed (%s/%s):\n%s' % (module, cfg, res.raw_tail))
            self.states += res.distinct
            self.transitions += res.generated
            acc = set(res.tagged.get('ACCEPT', []))
            prog = {}
            for t, lv in res.tagged.get('PROG', []):
                if lv > prog.get(t, 0):
                    prog[t] = lv
            for j in range(len(part)):
                if (j + 1) in acc:
                    accepted.add(base + j)
                else:
                    diag = None
                    if (j + 1) in prog:
                        diag = [{'explained_events': prog[j + 1] - 1}]
                    elif diag_cfg and len(rejected) < max_diag:
                        r2 = self.tlc(module, diag_cfg, workers=1, env={'TRACE_FILE': path, 'TRACE_ONLY': j + 1},
                                      coverage=False, timeout=timeout, expect='any', count_states=False)
                        diag = r2.tagged.get('DIAG', [])[-3:]
                    rejected.append((base + j, diag))
            os.remove(path)
        if count:
            self.traces += len(accepted)
        return accepted, rejected

    # ---------------------------------------------------------------- verdicts
    def violation(self, signature, detail):
        """Record a violation.  signature = stable string used by known_findings.json."""
        for k in self._known:
            if k['signature'] == signature or (k.get('signature_prefix') and signature.startswith(k['signature_prefix'])):
                if k['signature'] not in [h['signature'] for h in self.known_hits]:
                    self.known_hits.append(k)
                return False
        if len(self.violations) >= 50:
            self.violations.append((signature, None, None))
            return True
        os.makedirs(REPLAYS, exist_ok=True)
        h = hashlib.blake2b(signature.encode(), digest_size=6).hexdigest()
        path = os.path.join(REPLAYS, '%s-%s.json' % (self.pid, h))
        with open(path, 'w') as f:
            json.dump({'property': self.pid, 'signature': signature, 'detail': detail, 'seed': self.seed,
                       'tier': self.tier}, f, indent=1, default=str)
        self.violations.append((signature, detail, path))
        return True

    def control(self, name, rejected):
        self.controls.append({'control': name, 'rejected': bool(rejected)})
        if not rejected:
            if self.violations:
                # a control that replays a wrong expectation against the code can coincide with the answer of a changed
                # library (seen with X14): with violations already on record the run reports those, not a machinery failure
                return
            raise MachineryError('negative control not rejected: %s' % name)

    # ---------------------------------------------------------------- evidence
    def write_evidence(self, status_violations):
        # extension checks (ids X..: specification coverage beyond the listed properties) keep their evidence apart
        evid = EVID if not self.pid.startswith('X') else os.path.join(ROOT, 'evidence_ext')
        # (runs against a deliberately changed copy of the library - bin/try_seed.sh - keep their evidence elsewhere)
        evid = os.environ.get('VERIF_EVID_DIR') or evid
        os.makedirs(evid, exist_ok=True)
        cov = {
            'states': int(self.states),
            'transitions': int(self.transitions),
            'traces_validated_against_impl': int(self.traces),
            'samples': self.samples or ['(no sample recorded)'],
            'evaluations': int(self.evaluations),
            'distinct_nontrivial': len(self._nontrivial),
            'rule': self.rule,
            'tlc_runs': self.tlc_runs,
            'negative_controls': self.controls,
            'known_findings_hit': [k['signature'] for k in self.known_hits],
        }
        if self.exhaustive is not None:
            cov['exhaustive'] = bool(self.exhaustive)
        cov.update(self.notes)
        ev = {
            'property_id': self.pid,
            'tier': self.tier,
            'seed': self.seed,
            'level': self.level,
            'coverage': cov,
            'assumptions': self.assumptions,
            'wall_s': round(time.time() - self.t0, 2),
            'violations': status_violations,
        }
        path = os.path.join(evid, '%s.json' % self.pid)
        tmp = path + '.tmp'
        with open(tmp, 'w') as f:
            json.dump(ev, f, indent=1, default=str)
        os.replace(tmp, path)

    def finish(self):
        for k in self.known_hits:
            print('KNOWN-FINDING: property=%s %s' % (self.pid, k.get('what', k['signature'])))
        seen = set()
        n = 0
        for sig, detail, path in self.violations:
            if path is None or sig in seen:
                continue
            seen.add(sig)
            n += 1
            print('VIOLATION property=%s replay=%s' % (self.pid, path))
            print('  signature:', sig)
            if detail is not None:
                s = json.dumps(detail, default=str)
                print('  detail:', s[:600])
        self.write_evidence(len(self.violations))
        shutil.rmtree(self.tmp, ignore_errors=True)
        self.log('done: states=%d transitions=%d traces=%d evaluations=%d nontrivial=%d violations=%d known=%d'
                 % (self.states, self.transitions, self.traces, self.evaluations, len(self._nontrivial),
                    len(self.violations), len(self.known_hits)))
        return 1 if self.violations else 0

    def abort(self, msg):
        print('MACHINERY-FAILURE property=%s %s' % (self.pid, msg), flush=True)
        shutil.rmtree(self.tmp, ignore_errors=True)
        return 2


def run_driver(pid, fn, argv=None):
    """Entry used by bin/check."""
    import argparse
    ap = argparse.ArgumentParser()
    ap.add_argument('--tier', default=os.environ.get('VERIF_TIER', 'quick'))
    ap.add_argument('--seed', default=os.environ.get('VERIF_SEED', '0'))
    ap.add_argument('--replay', default=None)
    a = ap.parse_args(argv)
    tier = a.tier if a.tier in ('quick', 'thorough') else 'quick'
    try:
        seed = int(a.seed)
    except ValueError:
        seed = 0
    chk = Check(pid, tier, seed)
    try:
        if a.replay:
            with open(a.replay) as f:
                rp = json.load(f)
            fn(chk, replay=rp)
        else:
            fn(chk, replay=None)
        return chk.finish()
    except MachineryError as e:
        return chk.abort(str(e))
    except Exception as e:  # any unexpected crash of the harness is machinery, never a violation
        import traceback
        traceback.print_exc()
        return chk.abort('%s: %s' % (type(e).__name__, e))


def same_evaluation(a, b):
    """Two evaluation results (or Raised) carry the same status, statistic, test distribution and quantile (nan = nan)."""
    if isinstance(a, Raised) or isinstance(b, Raised):
        return isinstance(a, Raised) and isinstance(b, Raised)
    if a is None or b is None:
        return a is None and b is None

    def norm(x):
        if x is None or isinstance(x, str):
            return x
        try:
            it = list(x)
        except TypeError:
            x = float(x)
            return 'nan' if x != x else x
        return [norm(y) for y in it]
    return all(norm(getattr(a, f, None)) == norm(getattr(b, f, None))
               for f in ('status', 'observed_statistic', 'test_distribution', 'quantile'))


class other_surroundings:
    """Context manager: process-wide settings an embedding program may legitimately have changed, none of which the library's
    answers may depend on - a coarse `decimal` context, terse numpy print options, a different working directory.  Everything
    is restored on exit.  (Used by the drivers for a deterministic part of their cases.)"""

    def __init__(self, cwd=None):
        self.cwd = cwd

    def __enter__(self):
        import decimal
        import numpy
        self._ctx = decimal.getcontext().copy()
        c = decimal.getcontext()
        c.prec = 1
        c.rounding = decimal.ROUND_UP
        self._po = numpy.get_printoptions()
        numpy.set_printoptions(precision=1, threshold=3, edgeitems=1, suppress=True)
        self._cwd = os.getcwd()
        if self.cwd:
            os.chdir(self.cwd)
        return self

    def __exit__(self, *a):
        import decimal
        import numpy
        decimal.setcontext(self._ctx)
        numpy.set_printoptions(**self._po)
        os.chdir(self._cwd)
        return False


def spell_flag(b, i):
    """A boolean option in one of the spellings callers use: the literal, a numpy boolean (the result of a comparison or of
    `.any()`), or 0 / 1."""
    import numpy
    return [bool(b), numpy.bool_(b), int(b)][i % 3]
