import importlib
import sys
from vh.core import run_driver


def main():
    if len(sys.argv) < 2:
        print('usage: check <ID> [--tier quick|thorough] [--seed N] [--replay file]')
        return 2
    pid = sys.argv[1].upper()
    try:
        mod = importlib.import_module('vh.drivers.%s' % pid.lower())
    except ModuleNotFoundError as e:
        print('MACHINERY-FAILURE no driver for %s (%s)' % (pid, e))
        return 2
    return run_driver(pid, mod.run, sys.argv[2:])


if __name__ == '__main__':
    sys.exit(main())
