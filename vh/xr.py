"""Interpreter for XR nodes emitted by the TLA+ specifications (spec/XR.tla).

Rates are looked up in a table id -> Fraction (the exact rational value of the float handed to pyCSEP);
everything else is evaluated with mpmath at 50 digits.  Returns mpf, or float('-inf') / nan / None.
"""
from fractions import Fraction
import math

try:
    import mpmath
    mpmath.mp.dps = 50
    HAVE_MP = True
except Exception:   # pragma: no cover
    mpmath = None
    HAVE_MP = False

NEG_INF = float('-inf')


def _mpf(fr):
    if isinstance(fr, Fraction):
        return mpmath.mpf(fr.numerator) / mpmath.mpf(fr.denominator)
    return mpmath.mpf(fr)


def evaluate(node, rates, extra=None):
    """Value of an XR node. rates: dict/list id -> Fraction.  extra: dict name -> value for 'var' nodes."""
    op = node['op']
    coef = Fraction(node['cn'], node['cd']) if node['cd'] != 0 else None
    if op == 'neginf':
        return NEG_INF
    if op == 'nan':
        return float('nan')
    if op == 'none':
        return None
    if op == 'one':
        base = mpmath.mpf(1)
    elif op == 'ratesum':
        num = sum((rates[i] for i in node['ids']), Fraction(0))
        if node['ids2']:
            den = sum((rates[i] for i in node['ids2']), Fraction(0))
            base = _mpf(num / den)
        else:
            base = _mpf(num)
    elif op == 'lnfact':
        base = mpmath.loggamma(node['n'] + 1)
    elif op == 't_ppf':
        # the probability is carried in cn/cd, the degrees of freedom in n; no further coefficient
        return t_ppf(coef, node['n'])
    elif op == 'var':
        base = _mpf(extra[node['ids'][0]])
    elif op in ('sum', 'prod', 'div'):
        vals = [evaluate(k, rates, extra) for k in node['kids']]
        if any(v is None for v in vals):
            return None
        if any(isinstance(v, float) and math.isnan(v) for v in vals):
            return float('nan')
        if op == 'sum':
            if any(v == NEG_INF for v in vals):
                return NEG_INF
            base = mpmath.fsum(vals)
        elif op == 'prod':
            base = mpmath.mpf(1)
            for v in vals:
                base *= v
        else:
            base = vals[0] / vals[1]
    else:
        x = evaluate(node['kids'][0], rates, extra)
        if x is None:
            return None
        if isinstance(x, float) and math.isnan(x):
            return x
        if op == 'ln':
            if x == 0:
                return NEG_INF if coef > 0 else float('inf')
            base = mpmath.log(x)
        elif op == 'log10':
            base = mpmath.log10(x)
        elif op == 'expneg':
            base = mpmath.exp(-x)
        elif op == 'ln1mexpneg':
            if x == 0:
                return NEG_INF
            base = mpmath.log(-mpmath.expm1(-x))
        elif op == 'sq':
            base = x * x
        elif op == 'sqrt':
            if x < 0:
                # a variance that is exactly zero can come out as -1e-50 at 50 digits; anything else negative is undefined
                if x > -mpmath.mpf(10) ** -30:
                    x = mpmath.mpf(0)
                else:
                    return float('nan')
            base = mpmath.sqrt(x)
        elif op == 'lngamma':
            base = mpmath.loggamma(x)
        elif op == 'abs':
            base = abs(x)
        elif op == 'two_sided_normal':
            base = mpmath.erfc(abs(x) / mpmath.sqrt(2))
        else:
            raise ValueError('unknown XR op %r' % op)
    return _mpf(coef) * base


_TPPF_CACHE = {}


def t_cdf(t, df):
    """Student t distribution function at 50 digits (regularised incomplete beta)."""
    t = mpmath.mpf(t)
    df = mpmath.mpf(df)
    x = df / (df + t * t)
    tail = mpmath.betainc(df / 2, mpmath.mpf(1) / 2, 0, x, regularized=True) / 2
    return 1 - tail if t >= 0 else tail


def t_ppf(prob, df):
    """Quantile of Student's t by bisection on t_cdf (independent of scipy)."""
    key = (Fraction(prob), int(df))
    if key in _TPPF_CACHE:
        return _TPPF_CACHE[key]
    p = _mpf(Fraction(prob))
    if df <= 0:
        return float('nan')
    lo, hi = mpmath.mpf(-1), mpmath.mpf(1)
    while t_cdf(lo, df) > p:
        lo *= 2
    while t_cdf(hi, df) < p:
        hi *= 2
    for _ in range(200):
        mid = (lo + hi) / 2
        if t_cdf(mid, df) < p:
            lo = mid
        else:
            hi = mid
        if hi - lo < mpmath.mpf(10) ** -40 * max(1, abs(hi)):
            break
    _TPPF_CACHE[key] = (lo + hi) / 2
    return _TPPF_CACHE[key]


def close(code_value, expected, rtol=1e-9, atol=1e-11):
    """Compare a float returned by the library with an evaluated XR."""
    if expected is None:
        return code_value is None
    if code_value is None:
        return False
    cv = float(code_value)
    if isinstance(expected, float):
        if math.isnan(expected):
            return math.isnan(cv)
        if math.isinf(expected):
            return cv == expected
    if math.isnan(cv) or math.isinf(cv):
        return False
    e = mpmath.mpf(expected)
    return abs(mpmath.mpf(cv) - e) <= atol + rtol * abs(e)
