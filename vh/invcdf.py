"""Exact inverse-CDF placement (oracle shared by C05 / C06 / C16; mirrored by spec/InvCdfSim.tla).

rates: list of python floats (>= 0).  The cumulative boundaries are the exact rationals
F_k = (r_1 + ... + r_k) / (r_1 + ... + r_n).  A draw u in [0,1) belongs to the bin k with F_(k-1) <= u < F_k.
"""
from fractions import Fraction
import bisect


class Cdf:
    def __init__(self, rates):
        self.r = [Fraction(float(x)) for x in rates]
        tot = sum(self.r, Fraction(0))
        self.total = tot
        acc = Fraction(0)
        self.F = []
        for x in self.r:
            acc += x
            self.F.append(acc / tot)
        self.Ff = [float(f) for f in self.F]

    def place(self, u):
        """(bin, distance to the nearest boundary as Fraction) by exact comparison."""
        fu = Fraction(float(u))
        # first k with F_k > u
        k = bisect.bisect_right(self.Ff, float(u))
        # float image may be off by rounding: correct with exact comparisons
        while k > 0 and self.F[k - 1] > fu:
            k -= 1
        while k < len(self.F) and self.F[k] <= fu:
            k += 1
        if k >= len(self.F):
            k = len(self.F) - 1      # u >= F_n can only happen for u >= 1 (excluded)
        lo = self.F[k - 1] if k > 0 else Fraction(0)
        hi = self.F[k]
        return k, min(fu - lo, hi - fu)

    def safe_draw(self, rng, margin=Fraction(1, 10 ** 9)):
        """A uniform number whose placement cannot depend on float rounding of the cumulative weights."""
        while True:
            u = rng.random()
            k, d = self.place(u)
            if d > margin and self.r[k] > 0:
                return u, k
