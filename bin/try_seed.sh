#!/bin/sh
# usage: bin/try_seed.sh <seed-dir> <CHECK-ID> [more check ids...]
# Verifies a seeded change (patch.diff + demo.py): applies it to a scratch worktree of /repo (outside /repo and /verif),
# confirms the repository suite is unchanged and that the demonstration fails with / passes without the change, then runs
# the named checks against the patched copy (VERIF_REPO) and prints one line per check.  The scratch worktree is removed.
SEED="$(cd "$1" && pwd)"; shift
HERE="$(cd "$(dirname "$0")/.." && pwd)"
WT=$(mktemp -d /tmp/vs-XXXXXX); rmdir "$WT"
git -C /repo worktree add -q --detach "$WT" HEAD || exit 2
cd "$WT" || exit 2
if ! git apply "$SEED/patch.diff"; then echo "SEED patch does not apply"; git -C /repo worktree remove --force "$WT"; exit 2; fi
SUITE=$(/venv/bin/python -B -m pytest -q -p no:cacheprovider --timeout=900 tests 2>&1 | tail -1)
echo "suite with change: $SUITE"
mkdir -p seedtmp && cp "$SEED/demo.py" seedtmp/demo.py
/venv/bin/python -B seedtmp/demo.py >/dev/null 2>&1; D1=$?
echo "demo with change: exit $D1"
for ID in "$@"; do
  OUT=$(VERIF_REPO="$WT" VERIF_EVID_DIR="$WT/seedtmp/evidence" VERIF_REPLAY_DIR="$WT/seedtmp/replays" "$HERE/bin/check" "$ID" 2>&1); RC=$?
  N=$(echo "$OUT" | grep -c '^VIOLATION')
  SIG=$(echo "$OUT" | grep 'signature:' | head -2 | sed 's/ *signature: //' | tr '\n' '|')
  echo "check $ID: exit $RC violations=$N $SIG"
done
git checkout -q -- csep
/venv/bin/python -B seedtmp/demo.py >/dev/null 2>&1; D0=$?
echo "demo without change: exit $D0"
cd /; git -C /repo worktree remove --force "$WT"
