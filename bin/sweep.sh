#!/bin/sh
# usage: bin/sweep.sh <seed> [tier]   - every claimed check once with the given seed; one summary line per check
HERE="$(cd "$(dirname "$0")/.." && pwd)"; cd "$HERE" || exit 2
SEED=${1:-1}; TIER=${2:-quick}
for p in C01 C02 C03 C04 C05 C06 C07 C08 C09 C10 C11 C12 C13 C14 C15 C16 C17 C18 C19 C20; do
  out=$(bin/check $p --tier $TIER --seed $SEED 2>&1); rc=$?
  echo "$p rc=$rc $(echo "$out" | grep -E 'done:|MACHINERY' | tail -1 | cut -c1-150)"
  [ $rc -eq 0 ] || echo "$out" | grep -E "signature" | sort | uniq -c | head -5
done
