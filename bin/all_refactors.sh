#!/bin/sh
# usage: bin/all_refactors.sh [ID ...]  - applies each kept behaviour-preserving refactoring (refactors/<ID>/) to a scratch
# worktree of /repo HEAD and runs the checks recorded for it; every one must exit 0.  Exit 1 if any check alarms or fails.
HERE="$(cd "$(dirname "$0")/.." && pwd)"; cd "$HERE" || exit 2
[ $# -gt 0 ] || set -- $(ls refactors)
RC=0
for d in "$@"; do
  ids=$(python3 -c "import json,sys; print(' '.join(json.load(open('refactors/$d/meta.json'))['checks_run']))")
  out=$(bin/try_seed.sh "refactors/$d" $ids 2>&1)
  bad=$(echo "$out" | grep '^check' | grep -v 'exit 0 violations=0')
  if [ -z "$bad" ] && echo "$out" | grep -q '^check'; then echo "QUIET   $d  ($ids)"; else echo "ALARM   $d  $(echo "$out" | grep -E '^check|^SEED' | grep -v 'exit 0 violations=0' | tr '\n' ' ' | cut -c1-300)"; RC=1; fi
done
exit $RC
