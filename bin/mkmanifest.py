#!/usr/bin/env python3
"""Regenerates MANIFEST.json from the table below (single source of truth for the interface)."""
import json
import os
import subprocess

ROOT = os.path.dirname(os.path.dirname(os.path.abspath(__file__)))

# id -> (technique, level text, level note, design_ref)
CLAIMED = {
    'C12': ('TLA+ decoder spec (one action per loader branch) model-checked by TLC; every terminal state replayed '
            'into the real loaders; recorded per-yield traces of the real generator validated by TLC',
            'TLC exhausts every admissible encoding (placeholder/omitted/header/adjacent id swap) of every catalog '
            'list within MaxCat x MaxEv and checks DecodeCorrect, PrefixOfTruth, IdsContiguous, RejectsDecreasing; '
            'each of those cases is rendered as CSV and loaded through three public entry points with every field '
            'compared; random forecasts with hundreds of catalogs are recorded per yield (lines consumed, id, '
            'events) and must be explained by the decoder actions.',
            'Trusted: the CSV renderer and exact field comparison in vh/drivers/c12.py; float fields written with '
            'repr(). Text-parsing fidelity of concrete values is established by conformance runs, not by TLC.',
            '5/C12'),
    'C13': ('two-level TLA+ specs: mechanism model CatForecastImpl (one action per branch of __next__/get_event_counts/'
            'get_expected_rates) model-checked by TLC against the property-level module CatForecastAbs; TLC-emitted '
            'histories driven on real CatalogForecast objects; every recorded pass and result validated by TLC',
            'TLC explores every history of client operations up to MaxHist (3 quick / 4 thorough) over 7 operations x 42 '
            'configuration/forecast combinations of the mechanism model and checks ResOk, PassStable, CacheFiltered, '
            'RatesStable; re-creating either repaired defect in the model must produce a counterexample (non-vacuity). '
            'Every history of the bounded model (length 2 quick / 3 thorough) plus random histories of length 5..12 is '
            'run on real objects (in-memory list with/without n_cat, file with store on/off, filters on/off, spatial '
            'filter on/off); a harness-side wrapper on __next__ records every pass, internal ones included, and TLC '
            'accepts the trace only if every pass equals the filtered source and every result is the prescribed one.',
            'Verdicts are taken against CatForecastAbs only (a behaviour-preserving refactor cannot alarm). Trusted: the '
            'projection of catalogs to event identities, exact recovery of integer bin sums from mean rates, the '
            'observation wrapper (adds logging around the unchanged method in the harness process).',
            '5/C13'),
    'C09': ('TLA+ spec of the definition and of the library computation (sorted sample, searchsorted on the reversed '
            'ecdf, short-circuits); TLC proves them equal on every multiset of size <= 7 over 6 letters x 13 queries; '
            'all cases replayed into the real functions; rank-histogram traces of large samples validated by TLC',
            'The exhaustive set named in the property (1 715 multisets x 13 queries = 22 295 states) is enumerated by '
            'TLC, which checks ImplMatchesSpec, SumIdentity, Bounds and Monotone; each multiset is then evaluated by the '
            'real greater_equal_ecdf / less_equal_ecdf / get_quantiles in 4-6 value maps (ints, floats, negatives, '
            'adjacent doubles, 1e15) and three container types with bit-exact comparison against count/n; random samples '
            'of up to 1e5 values with heavy ties are projected to rank histograms and checked by TLC.',
            'Trusted: the exact recovery of the integer numerator from the returned float (k/n == value) and the value '
            'maps in vh/drivers/c09.py.',
            '5/C09'),
    'C02': ('TLA+ axis lattice (Axis.tla: bin x position class, admissible answer sets incl. the documented tolerance '
            'band) and Binning.tla (properties + integer model of the tolerance formula) model-checked by TLC; every '
            'abstract case concretised on decimal grids; exact-class traces of long axes validated by TLC',
            'TLC checks HalfOpen, BelowIsOut, OpenTopAbsorbs, EdgeOpensItsBin, ClosedTopIsOut and Monotone for all axes '
            'with n<=4 edges, both modes, all position classes, and that the integer model of floor((p-a0+2t)/(h-t)) '
            'never drops a value at/above an edge and lifts only inside a band growing linearly with the bin index. '
            'Every (n, mode, position) case is realised on 16-30 decimal grids in float64/float32/list/scalar form and '
            'the real bin1d_vec must answer inside the TLC-given set; on long axes (CSEP magnitude grids, NZ / global '
            'region edge arrays, the 0.1-degree global edge arrays, 400-bin grids) every edge is probed at 0, +-1..4096 '
            'ulps (all +-64 in thorough) plus integer inputs, each observation projected exactly to (n, mode, pos, idx) '
            'and the distinct tuples accepted one by one by TLC. Edge generators are compared bit-for-bit with the '
            'doubles nearest to start+k*step.',
            'Float-level claim is by boundary-directed sampling (exhaustive only over the probed ulp offsets). Trusted: '
            'vh/alpha.py (exact classification with fractions / exact float comparison) and the band definition '
            '16*eps*(k+2)*max(|a0|,|v|,h).',
            '5/C02'),
    'C01': ('TLA+ lattice model of Cartesian regions (Grid2D.tla / CartRegion.tla; Build mirrors _build_bitmask_vec) '
            'model-checked by TLC over all small regions; every abstract region built through the public constructors '
            'and probed at every position class; per-point observations validated by TLC (TraceCartRegion)',
            'TLC checks Partition, LookupIsContainment, BoundaryOpens, MapIsBijective for every bounding-box-tight cell '
            'subset of lattices up to 3x2 (quick) / 3x3 (thorough, 7 016 configurations) with flags and three cell orders, '
            'quantifying over all 30x30 position classes; the model with the repaired one-row/one-column defect re-created '
            'must be refuted. Each abstract region is concretised on an anchor/spacing table, built by from_origins or '
            'polygons+mask, and probed at every class on both axes and beyond the box; index lookup, get_masked, '
            'filter_spatial and spatial_counts are recorded per point with exact classes and TLC accepts a region trace '
            'only if every observation lies in the admissible set and the four operations agree. Random 40x40 lattices '
            'with holes/flags and the shipped NZ and global (2/1 degree) regions are traced the same way.',
            'Float-level claim by boundary-directed sampling. Trusted: vh/alpha.py, the cell map computed from the '
            'constructor inputs. California / Italy template regions cannot be loaded in this sandbox (emptied XML).',
            '5/C01'),
    'C03': ('TLA+ spec of the definition and of the library accumulation algorithm (add.at, negative-index wrap, -1 check, '
            'quadtree match-only lookup) proved equal by TLC on all small catalogs; abstract catalogs realised on Cartesian '
            'and quadtree worlds; sparse counts of random catalogs validated by TLC',
            'TLC checks ImplMatchesSpec, Conservation, Marginals, OccupancyIffPositive, BinEqualsFilter, '
            'NoSilentMisplacement and OrderIrrelevant for every catalog of <=3 (thorough <=4) events over {outside, 2 cells} x '
            '{below-min, 2 bins}, Cartesian and quadtree lookup semantics; the two repaired defects re-created in the model '
            'must be refuted. Every abstract catalog is built on 4-5 concrete worlds (lattice with hole, flagged lattice, '
            'shipped NZ region, quadtree zoom 2/3; explicit and region-bound magnitude grids; events on cell origins / bin '
            'edges and interiors) and spatial_counts, spatial_event_probability, magnitude_counts, spatial_magnitude_counts '
            'and magnitude-range filters must return the TLC-given outcome; random catalogs of up to 500 events are '
            'projected to (cell, bin) pairs and the returned sparse arrays are accepted by TLC only if every entry is the '
            'exact count.',
            'Cell / bin membership of boundary values is delegated to C01 / C02 (events here sit on origins / edges or well '
            'inside). Trusted: world construction in vh/drivers/c03.py.',
            '5/C03'),
    'C05': ('TLA+ spec computing each statistic as a formal exact-real expression (XR.tla / PoissonLL.tla); TLC decides the '
            'structure for every small forecast x observation x kind; expressions interpreted at 50 digits and compared '
            'with the real tests; for random forecasts TLC returns the expected expression of the observed and of every '
            'simulated catalog (TracePoissonLL)',
            'TLC enumerates all 2x2 rate-id matrices (ids 0..2, 0 = zero rate) x observations of <=3 events x {L,CL,S,M} '
            '(11 200 states) and checks NegInfIff, LEqualsCL, MarginalsConsistent and Shape; every case is built as '
            'GriddedForecast + CSEPCatalog for 2 (quick) / 6 (thorough) rate tables spanning 1e-12..1e3 and the public '
            'likelihood / conditional_likelihood / spatial / magnitude tests must return the interpreted expression. Random '
            'forecasts up to 40x8 bins with zero rates and up to 150 events are evaluated with injected uniform numbers; '
            'TLC derives the expression for the observed statistic and for each simulated catalog and both '
            'observed_statistic and every test_distribution entry must match, as must the quantile rule.',
            'Numerical agreement of numpy/scipy leaves is decided against mpmath at rtol 1e-9 / atol 1e-11, not by TLC. '
            'Trusted: vh/xr.py (XR interpreter), vh/invcdf.py (exact inverse-CDF placement, checked itself under C06).',
            '5/C05'),
    'C06': ('TLA+ spec of inverse-CDF placement and of both samplers (N-draw accumulation, rejection loop) with safety and '
            'liveness checked by TLC; every simulated catalog of the real Poisson / binary / Brier tests recorded by '
            'harness-side wrappers and replayed draw by draw by TLC (TraceInvCdfSim); quantile and seed-determinism records',
            'TLC checks PlaceIsInverseCdf, NeverZeroRateBin, UniqueBin, Conserved, DistinctActiveCells, AllowedIsSound for '
            'all weight vectors (zeros anywhere) x all draw positions (on / just above / interior / just below every unit) and '
            'Terminates under weak fairness; the side=left variant must be refuted. On the real code, rate arrays built from '
            'integer weights (dyadic units: exact cumulative floats, strict placement; decimal units: either neighbour inside '
            'an ulp band) and random arrays up to 1000 bins are simulated through the public tests with uniform numbers on and '
            'around every cumulative boundary, 0 and the largest double below 1; the rejection loop is additionally fed '
            'scripted boundary draws. Each captured catalog must be reproducible by TLC from the projected draws, conserve the '
            'prescribed count, and never touch a zero-rate bin; quantile numerators and repeated-seed digests (seeds 0, 1, '
            '2^32-1) are checked in the same batch.',
            'Float-level placement next to a boundary of an inexact cumulative array is only constrained to the two '
            'adjacent positive-rate bins. Trusted: vh/invcdf.py (exact rational cumulative boundaries), the capture wrappers.',
            '5/C06'),
    'C16': ('TLA+ spec computing binary log-likelihood / spatial variant / Brier score as formal expressions '
            '(BinaryBrier.tla); TLC checks activity-only dependence and structure; cases and captured simulated catalogs '
            'evaluated against the real functions',
            'TLC enumerates every 2x2 rate-id matrix x activity pattern x {BLL, spatial BLL, Brier} and checks '
            'DependsOnlyOnActivity (action property over adding events to active bins), NIsBinCount, NegInfIffActiveZeroRate, '
            'OneTermPerBin; every case is evaluated through binary_joint_log_likelihood_ndarray / _brier_score_ndarray and the '
            'public binary_conditional_likelihood / binary_spatial / brier_score tests with 1..3 events per active bin and 3-5 '
            'rate tables (1e-9..10); random forecasts are run with the real sampler captured, and TLC returns the expression '
            'each simulated value must equal.',
            'Numerical leaves against mpmath (rtol 1e-9, atol 1e-11 plus 16*eps/min(rate,1) per active bin for the '
            'cancellation in log(1-exp(-x))). One recorded finding: an event in a zero-rate bin yields a finite value '
            '(known_findings.json).',
            '5/C16'),
    'C07': ('TLA+ spec of the tail events as outcome intervals (NumberTest.tla): TLC proves the eps-shifted cdf expressions '
            'denote {N>=n} and {N<=n}, the sum identity and monotonicity; per evaluation TLC states the interval each delta '
            'is the mass of, the harness evaluates that mass at 50 digits; empirical laws and monotonicity are decided by TLC '
            'on exact numerators / float ranks',
            'TLC checks ImplMatchesSpec, InclusiveTails, SumIdentity, EmpiricalExact, MonotoneInN for n = 0..6 and every '
            'multiset of <= 5 synthetic-catalog sizes. The real Poisson, negative-binomial and catalog number tests are run for '
            'n_obs 0..6 x forecast totals 1e-6..1e5 (also after scale()), counts up to 1e5 around the mean, NBD variances from '
            '1.0000001 x mean to 1e6, random size multisets with ties; every (delta1, delta2) must equal the mass of the '
            'TLC-given interval (pmf recurrence at 50 digits), lie in [0,1], be exact multiples of 1/n_cat for the empirical law '
            'and be monotone along increasing means.',
            'Accuracy of scipy tails decided against mpmath (rtol 1e-9 + conditioning term for NBD, atol 2e-12). Trusted: '
            'pmf recurrences in vh/drivers/c07.py.',
            '5/C07'),
    'C15': ('TLA+ calendar (Civil.tla: days-from-civil / civil-from-days on 32-bit integers) and TimeConv.tla checked by TLC '
            'over complete millisecond windows; every real conversion recorded per instant and validated by TLC against that '
            'calendar (TraceTimeConv)',
            'TLC checks CivilRoundTrip, FieldsInRange, LeapYears and StrictlyMonotone over complete +-2000 ms windows around 12 '
            '(quick) / 606 (thorough) year, leap-day and epoch boundaries. About 3e4 (quick) / 1e6 (thorough) integer '
            'milliseconds of 1900..2200 (uniform, complete windows around boundaries incl. 2038 / 2106 float thresholds, all '
            '1000 millisecond phases of sampled seconds) are pushed through epoch->datetime->epoch (aware and naive), formatted '
            'string->epoch (with / without fraction, +00:00), decimal year and its inverse, and datetimes with a microsecond '
            'phase; TLC accepts a chunk only if the civil fields equal its calendar, both round trips return the same integer, '
            'the inverse decimal year and sub-millisecond datetimes land within one millisecond and the decimal year is strictly '
            'increasing along the sorted chunk.',
            'Sampling, not proof, over the 9.5e12 milliseconds of the range. Trusted: integer splitting of epoch milliseconds '
            'into <<day, ms>> and exact float ranks in vh/drivers/c15.py.',
            '5/C15'),
    'C04': ('TLA+ object model of catalog filtering (Filter.tla: statements as boolean masks, in-place vs new object) model-'
            'checked by TLC; every 2-call history on fixed rich catalogs replayed on real catalogs; random histories validated '
            'by TLC on exact comparison classes (TraceFilter)',
            'TLC checks ExactSelection (current catalog = source events satisfying every statement issued so far, in order, '
            'unchanged: implies order / grouping independence and idempotence), OrderPreserved and NonMutating over all '
            'catalogs of <=1 (quick) / <=2 (thorough) events on a below/equal/above domain x all histories of two calls (10 '
            'statements, statement pairs, spatial filter, both in_place modes). The 44 652 two-call histories on three fixed '
            'catalogs are replayed on CSEPCatalog objects for rotating attribute pairs (all 20 ordered pairs of the five '
            'attributes), value triples with ties / negative depths / pre-1970 and fractional-millisecond times and the '
            'datetime form; ids and every field of every object must match. Random catalogs of up to 200 events with random '
            '1..5-call histories (incl. stored filters, tuple lists) are projected to comparison classes and replayed by TLC.',
            'Trusted: the realisation of abstract values in vh/drivers/c04.py and exact Python comparisons for the classes.',
            '5/C04'),
    'C11': ('TLA+ specs of the forecast-file loader (ForecastFile.tla: first-appearance unique cells / magnitudes, reshape; '
            'lattice semantics from Grid2D.tla) and of scaling (GriddedData.tla) model-checked by TLC; every abstract file '
            'written to disk and loaded by the real loaders; scaling histories validated by TLC (TraceGriddedData)',
            'TLC checks LookupMatchesRow, MagsAreLowerEdges, FlagZeroOutside, NoRateLost for every lattice subset up to 2x2 '
            '(quick) / 3x2 (thorough) x 3 cell orders x 1..M magnitude bins x <=1 flagged cell, and ScaleAbsolute, ScaleLinear, '
            'MarginalsSumToTotal for all histories of <= 4 scale / scale_to_test_date calls (cumulative variant refuted). Each '
            'abstract file is written as decimal text on an anchor/spacing/magnitude table in lon/lat and lat/lon column order, '
            'loaded with csep.load_gridded_forecast, and polygon order, magnitudes, flags, the data matrix and get_rates at '
            'lower corners / interiors / near upper edges / above the top magnitude must equal the TLC cell map and rates; '
            'quadtree ascii and csv files likewise. Random histories of up to 30 scale / scale_to_test_date (inside and outside '
            'the period, naive and aware) / read calls are replayed by TLC on factor identifiers.',
            'Trusted: the .dat / quadtree writers and the independent elapsed-fraction computation in vh/drivers/c11.py. '
            'Lookups in tolerance bands are C01/C02 territory.',
            '5/C11'),
    'C17': ('TLA+ spec of quadkey geometry on a dyadic square and of the recursive refinement (Quadtree.tla) model-checked by '
            'TLC; every small case built with the real QuadtreeGrid2D and compared with TLC grids / lookup tables; for random '
            'catalogs TLC reruns the refinement on exactly located events (TraceQuadtree)',
            'TLC checks DisjointCover, SingleResolutionCovers (+ 4^z cells), PrefixFree, RefinementCriterion, LookupUnique and '
            'EventsConserved for all catalogs of <=3 events on 10 corner / edge / interior points of the zoom-2 lattice (incl. '
            'antimeridian and northern rim) x thresholds 0..2 x zooms 1..2 (6 666 states). Each case (<=2 events quick, <=3 '
            'thorough) is built by from_catalog with exact tile-corner coordinates and the quadkey set and get_index_of at all '
            '81 lattice points must equal TLC output. Single-resolution grids 1..6 (8 thorough) are compared bit for bit with '
            'the closed Web-Mercator bounds, must contain each tile once, and their cell areas must add up to the latitude '
            'band; the shipped California grid and random prefix-free quadkey sets are probed at corners / interiors; random '
            'uniform / clustered / boundary-aligned catalogs x thresholds x zoom <= 8 are located on the zoom-8 half-tile '
            'lattice and TLC accepts a returned grid only if it is exactly its own refinement.',
            'Trusted: mercantile tile arithmetic (cross-checked against the closed formula), exact location of coordinates on '
            'the zoom-8 lattice by float comparison with tile edges.',
            '5/C17'),
    'C08': ('TLA+ spec of the paired T statistics as formal expressions and of the signed-rank machinery on exact integers '
            '(PairedTW.tla); TLC checks the symmetry properties; for every real evaluation TLC returns the expressions / '
            'integers, interpreted at 50 digits and compared with paired_t_test, binary_paired_t_test and w_test',
            'TLC checks Antisymmetry (all coefficients of sum X_i and N_A-N_B negate under swapping), VarianceSymmetric, '
            'SelfComparisonZero, WSymmetric, RankSum, VarPositive for all catalogs of 2..4 events on 3 bins and all sign / '
            'weak-order patterns of <=4 differences (7 613 states). On real code, 60 (quick) / 500 (thorough) random forecast '
            'pairs on a 24-bin region (rates 1e-9..10, near-equal, repeated values, self comparison) with catalogs of 2..200 '
            'events, alpha in {0.01, 0.05, 0.5}, scale on/off are evaluated in both argument orders: information gain, t '
            'statistic, critical value and interval must equal the TLC-given expressions (Poisson and per-active-bin variants), '
            'the Wilcoxon z and p the TLC-given values for the sign / weak-order pattern, swapped calls must negate / mirror / '
            'coincide, and every call must return a result.',
            'Leaves evaluated with mpmath (t quantile by bisection on the incomplete beta). W patterns are only formed when '
            'distinct differences are separated by > 1e-9 relative. Trusted: vh/xr.py.',
            '5/C08'),
    'C14': ('TLA+ state machine of the persistence stores and operations (Persist.tla) model-checked by TLC; every history it '
            'emits executed on real catalogs with typed field values; after each operation the projected object plus a '
            'bit-exactness flag is replayed by TLC (TracePersist)',
            'TLC checks EventsFromSource, RoundTripIdentity, AppendConcatenates and IdSurvives over every history of <=3 (quick) '
            '/ <=4 (thorough) operations {write with/without header, append, load ASCII, to/from dict, write/load JSON, to/from '
            'DataFrame} from 7 source catalogs (empty / non-empty, integer id or none, name, region). Each of the 1 595 (quick) '
            'histories is executed with events whose ids contain commas, quotes, semicolons, surrounding spaces or 255 characters, '
            'times in 1900..2200 at millisecond phases incl. pre-1970, shortest-repr / 17-digit / extreme doubles and negative '
            'zero; after every operation the real object is projected to event identities, catalog id (must be an integer type), '
            'name and region (dictionary and lookups equal) with a flag that every field is bit-identical, and TLC accepts the '
            'history only if it is the behaviour of the machine. Random catalogs of up to 2000 events follow the same path.',
            'TLC supplies the operation / state matrix and the identity oracle; text formatting fidelity is decided by the '
            'conformance runs. Trusted: typed value generation and projection in vh/drivers/c14.py.',
            '5/C14'),
    'C18': ('TLA+ model of result serialization with the factory table as data (ResultSerde.tla) model-checked by TLC over the '
            'full field-class matrix; every matrix entry and the output of all 19 evaluation functions written / loaded with the '
            'real API and validated by TLC (TraceResultSerde); regions rebuilt from their dictionaries validated against the C01 '
            'lattice specification (TraceCartRegion)',
            'TLC checks EveryClassLoadable, LoadsAsSameClass, FieldsSurvive and the liveness EventuallyLoaded for all 1 800 '
            'combinations of result class x statistic class (finite, +-inf, NaN, None) x quantile class x distribution class x '
            'names class; the factory table with the formerly mis-spelt key is refuted. Each combination is realised as a real '
            'result object and round-tripped through csep.write_json / csep.load_evaluation_result, as are the results of every '
            'gridded and catalog-based evaluation function run on normal, empty-observation, zero-rate-hit, single-event and '
            'undersampled inputs; TLC accepts a record only if class and field classes are those the model yields and name, '
            'status, statistic, quantile, numeric distribution, names and minimum magnitude compare equal. Unmasked abstract '
            'regions (C01 generator) are rebuilt from to_dict() and must give the original index for every probe point and '
            'satisfy the lattice specification.',
            'TLC supplies the class matrix and dispatch model; value equality is established by the harness (NaN = NaN, tuples = '
            'lists). Trusted: projections in vh/drivers/c18.py.',
            '5/C18'),
    'C19': ('TLA+ spec of per-format time normalisation (Readers.tla on the Civil.tla calendar) model-checked by TLC on boundary '
            'records; generated files of every format loaded by the real readers and validated record by record by TLC '
            '(TraceReaders)',
            'TLC checks RolloverCorrect, OffsetCorrect, ResolutionCorrect and DateValid on records at minute / hour / day / month / '
            'year / leap-day ends with seconds 0 / 59 / 60, millisecond phases and UTC offsets, for the five formats. Files of 1, 2, '
            '3, 17, 200 (2000 thorough) random records (35% on such boundaries, pre-1970 years, seconds 60 for NDK / HORUS, offsets '
            '+09:00 / -05:00 / +05:30 in both spellings for JMA) are rendered as ZMAP columns, JMA CSV, HORUS table, NDK 5-line '
            'fixed-width blocks and CSEP CSV, loaded through csep.load_catalog(type=...), and TLC accepts a file only if the reader '
            'produced exactly one event per record, in file order, each carrying the instant the specification derives from the '
            'written civil time at the format resolution; coordinates, depth and magnitude (NDK: Mw from the scalar moment) are '
            'compared by the harness.',
            'Format rendering is harness code written from the layouts documented in readers.py (NDK after the obspy field '
            'positions). HORUS values are compared at single precision, the documented dtype of that reader.',
            '5/C19'),
    'C10': ('TLA+ spec of the six catalog-based tests: statistics as formal expressions over exact rationals plus the '
            'validity / undersampling control flow (CatEval.tla) model-checked by TLC; every bounded (forecast, observation) and '
            'random larger ones evaluated by the real tests, with TLC stating status, presence, statistic and every '
            'distribution entry (TraceCatEval)',
            'TLC checks NeverSilentInfinity, UnsampledFlagged, EmptyObservationSignalled, EmptyCatalogsSkipped and '
            'RatesAreMeanCounts for all forecasts of <=2 (quick) / <=3 (thorough, 54 180 states) synthetic catalogs of <=2 events on '
            '2 cells x 2 magnitude bins and all observations of <=2 events. Each case is built as an in-memory forecast or a '
            'streamed CSV (store on / off) and number, spatial, pseudo-likelihood, magnitude, resampled-magnitude and MLL tests are '
            'run with the resampling draws recorded; TLC returns for each test the status, whether a result exists, and the '
            'expression of the observed statistic and of every test-distribution entry (for the resampling tests: of every '
            'recorded resampled histogram); these are interpreted at 50 digits and compared, and the reported quantiles must follow '
            'the empirical rule of C09. Random forecasts of up to 200 catalogs follow the same path.',
            'Numerical leaves (ln, log10, lgamma) against mpmath at rtol 1e-9. The MLL sign follows the API docstring / repository '
            'tests. Trusted: vh/xr.py and the world construction shared with C13.',
            '5/C10'),
    'C20': ('TLA+ permutation modules over the statistic specifications (PermutePoisson.tla, PermuteCatEval.tla; event order: '
            'Gridding.tla) model-checked by TLC; every public test run on X and pi(X) with agreement flags and IEEE hex strings '
            'validated by TLC (TracePermute)',
            'TLC checks that swapping adjacent cells (rates and counts together) leaves every Poisson statistic the same bag of terms '
            '(3x1 and 2x2 arrays, all rate-id / count matrices) and that swapping adjacent synthetic catalogs leaves status, statistic '
            'and the distribution bag of all catalog tests unchanged (760 states); event order never reaches a statistic '
            '(OrderIrrelevant of Gridding.tla). On real code 12 gridded and 6 catalog-based tests are run on random inputs and on '
            'the same inputs with observed events, synthetic catalogs, or cells + rates (region rebuilt from permuted origins) '
            're-ordered: observed statistics and analytic quantiles must agree to rounding, simulation-free distributions as sorted '
            'multisets, and for the seeded simulation-based tests re-ordering the observed events must leave statistic, quantile '
            'and the whole distribution bit-for-bit identical (hex strings compared by TLC).',
            'The model-level invariance is proved on small arrays; the float-level claim is by sampling permutations. Trusted: '
            'agreement flags computed in vh/drivers/c20.py (rtol 1e-9).',
            '5/C20'),
}

# coverage added after the first complete version (mostly in response to independently seeded changes, DESIGN.md 0b.7)
ADDENDA = {
    'C01': 'Derived regions (masked_region, refined grids), list inputs, byte-swapped coordinate arrays and float32 points on long axes are included.',
    'C02': 'Also: edge generators on whole-number starts with awkward steps, the far ends of the float64 range (+-inf, 1.8e308, '
           '2^63 bins away), and the forecast / catalog entry points (get_magnitude_index, get_mag_idx) for every abstract case.',
    'C03': 'Also: catalogs re-bound to a second region over the same cells and gridded again, single-precision catalog '
           'subclasses with events exactly on edges, retbins=True, a magnitude grid of step 1/8 bound after construction.',
    'C04': 'Also: every call may act on any existing object (per-object ghost state), fractional thresholds, thresholds in '
           'several spellings of the same number (exponent notation), four kinds of region for the spatial filter (two cells, '
           'edge-inclusive cell, flagged lattice, quadtree), update_stats.',
    'C05': 'Also: C / Fortran / transposed rate arrays, float32 / integer rate arrays (dtype-aware tolerance), forecasts '
           'expecting about one event (empty simulated catalogs; drawn count must be held), re-evaluation on the same objects, '
           'rates held as stored rates x an array scale factor.',
    'C06': 'Also: memory layouts, float32 / integer rate arrays, totals that are not powers of two yet give exact quotients '
           '(49/256, 3), admissible set generalised to runs of very narrow bins, comparative tests (scale=True) between the '
           'two seeded runs of every determinism record.',
    'C07': 'Also: evaluate / rescale / evaluate on one forecast object; catalog N-test after a complete pass that shortens the '
           'catalogs in place; n_obs = 0 and variance within 1e-6 of the mean; integer-typed rates scaled by fractions.',
    'C08': 'Also: mirrored bin pairs (ties across signs), bin pairs left identical (differences equal to the null median), '
           'zero-variance samples compared on gain and critical value only.',
    'C09': 'Also: uint8/16/64, int8/32, float32 samples, samples containing +-inf, the cdf= argument, queries at +-inf and +-1.8e308.',
    'C10': 'Also: three-cell worlds, re-evaluation after in-place filtering, all six tests in rotating order on ONE forecast '
           'object compared with the fresh results, sources holding extra events that the configured filters remove.',
    'C11': 'Also: array-valued scale factors, a second file on the same cells loaded before the first forecast is examined, '
           'magnitudes just below the next edge, three dialects of the whitespace-separated file format.',
    'C12': 'Also: 1- and 2-digit second fractions, files whose last row has no line break.',
    'C13': 'Also: the time-dependent completeness filter (apply_mct) as a second realisation of the configured filters; '
           'in-memory catalogs that already name the statements in their filters attribute.',
    'C14': 'Also: DataFrames with and without the datetime index, chains of two round trips, negative catalog ids, the '
           'magnitude bins of the region, histories run under non-UTC local time zones.',
    'C15': 'Also: process time zones with clock changes, short fractions in front of an explicit +00:00 offset.',
    'C16': 'Also: memory layouts of rate and count arrays, re-evaluation on the same objects, also after re-scaling them.',
    'C17': 'Also: per-cell areas of every mixed-zoom grid against the closed formula, batches of points (list / array) over '
           'the whole square including holes of partial grids.',
    'C18': 'Also: 0 / 0.0 in every numeric field class, number-like names and names with surrounding white space on '
           'constructed and on produced results.',
    'C19': 'Also: files whose last record has no line break.',
    'C20': 'Also: quadtree cell permutations with events on tile edges, cell re-ordering expressed as a forecast file, '
           'mirrored-rate forecast pairs (ties across signs) under event re-ordering, re-ordering in place on a catalog '
           'object that was evaluated before.',
}
for _k, _v in {
    'C01': 'Round 9/10: regions built in other process-wide surroundings (decimal context, print options), tuple inputs, anchors small compared with the spacing on long lattices.',
    'C02': 'Round 9/10: edited generator outputs, other surroundings, upper limits between two edges.',
    'C03': 'Round 9/10: returned count arrays overwritten before the next call, a quadtree grid that does not fill its box.',
    'C04': 'Round 9/10: option spellings (numpy.bool_, 0 / 1), events on quadtree tile edges.',
    'C07': 'Round 9/10: catalogs of about 1e5 events differing by one, array scale factors.',
    'C09': 'Round 9/10: counts around 1e5, whole numbers beyond 2**53 (open finding for uint64 storage), edited ecdf() outputs.',
    'C10': 'Round 9/10: numpy division error state set to raise, observed events below the lowest magnitude.',
    'C11': 'Round 9/10: other surroundings / relative paths, lattices with empty lines (islands).',
    'C12': 'Round 9/10: exponent notation, rows of zeros, Path / relative names.',
    'C13': 'Round 9/10: catalogs with their own region, a fractional mainshock second with near-threshold magnitudes, overwritten rate arrays.',
    'C14': 'Round 9/10: option spellings, other surroundings.',
    'C16': 'Round 9/10: arrays re-scaled in place by the caller, integer-typed rates.',
    'C17': 'Round 9/10: Fraction / Decimal coordinates next to an edge.',
    'C18': 'Round 9/10: a child interpreter under an ASCII locale, Path / relative names.',
    'C19': 'Round 9/10: Path / relative names, 17-digit ZMAP text.',
    'C20': 'Round 9/10: only one forecast of a pair re-ordered, orderly re-orderings of a complete lattice.',
}.items():
    ADDENDA[_k] = (ADDENDA.get(_k, '') + ' ' + _v).strip()
for _k, _v in {
    'C01': 'Rounds 11-13: every batch also asked point by point, flagged regions rebuilt from their dictionary form.',
    'C02': 'Rounds 11-13: long grids whose step exceeds their first edge.',
    'C03': 'Rounds 11-13: a magnitude of 1e10 in the open top bin next to one a millionth below the lowest edge.',
    'C04': 'Rounds 11-13: the empty statement list, a filtered copy followed by an in-place call on the original.',
    'C05': 'Rounds 11-13: totals within 1e-5 of the observed number, top-bin events far above the top edge.',
    'C06': 'Rounds 11-13: the prescribed count known independently, rates below 1e-8, injected numbers for an empty catalog.',
    'C07': 'Rounds 11-13: scale factors within 1e-5 of 1.',
    'C08': 'Rounds 11-13: one single non-median difference, rate ratios down to 1e-16, a catalog shortened in place between evaluations.',
    'C10': 'Rounds 11-13: statistics 1e-10 apart (exact quantile rule), the full_calculation route of the MLL test.',
    'C11': 'Rounds 11-13: rates that need all 17 significant digits.',
    'C12': 'Rounds 11-13: coordinates at the ends of their ranges.',
    'C13': 'Rounds 11-13: single-precision magnitude edges.',
    'C15': 'Rounds 11-13: answers that are not datetimes are observations.',
    'C16': 'Rounds 11-13: a rate of 8e-6 in the quick tier.',
    'C19': 'Rounds 11-13: range-end coordinates, binade-crossing years with every millisecond.',
    'C20': 'Rounds 11-13: a bin carrying 1e-12 of the rate and holding an event.',
}.items():
    ADDENDA[_k] = (ADDENDA.get(_k, '') + ' ' + _v).strip()

NOT_YET = 'check not built yet in this round (specification planned in DESIGN.md section 5); not claimed until it exists'


def main():
    props = [json.loads(l) for l in open(os.path.join(ROOT, 'properties.jsonl'))]
    checks = []
    na = []
    for p in props:
        pid = p['id']
        if pid in CLAIMED:
            tech, text, note, ref = CLAIMED[pid]
            if pid in ADDENDA:
                text = text + ' ' + ADDENDA[pid]
            checks.append({
                'property_id': pid,
                'quick_cmd': 'bin/check %s --tier quick' % pid,
                'thorough_cmd': 'bin/check %s --tier thorough' % pid,
                'evidence_file': 'evidence/%s.json' % pid,
                'replay_cmd_template': 'bin/check %s --replay {path}' % pid,
                'engine': 'tlc-conformance',
                'level_claimed': {'category': 'model_checking', 'text': text, 'design_ref': 'DESIGN.md section ' + ref},
                'level_note': note,
                'technique': tech,
            })
        else:
            na.append({'property_id': pid, 'reason': NOT_YET})
    try:
        commits = subprocess.run(['git', '-C', '/repo', 'log', '--format=%h %s', '--grep=^verif-hook:'],
                                 capture_output=True, text=True).stdout.strip().splitlines()
    except Exception:
        commits = []
    man = {
        'version': 1,
        'setup_cmd': 'bin/setup',
        'hooks': {
            'guard': 'PYCSEP_VERIF',
            'enable': 'no source hook exists: checks import csep from /repo\'s working tree in a fresh interpreter; '
                      'observation wrappers are installed by the harness in its own process only',
            'baseline_off_cmd': 'cd /repo && env -u PYCSEP_VERIF /venv/bin/python -m pytest -ra -q -p no:cacheprovider --timeout=900 --continue-on-collection-errors',
            'source_commits': [c.split()[0] for c in commits],
            'add_only': True,
        },
        'engines': [{
            'name': 'tlc-conformance',
            'path': 'bin/check',
            'serves_properties': sorted(CLAIMED),
            'kind_free_text': 'explicit TLA+ specifications in spec/ checked by TLC (exhaustive small-scope model checking), '
                              'bound to the code by spec->code replay of TLC-enumerated cases and code->spec validation of '
                              'recorded traces (vh/)',
        }],
        'extension_checks': {
            'note': 'specification coverage beyond the listed properties (DESIGN.md section 8b); not claims about any property',
            'ids': ['X01', 'X02', 'X03', 'X04', 'X05', 'X06', 'X07', 'X08', 'X09', 'X10', 'X11', 'X12', 'X13', 'X14'],
            'cmd_template': 'bin/check {id} [--tier thorough]',
            'evidence_dir': 'evidence_ext/',
        },
        'checks': checks,
        'not_applicable': na,
        'notes': 'Exit 0 = held on everything explored; exit 1 + VIOLATION line = unlisted violation; exit 2 = machinery failure. '
                 'known_findings.json lists genuine defects recorded rather than repaired and the fix: commits made.',
    }
    with open(os.path.join(ROOT, 'MANIFEST.json'), 'w') as f:
        json.dump(man, f, indent=1)
    print('MANIFEST.json: %d checks, %d not_applicable' % (len(checks), len(na)))


if __name__ == '__main__':
    main()
