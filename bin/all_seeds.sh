#!/bin/sh
# usage: bin/all_seeds.sh [seed-dir-name ...]   - re-runs every kept seeded change (seeded/<ID>[-n]/) through bin/try_seed.sh
# and prints one DETECTED / MISSED line per change.  Exit 1 if any kept change is no longer detected.
HERE="$(cd "$(dirname "$0")/.." && pwd)"
cd "$HERE" || exit 2
[ $# -gt 0 ] || set -- $(ls seeded)
RC=0
for d in "$@"; do
  id=${d%%-*}
  if grep -q '"superseded"' "seeded/$d/meta.json"; then echo "SKIPPED  $d  (superseded, see meta.json)"; continue; fi
  if grep -q '"not_detected_by_design"' "seeded/$d/meta.json"; then echo "TOLERATED $d  (inside the tolerance the property grants, see meta.json)"; continue; fi
  # (a change whose route belongs to another property's check names that check in meta.json: "detected_by")
  by=$(python3 -c "import json,sys; print(json.load(open('seeded/$d/meta.json')).get('detected_by',''))")
  [ -n "$by" ] && id=$by
  out=$(bin/try_seed.sh "seeded/$d" "$id" 2>&1)
  if echo "$out" | grep -q "^check $id: exit 1"; then echo "DETECTED $d  $(echo "$out" | grep '^check' | cut -c1-160)";
  else echo "MISSED   $d  $(echo "$out" | grep -E '^check|^SEED|^suite' | tr '\n' ' ' | cut -c1-200)"; RC=1; fi
done
exit $RC
